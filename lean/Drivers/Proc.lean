import TextxVerif.Wire
import TextxVerif.ProcWalk
import TextxVerif.ProcLocate
import TextxVerif.ProcRaise
import TextxVerif.ProcLoad
import TextxVerif.ProcMatch
/-! Driver for the processor models (C13, C33).
ops:
  {"op":"objproc","kinds":[0|1|2 …],"reg":[cls…],"user":[cls…],"script":[[rule,id,R]…],
   "resolves":[n…],"models":[V…],"regs"?:[[cls…]…]}
     "regs" (optional, one list per model): the registrations of the metamodel each model was loaded with
     (models of imported files can belong to another metamodel); without it every model uses "reg"
     V ::= null | {"p":tag} | {"o":id,"c":cls,"f":[[name,cont,many,cls,V]…]} | [V…]
     R ::= ["v",tag] | ["s"] | ["f",name]
   → {"events":[["r",n]|["i",m,id]|["p",m,rule,id]…],
      "logs":[[[rule,id,[shallow field values…]]…]…], "finals":[W…]}   (W: V without attribute metadata)
   → {"err":"not-wf"} when some model does not have the shape the theorems assume
     "link" (optional, one list per model): the cross-references of the model's file in text order,
     [[id,pos,wait]…] (wait = how often the scope provider postpones the reference); the resolutions are then
     computed by the resolution loop (Proc.loadEvents over LinkLoc.run) instead of taken from "resolves";
   → {"err":"unlinked"} when that loop ends with an error (no initialisation, no processor call)
  {"op":"proc_error","kind":"obj"|"mtch","wrapped":bool,
   "raised":"other"|{"f":n|null,"l":n|null,"c":n|null,"n":n|null},"site":{"f":n|null,"l":n,"c":n,"n":n},
   "pinned"?:bool}
   → {"textx":{"f","l","c","n"}} | {"other":true}
   instead of "site" (the location as the real object reports it) the request may carry what the location is
   computed from:
     "src":{"f":n|null,"text":str,"pos":n,"end":n}       → site = Proc.siteOf (pos_to_linecol of the text)
     "walk":{"kinds","regs":[[cls…]…],"models":[V…],"raise":[rule,id],
             "srcs":[{"f":n|null,"text":str}…] (one per model),"spans":[[id,pos,end]…]}
        → the models are walked in order with the processor of `rule` raising on object `id` (Proc.loadE);
          the site is that of the object the failing call is made on; the answer also carries
          "fail":{"model":k,"call":[rule,id],"before":[[rule,id]…]}  (or {"nofail":true} when nothing raises)
     "mtree":{"tree":T,"raise":[rule,pos],"reg":[rule…],"f":n|null,"text":str}   T ::= [rule,pos] | [rule,pos,[T…]]
        → (kind mtch) the match parse tree is processed as process_match does (Proc.matchE) with the processor of
          `rule` raising for the node at `pos`; the site is the start of that node; the answer also carries
          "fail":{"call":[rule,pos],"before":[[rule,pos]…]} (calls of rules in "reg" only) or {"nofail":true}
-/
open Lean Wire Proc

def kindOf (ks : Array Nat) (c : Nat) : Kind :=
  match ks[c]? with
  | some 1 => .abstr
  | some 2 => .mtch
  | _ => .common

mutual
partial def parseVal (j : Json) : Option Val :=
  match j with
  | .null => some .none
  | .arr xs => (parseVals xs.toList).map Val.list
  | _ =>
    match getNat? j "p" with
    | some t => some (.prim t)
    | none => do
      let id ← getNat? j "o"
      let c ← getNat? j "c"
      let fs ← getArr? j "f"
      let fs' ← parseFields fs.toList
      pure (.obj id c fs')
partial def parseVals : List Json → Option Vals
  | [] => some .nil
  | x :: xs => do
    let v ← parseVal x
    let r ← parseVals xs
    pure (.cons v r)
partial def parseFields : List Json → Option Fields
  | [] => some .nil
  | x :: xs => do
    let a ← asArr? x
    let name ← asNat? (← a[0]?)
    let cont ← asBool? (← a[1]?)
    let many ← asBool? (← a[2]?)
    let cls ← asNat? (← a[3]?)
    let v ← parseVal (← a[4]?)
    let r ← parseFields xs
    pure (.cons ⟨name, cont, many, cls⟩ v r)
end

def parseRet (j : Json) : Option Ret := do
  let a ← asArr? j
  match (← asStr? (← a[0]?)) with
  | "v" => pure (.val (← asNat? (← a[1]?)))
  | "s" => pure .self
  | "f" => pure (.field (← asNat? (← a[1]?)))
  | _ => none

def parseScript (a : Array Json) : Option (List (Nat × Nat × Ret)) :=
  a.toList.mapM fun e => do
    let xs ← asArr? e
    let r ← asNat? (← xs[0]?)
    let i ← asNat? (← xs[1]?)
    let ret ← parseRet (← xs[2]?)
    pure (r, i, ret)

def scriptOf (tbl : List (Nat × Nat × Ret)) : Script := fun r i =>
  match tbl.find? (fun e => e.1 = r ∧ e.2.1 = i) with
  | some e => e.2.2
  | none => .none

mutual
partial def shallow : Val → Json
  | .none => .null
  | .prim t => Json.mkObj [("p", toJson t)]
  | .obj id _ _ => Json.mkObj [("o", toJson id)]
  | .list xs => Json.arr (shallowItems xs).toArray
partial def shallowItems : Vals → List Json
  | .nil => []
  | .cons x xs => shallow x :: shallowItems xs
end

partial def shallowFields : Fields → List Json
  | .nil => []
  | .cons _ v rest => shallow v :: shallowFields rest

mutual
partial def deep : Val → Json
  | .none => .null
  | .prim t => Json.mkObj [("p", toJson t)]
  | .obj id c fs => Json.mkObj [("o", toJson id), ("c", toJson c), ("f", Json.arr (deepFields fs).toArray)]
  | .list xs => Json.arr (deepItems xs).toArray
partial def deepItems : Vals → List Json
  | .nil => []
  | .cons x xs => deep x :: deepItems xs
partial def deepFields : Fields → List Json
  | .nil => []
  | .cons _ v rest => deep v :: deepFields rest
end

def evJson : Ev → Json
  | .resolve n => Json.arr #["r", toJson n]
  | .init m i => Json.arr #["i", toJson m, toJson i]
  | .proc m r i => Json.arr #["p", toJson m, toJson r, toJson i]

def entryJson (e : Entry) : Json :=
  Json.arr #[toJson e.rule, toJson e.id, Json.arr (shallowFields e.snap.fields).toArray]

def optNat (j : Json) (k : String) : Option (Option Nat) :=
  match j.getObjVal? k with
  | .ok .null => some none
  | .ok v => (asNat? v).map some
  | .error _ => none

def parseLoc (j : Json) : Option ErrLoc := do
  pure ⟨← optNat j "f", ← optNat j "l", ← optNat j "c", ← optNat j "n"⟩

def optJson : Option Nat → Json
  | some n => toJson n
  | none => .null

mutual
partial def parseMNode (j : Json) : Option MNode := do
  let a ← asArr? j
  let r ← asNat? (← a[0]?)
  let p ← asNat? (← a[1]?)
  match a[2]? with
  | none => pure (.term r p)
  | some ks => do
    let ks ← asArr? ks
    pure (.nonterm r p (← parseMNodes ks.toList))
partial def parseMNodes : List Json → Option MNodes
  | [] => some .nil
  | x :: xs => do
    let n ← parseMNode x
    let r ← parseMNodes xs
    pure (.cons n r)
end

def handle (j : Json) : Json :=
  match getStr? j "op" with
  | some "objproc" =>
    match getNatList? j "kinds", getNatList? j "reg", getNatList? j "user", (getArr? j "script").bind parseScript,
          getNatList? j "resolves", (getArr? j "models").bind (fun a => a.toList.mapM parseVal) with
    | some ks, some reg, some user, some tbl, some resolves, some models =>
      let mk (rg : List Nat) : MM := { kind := kindOf ks.toArray, hasProc := fun c => rg.contains c }
      let regs : Option (List (List Nat)) := match j.getObjVal? "regs" with
        | .ok (.arr a) => a.toList.mapM (fun x => (asArr? x).bind (fun xs => xs.toList.mapM asNat?))
        | .ok _ => none
        | .error _ => some (models.map (fun _ => reg))
      match regs with
      | none => badOp
      | some regs =>
      if regs.length ≠ models.length then badOp else
      let mms : List (MM × Val) := (regs.zip models).map (fun p => (mk p.1, p.2))
      let S := scriptOf tbl
      if mms.all (fun p => wf p.1 p.2 p.2.cls && (match p.2 with | .obj _ _ _ => true | _ => false)) then
        let link : Option (Option (List (List (Nat × Nat × Nat)))) := match j.getObjVal? "link" with
          | .ok (.arr a) => (a.toList.mapM (fun x => (asArr? x).bind (fun xs => xs.toList.mapM (fun y => do
              let ys ← asArr? y
              pure (← asNat? (← ys[0]?), ← asNat? (← ys[1]?), ← asNat? (← ys[2]?)))))).map some
          | .ok _ => none
          | .error _ => some none
        match link with
        | none => badOp
        | some link =>
        let evs? : Option (List Ev) := match link with
          | none => some (finishMM S (fun c => user.contains c) resolves mms)
          | some fl =>
            let files : List LinkLoc.FileSpec := fl.map (fun rs =>
              { name := none, text := [], refs := rs.map (fun r => ⟨r.1, r.2.1, r.2.1 + 1⟩), nm := none })
            let waits := fl.flatten
            let ans : Nat → Nat → LinkLoc.Answer := fun k id =>
              match waits.find? (fun r => r.1 == id) with
              | some r => if k < r.2.2 then .postponed else .resolved ⟨none, 0, 0⟩
              | none => .unknown
            loadEvents files ans (LinkLoc.enoughFuel files) S (fun c => user.contains c) mms
        match evs? with
        | none => Json.mkObj [("err", "unlinked")]
        | some evs =>
        let res := mms.map (fun p => walk p.1 S p.2 p.2.cls)
        Json.mkObj [("events", Json.arr (evs.map evJson).toArray),
                    ("logs", Json.arr (res.map (fun r => Json.arr (r.log.map entryJson).toArray)).toArray),
                    ("finals", Json.arr (res.map (fun r => deep r.val)).toArray)]
      else Json.mkObj [("err", "not-wf")]
    | _, _, _, _, _, _ => badOp
  | some "proc_error" =>
    let kind : Option PKind := match getStr? j "kind" with
      | some "obj" => some .obj
      | some "mtch" => some .mtch
      | _ => none
    let raised : Option Raised := match j.getObjVal? "raised" with
      | .ok (.str "other") => some .other
      | .ok r => (parseLoc r).map Raised.textx
      | .error _ => none
    let answer (k : PKind) (w : Bool) (r : Raised) (s : Site) (extra : List (String × Json)) : Json :=
      -- "pinned":true evaluates the enrichment as it was before the repair (used once to validate
      -- `wrap`/`given` against the unrepaired tree, where the two paths are distinguishable)
      match (if getBool? j "pinned" == some true then outcomePinned k s w r else outcome k s w r) with
      | .other => Json.mkObj ([("other", Json.bool true)] ++ extra)
      | .textx l => Json.mkObj ([("textx", Json.mkObj [("f", optJson l.filename), ("l", optJson l.line),
                                                      ("c", optJson l.col), ("n", optJson l.nchar)])] ++ extra)
    match kind, getBool? j "wrapped", raised with
    | some k, some w, some r =>
      match j.getObjVal? "mtree", j.getObjVal? "walk", j.getObjVal? "src", j.getObjVal? "site" with
      | .ok mj, _, _, _ =>
        match k, (j.getObjVal? "mtree").toOption.bind (fun m => (m.getObjVal? "tree").toOption.bind parseMNode),
              getNatList? mj "raise", getNatList? mj "reg", optNat mj "f", getStr? mj "text" with
        | .mtch, some t, some [rr, rp], some reg, some file, some text =>
          let R : Nat → Nat → Bool := fun a b => a == rr && b == rp
          match matchE R t, matchErr file text.toList R w r t with
          | .ok _, _ => Json.mkObj [("nofail", true)]
          | .error _, none => badOp
          | .error f, some res =>
            let cJ (c : MCall) : Json := Json.arr #[toJson c.rule, toJson c.pos]
            let extra := [("fail", Json.mkObj [("call", cJ f.call),
                            ("before", Json.arr ((f.log.filter (fun c => reg.contains c.rule)).map cJ).toArray)])]
            match res with
            | .other => Json.mkObj ([("other", Json.bool true)] ++ extra)
            | .textx l => Json.mkObj ([("textx", Json.mkObj [("f", optJson l.filename), ("l", optJson l.line),
                                                            ("c", optJson l.col), ("n", optJson l.nchar)])] ++ extra)
        | _, _, _, _, _, _ => badOp
      | _, .ok wj, _, _ =>
        -- the failing call and its site are determined by the walk
        let srcs : Option (List (Option Nat × List Char)) := (getArr? wj "srcs").bind fun a =>
          a.toList.mapM fun x => do pure (← optNat x "f", (← getStr? x "text").toList)
        let spans : Option (List (Nat × Nat × Nat)) := (getArr? wj "spans").bind fun a =>
          a.toList.mapM fun x => do
            let xs ← asArr? x
            pure (← asNat? (← xs[0]?), ← asNat? (← xs[1]?), ← asNat? (← xs[2]?))
        match k, getNatList? wj "kinds", (getArr? wj "regs").bind (fun a => a.toList.mapM (fun x => (asArr? x).bind (fun xs => xs.toList.mapM asNat?))),
              (getArr? wj "models").bind (fun a => a.toList.mapM parseVal), getNatList? wj "raise", srcs, spans with
        | .obj, some ks, some regs, some models, some [rr, ri], some srcs, some spans =>
          if regs.length ≠ models.length ∨ srcs.length ≠ models.length then badOp else
          let mk (rg : List Nat) : MM := { kind := kindOf ks.toArray, hasProc := fun c => rg.contains c }
          let mms : List (MM × Val) := (regs.zip models).map (fun p => (mk p.1, p.2))
          let S : Script := fun _ _ => .none
          let R : Raises := fun a b => a == rr && b == ri
          if mms.all (fun p => wf p.1 p.2 p.2.cls && (match p.2 with | .obj _ _ _ => true | _ => false)) then
            let span : Nat → Nat × Nat := fun i =>
              match spans.find? (fun e => e.1 == i) with
              | some e => (e.2.1, e.2.2)
              | none => (0, 0)
            let srcL : List Src := srcs.map (fun ft => ⟨ft.1, ft.2, span⟩)
            match loadE S R mms, loadErr S R srcL (fun _ => w) (fun _ _ => r) mms with
            | .ok _, _ => Json.mkObj [("nofail", true)]
            | .error _, none => badOp
            | .error (km, f), some res =>
              let keyJ (e : Entry) : Json := Json.arr #[toJson e.rule, toJson e.id]
              let before := ((mms.take km).map (fun p => (walk p.1 S p.2 p.2.cls).log)).flatten ++ f.log
              let extra := [("fail", Json.mkObj [("model", toJson km), ("call", keyJ f.call),
                                                 ("before", Json.arr (before.map keyJ).toArray)])]
              match res with
              | .other => Json.mkObj ([("other", Json.bool true)] ++ extra)
              | .textx l => Json.mkObj ([("textx", Json.mkObj [("f", optJson l.filename), ("l", optJson l.line),
                                                              ("c", optJson l.col), ("n", optJson l.nchar)])] ++ extra)
          else Json.mkObj [("err", "not-wf")]
        | _, _, _, _, _, _, _ => badOp
      | _, _, .ok sj, _ =>
        match optNat sj "f", getStr? sj "text", getNat? sj "pos", getNat? sj "end" with
        | some f, some text, some pos, some pe => answer k w r (siteOf f text.toList pos pe) []
        | _, _, _, _ => badOp
      | _, _, _, .ok sj =>
        let site : Option Site := do
          pure ⟨← optNat sj "f", ← getNat? sj "l", ← getNat? sj "c", ← getNat? sj "n"⟩
        match site with
        | some s => answer k w r s []
        | none => badOp
      | _, _, _, _ => badOp
    | _, _, _ => badOp
  | _ => badOp

def main : IO Unit := serve handle
