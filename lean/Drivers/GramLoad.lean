import TextxVerif.Wire
import TextxVerif.GramLoad
/-! Driver for the grammar-loading model (C23).
ops:
  {"op":"grammar_outcome","g":G,"langs":{name:[class…]|null}} → {"out":O,"alts":[O…]}
      + "bad_param": Grammar.hasBadParam, "unregistered": Grammar.hasUnregistered, "has_reference": Grammar.hasReference
        (the syntactic conditions of C23_classified: a TextXError / TextXRegistrationError of the implementation needs them)
  {"op":"parse_failed"}                                        → {"out":"syntax","alts":["syntax"]}
  {"op":"isa_table"}  → {"table":{Class:{Handler:bool}}}   PyExc.isa for every class and handler (compared with issubclass)
G    = {"stms":[["imp"]|["ref",lang,alias|null]…],"rules":[R…]}            (at least one rule)
R    = {"n":name,"p":null|[[name,value|null]…],"b":C}
C    = [S…] (≥1)   S = [X…] (≥1)   X = {"e":E,"r":null|{"op":"*|?|+|#","m":null|[Mod…]},"s":bool}
E    = {"k":"asgn","a":attr,"op":"=|+=|*=|?=","rhs":Rhs,"m":null|[Mod…]}
     | {"k":"lit","pr":P,"l":L} | {"k":"ref","pr":P,"n":name} | {"k":"grp","pr":P,"c":C}      P = null|"!"|"&"
L    = {"k":"str","ok":bool} | {"k":"re","ok":bool,"exc":null|"error"|"OverflowError"|"RecursionError"|"ValueError"|"other"}
       ("exc": class of the exception re.compile raised; null exactly when ok)
Mod  = {"k":"sep","l":L} | {"k":"eol"}
Rhs  = {"k":"lit","l":L} | {"k":"ref","n":name} | {"k":"obj","cls":c,"rule":null|name,"rrel":bool}
O    = "ok"|"syntax"|"semantic"|"txerror"|"registration"|"py:<Exception>"
-/
open Lean Wire GramLoad

def optStr? (j : Json) (k : String) : Option (Option String) :=
  match j.getObjVal? k with
  | .ok .null => some none
  | .ok v => (asStr? v).map some
  | .error _ => none

def isNull (j : Json) (k : String) : Bool :=
  match j.getObjVal? k with
  | .ok .null => true
  | _ => false

/-- class of the exception `re.compile` raised (names the harness does not single out: `other`) -/
def parsePyExc : String → Option PyExc
  | "error" => some .reError | "OverflowError" => some .overflowError
  | "RecursionError" => some .recursionError | "ValueError" => some .valueError
  | "other" => some .other | _ => none

def parseLit (j : Json) : Option Lit := do
  let ok ← getBool? j "ok"
  match ← getStr? j "k" with
  | "str" => pure (.str ok)
  | "re" =>
      -- "exc": null exactly when the pattern compiles
      if isNull j "exc" then (if ok then pure (.re none) else none)
      else if ok then none
      else pure (.re (some (← parsePyExc (← getStr? j "exc"))))
  | _ => none

def parseMod (j : Json) : Option Mod := do
  match ← getStr? j "k" with
  | "sep" => pure (.sep (← parseLit (← getObj? j "l")))
  | "eol" => pure .eolterm
  | _ => none

def parseMods (j : Json) (k : String) : Option (Option (List Mod)) :=
  if isNull j k then some none
  else do
    let a ← getArr? j k
    pure (some (← a.toList.mapM parseMod))

def parsePred (j : Json) : Option (Option Pred) :=
  if isNull j "pr" then some none
  else match getStr? j "pr" with
    | some "!" => some (some .not_)
    | some "&" => some (some .and_)
    | _ => none

def parseRhs (j : Json) : Option Rhs := do
  match ← getStr? j "k" with
  | "lit" => pure (.lit (← parseLit (← getObj? j "l")))
  | "ref" => pure (.ref (← getStr? j "n"))
  | "obj" => pure (.obj (← getStr? j "cls") (← optStr? j "rule") (← getBool? j "rrel"))
  | _ => none

def parseAOp : String → Option AOp
  | "=" => some .eq | "+=" => some .plus | "*=" => some .star | "?=" => some .opt | _ => none

def parseROp : String → Option ROp
  | "*" => some .star | "?" => some .opt | "+" => some .plus | "#" => some .hash | _ => none

mutual
partial def parseExpr (j : Json) : Option Expr := do
  match ← getStr? j "k" with
  | "asgn" =>
      pure (.asgn (← getStr? j "a") (← parseAOp (← getStr? j "op")) (← parseRhs (← getObj? j "rhs"))
        (← parseMods j "m"))
  | "lit" => pure (.lit (← parsePred j) (← parseLit (← getObj? j "l")))
  | "ref" => pure (.ref (← parsePred j) (← getStr? j "n"))
  | "grp" => pure (.group (← parsePred j) (← parseChoice (← getArr? j "c").toList))
  | _ => none
partial def parseRExpr (j : Json) : Option RExpr := do
  let e ← parseExpr (← getObj? j "e")
  let rep ← if isNull j "r" then some none else do
    let r ← getObj? j "r"
    pure (some { op := (← parseROp (← getStr? r "op")), mods := (← parseMods r "m") : RepOp })
  pure (.mk e rep (← getBool? j "s"))
partial def parseSeq (xs : List Json) : Option Seq :=
  match xs with
  | [] => none
  | [x] => do pure (.one (← parseRExpr x))
  | x :: rest => do pure (.cons (← parseRExpr x) (← parseSeq rest))
partial def parseChoice (xs : List Json) : Option Choice :=
  match xs with
  | [] => none
  | [s] => do pure (.one (← parseSeq (← asArr? s).toList))
  | s :: rest => do pure (.cons (← parseSeq (← asArr? s).toList) (← parseChoice rest))
end

def parseParam (j : Json) : Option (String × Option String) := do
  let a ← asArr? j
  let n ← asStr? (← a[0]?)
  match ← a[1]? with
  | .null => pure (n, none)
  | v => pure (n, some (← asStr? v))

def parseRule (j : Json) : Option Rule := do
  let ps ← if isNull j "p" then some none else do
    pure (some (← (← getArr? j "p").toList.mapM parseParam))
  pure { name := (← getStr? j "n"), params := ps, body := (← parseChoice (← getArr? j "b").toList) }

def parseStm (j : Json) : Option Stm := do
  let a ← asArr? j
  match ← asStr? (← a[0]?) with
  | "imp" => pure .imp
  | "ref" =>
      let lang ← asStr? (← a[1]?)
      match ← a[2]? with
      | .null => pure (.reference lang none)
      | v => pure (.reference lang (some (← asStr? v)))
  | _ => none

def parseGrammar (j : Json) : Option Grammar := do
  let stms ← (← getArr? j "stms").toList.mapM parseStm
  match ← (← getArr? j "rules").toList.mapM parseRule with
  | [] => none
  | r :: rs => pure { stms := stms, first := r, rest := rs }

/-- `langs`: object name → null | [class names]; a language that is not listed is a decode failure -/
def parseLangs (j : Json) : Option (List (String × Option (List String))) := do
  let o ← (j.getObj?).toOption
  o.toList.mapM fun (k, v) =>
    match v with
    | .null => some (k, none)
    | v => do pure (k, some (← (fromJson? v : Except String (List String)).toOption))

def pyName : PyExc → String
  | .keyError => "KeyError" | .attributeError => "AttributeError" | .typeError => "TypeError"
  | .indexError => "IndexError" | .recursionError => "RecursionError" | .assertionError => "AssertionError"
  | .unicodeDecodeError => "UnicodeDecodeError" | .reError => "error"
  | .overflowError => "OverflowError" | .valueError => "ValueError" | .other => "Exception"

def handlerName : Handler → String
  | .exception => "Exception" | .valueError => "ValueError" | .keyError => "KeyError" | .reError => "error"

def allPyExc : List PyExc :=
  [.keyError, .attributeError, .typeError, .indexError, .recursionError, .assertionError, .unicodeDecodeError,
   .reError, .overflowError, .valueError, .other]

def allHandlers : List Handler := [.exception, .valueError, .keyError, .reError]

def outName : M Unit → String
  | .ok _ => "ok"
  | .error .syntax => "syntax"
  | .error .semantic => "semantic"
  | .error .txerror => "txerror"
  | .error .registration => "registration"
  | .error (.py e) => "py:" ++ pyName e

def handle (j : Json) : Json :=
  match getStr? j "op" with
  | some "grammar_outcome" =>
    match (getObj? j "g").bind parseGrammar, (getObj? j "langs").bind parseLangs with
    | some g, some tbl =>
      let env : Env := { langs := fun n => (tbl.find? (·.1 == n)).bind (·.2) }
      -- a referenced language that the request does not describe: undecodable, never a default
      let described := g.stms.all fun s => match s with
        | .reference lang _ => tbl.any (·.1 == lang)
        | .imp => true
      if !described then badOp else
      Json.mkObj [("out", outName (compile env g)),
                  ("alts", toJson ((outcomes env g).map outName).eraseDups),
                  ("bad_param", toJson g.hasBadParam),
                  ("unregistered", toJson (g.hasUnregistered env)),
                  ("has_reference", toJson g.hasReference)]
    | _, _ => badOp
  | some "isa_table" =>
    Json.mkObj [("table", Json.mkObj (allPyExc.map fun e =>
      (pyName e, Json.mkObj (allHandlers.map fun h => (handlerName h, toJson (e.isa h))))))]
  | some "parse_failed" =>
    Json.mkObj [("out", outName parseFailed), ("alts", toJson [outName parseFailed])]
  | _ => badOp

def main : IO Unit := serve handle
