import TextxVerif.Wire
import TextxVerif.Gen.Grammars
import TextxVerif.Peg.RecX
/-! Driver for the C24 recogniser on the generated graphs.
{"op":"accept","input":"…","toks":[[[pos,len] …] per token id],"fuel":n}   (sparse: the matching positions)
→ {"lang":r,"tx":r,"txo":r,"trap":r,"lexok":b,"notrail":[h …]}   r = "ok" | "fail" | "fuel" | "bad"
`trap` = the instrumented graph `trap tx unproved`: a result other than "fuel" is the hypothesis `CleanRun L` of
C24_agree_tx_run_partial (the actual run meets no trailing RREL separator);
`txo` = `unsep tx unproved`; `lexok` = the lexer hypotheses `hyps` hold on this token table;
`notrail` = per node of `unproved`, the hypothesis `NoTrailingSep tx i L` of C24_agree_tx_partial:
"ends" (holds: sufficient condition `noTrailEndsB`, theorem C24_notrail_table), "scan" (bounded scan
`noTrailScanB` over all positions finds no violation), "no" (scan finds a violation: false, C24_notrail_scan),
"long" (text longer than 3000 characters and the sufficient condition fails: not evaluated).
{"op":"info"} → sizes, unproved, hypotheses (for the evidence). -/
open Lean Wire Rec Gen.Grammars

/-- same graph with the node table decoded once -/
def cacheGraph (g : Graph) : Graph :=
  let arr : Array (Option Peg.Node) := (Array.range g.size).map g.get
  { g with node := fun i => (arr[i]?).join }

def gLang : Graph := cacheGraph lang
def gTx : Graph := cacheGraph tx
def gTxo : Graph := cacheGraph (unsep tx unproved)
def gTrap : Graph := cacheGraph (trap tx unproved)

def parseRow (size : Nat) (j : Json) : Option (Array (Option Nat)) := do
  let a ← asArr? j
  let mut row : Array (Option Nat) := Array.replicate (size + 1) none
  for e in a do
    match asNatList? e with
    | some [p, len] => if p ≤ size then row := row.set! p (some len) else failure
    | _ => failure
  pure row

def resStr : Res → String
  | .ok _ _ => "ok" | .fail => "fail" | .fuel => "fuel" | .bad => "bad"

def lexOkB (H : Hyps) (L : Lex) : Bool :=
  (List.range (L.input.size + 1)).all fun p =>
    (H.nonempty.all fun t => match L.tok t p with | some len => decide (0 < len) | none => true) &&
    (H.alts.all fun ta => L.tok ta.1 p == firstTok L p ta.2)

/-- end positions of the matches in one token row -/
def rowEnds (row : Array (Option Nat)) : List Nat :=
  (List.range row.size).filterMap fun p => ((row[p]?).join).map (p + ·)

def noTrailStr (toks : Array (Array (Option Nat))) (L : Lex) (fuel : Nat) (i : Nat) : String :=
  let ends := match toks[sepTok gTx i]? with | some row => rowEnds row | none => []
  if noTrailEndsB gTx i L fuel ends then "ends"
  else if L.input.size > 3000 then "long"   -- the scan is quadratic in the worst case: not evaluated on long texts
  else if noTrailScanB gTx i L fuel then "scan" else "no"

def handle (j : Json) : Json :=
  match getStr? j "op" with
  | some "accept" =>
    let r : Option Json := do
      let input ← getStr? j "input"
      let toks ← (← getArr? j "toks").mapM (parseRow input.length)
      let fuel ← getNat? j "fuel"
      let L : Lex := { input := input.toList.toArray,
                       tok := fun t p => match toks[t]? with | some row => (row[p]?).join | none => none }
      let run := fun (g : Graph) => resStr (parse g L fuel g.top false 0)
      pure <| Json.mkObj [("lang", run gLang), ("tx", run gTx), ("txo", run gTxo), ("trap", run gTrap), ("lexok", lexOkB hyps L),
                         ("notrail", toJson (unproved.map (noTrailStr toks L fuel)))]
    r.getD badOp
  | some "info" =>
    Json.mkObj [("lang_size", lang.size), ("tx_size", tx.size), ("txo_size", (unsep tx unproved).size),
                ("unproved", toJson unproved), ("nonempty", toJson hyps.nonempty),
                ("alts", toJson (hyps.alts.map fun a => (a.1, a.2)))]
  | _ => badOp

def main : IO Unit := serve handle
