import TextxVerif.Wire
import TextxVerif.ParamsLoad
import TextxVerif.Gen.CheckParams
/-! Driver for the parameter load machine (C27).
op:
  {"op":"params","defs":[s…],"kwargs":[[name,value-text]…],"isStr":b,"viaFile":b,"file":n,
   "prov":{"k":"none"|"importURI"|"rrelM"|"globalRepo","rel":b?,"hit":[n…]?},
   "files":[{"stmts":[[n…]…],"hasRef":b,"broken":b}…],
   "repo0":[[file, null | [[name,value-text]…]]…]}
  → {"ok":{"repo":[[file, params|null]…],"cached":n}}      (the first `cached` entries are repo0)
  | {"err":[kind, detail?]}
-/
open Lean Wire ParamsLoad

def parseParams (j : Json) : Option Params := do
  let a ← asArr? j
  a.toList.mapM fun e => do
    let xs ← asArr? e
    if xs.size ≠ 2 then none
    pure (← asStr? (← xs[0]?), ← asStr? (← xs[1]?))

def parseNatLists (a : Array Json) : Option (List (List Nat)) := a.toList.mapM asNatList?

def parseFile (j : Json) : Option FileSpec := do
  let stmts ← (← getArr? j "stmts") |> parseNatLists
  pure { stmts := stmts, hasRef := ← getBool? j "hasRef", broken := ← getBool? j "broken" }

def parseProv (j : Json) : Option Prov := do
  match ← getStr? j "k" with
  | "none" => pure .none
  | "importURI" => pure .importURI
  | "rrelM" => pure .rrelM
  | "globalRepo" => pure (.globalRepo (← getBool? j "rel") (← getNatList? j "hit"))
  | _ => none

def parseRepo (a : Array Json) : Option Repo :=
  a.toList.mapM fun e => do
    let xs ← asArr? e
    if xs.size ≠ 2 then none
    let f ← asNat? (← xs[0]?)
    let p ← xs[1]?
    if p.isNull then pure { file := f, params := none }
    else pure { file := f, params := some (← parseParams p) }

def paramsJson (p : Option Params) : Json :=
  match p with
  | none => Json.null
  | some ps => Json.arr (ps.map fun (k, v) => Json.arr #[toJson k, toJson v]).toArray

def errJson : Err → Json
  | .unknownParam k => Json.arr #["unknownParam", toJson k]
  | .notString => Json.arr #["notString"]
  | .syntax f => Json.arr #["syntax", toJson f]
  | .enoent => Json.arr #["enoent"]
  | .noParams => Json.arr #["noParams"]
  | .noFile f => Json.arr #["noFile", toJson f]
  | .fuel => Json.arr #["fuel"]

def handle (j : Json) : Json :=
  match getStr? j "op" with
  | some "params" =>
    let r : Option Json := do
      let defs ← getStrList? j "defs"
      let kwargs ← parseParams (← getObj? j "kwargs")
      let files ← (← getArr? j "files").toList.mapM parseFile
      let prov ← parseProv (← getObj? j "prov")
      let repo0 ← parseRepo (← getArr? j "repo0")
      let rq : Request := { defs := defs, kwargs := kwargs, isStr := ← getBool? j "isStr",
                            viaFile := ← getBool? j "viaFile", file := ← getNat? j "file" }
      let W : World := { files := files, prov := prov }
      match load Gen.checkParamsBody W (files.length + 1) repo0 rq with
      | .ok repo =>
        pure (Json.mkObj [("ok", Json.mkObj [
          ("repo", Json.arr (repo.map fun m => Json.arr #[toJson m.file, paramsJson m.params]).toArray),
          ("cached", toJson repo0.length)])])
      | .error e => pure (Json.mkObj [("err", errJson e)])
    r.getD badOp
  | _ => badOp

def main : IO Unit := serve handle
