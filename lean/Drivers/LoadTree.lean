import TextxVerif.LoadTreeIO
/-! Driver for the load-tree machine (C14, C15); ops and wire format: see `TextxVerif/LoadTreeIO.lean`. -/
def main : IO Unit := Wire.serve LoadTreeIO.handle
