import TextxVerif.Wire
import TextxVerif.Imp
/-! Driver for the grammar-import model (C25).
op:
  {"op":"imports","main":"a",
   "files":[{"ns":["sub","b"],"imports":[["c"],["deep","d"]],
             "rules":[{"name":"X","refs":[{"q":null|["sub","c"],"n":"Y"}]}]}],
   "queries":[{"q":null|[..],"n":"X"}]}
  → {"out":{"opened":[ns…],"classes":[[ns,name]…],
            "resolved":[{"cls":id,"ns":ns,"rule":name,"targets":[T…]}],
            "queries":[T|null…]}}          T = {"cls":id} | {"base":name}
  | {"out":{"error":"missing","ns":ns}} | {"out":{"error":"unexisting","ns":ns,"ref":{"q","n"}}}
  | {"err":"fuel"} | {"err":"bad-op"}
  {"op":"history","steps":[<imports request>…]}       one process, one directory, one meta-model per step
  → {"out":{"steps":[<answer of the imports request>…]}}   (`Imp.loadHistory`: every step from its own files)
  every "out" also carries
    "doc": [[ns, rule, [D…]]…]   the documented resolution `docResolve` of every reference of every rule of
                                 every file of the request, D = {"rule":[ns,name]} | {"base":name} | null
    "loadable": bool             `docLoadable` for S = the optional request field "closure" (list of ns; null without it)
  and an "unexisting" answer carries "failing": every reference of the failing file that cannot be resolved at
  that point (the loader is run again without the reported reference until that file's second pass goes through).
-/
open Lean Wire Imp

def parseNs (j : Json) : Option Ns := (fromJson? j : Except String (List String)).toOption

def parseRef (j : Json) : Option Ref := do
  let n ← getStr? j "n"
  let qj ← getObj? j "q"
  match qj with
  | .null => pure ⟨none, n⟩
  | _ => pure ⟨some (← parseNs qj), n⟩

def parseRule (j : Json) : Option Rule := do
  let name ← getStr? j "name"
  let refs ← (← getArr? j "refs").toList.mapM parseRef
  pure ⟨name, refs⟩

def parseFile (j : Json) : Option (Ns × File) := do
  let ns ← parseNs (← getObj? j "ns")
  let imports ← (← getArr? j "imports").toList.mapM parseNs
  let rules ← (← getArr? j "rules").toList.mapM parseRule
  pure (ns, ⟨imports, rules⟩)

def mkFS (files : List (Ns × File)) : FS := fun ns => files.lookup ns

def targetJson : Target → Json
  | .cls c => Json.mkObj [("cls", toJson c)]
  | .base n => Json.mkObj [("base", toJson n)]

def refJson (r : Ref) : Json :=
  Json.mkObj [("q", match r.qual with | some q => toJson q | none => Json.null), ("n", toJson r.name)]

def entryJson (e : ResEntry) : Json :=
  Json.mkObj [("cls", toJson e.cls), ("ns", toJson e.ns), ("rule", toJson e.rule.name),
    ("targets", Json.arr (e.targets.map targetJson).toArray)]

def specJson : Option SpecTarget → Json
  | some (.rule ns n) => Json.mkObj [("rule", Json.arr #[toJson ns, toJson n])]
  | some (.base n) => Json.mkObj [("base", toJson n)]
  | none => Json.null

def docJson (files : List (Ns × File)) : Json :=
  let fs := mkFS files
  Json.arr (files.flatMap fun (ns, f) => f.rules.map fun rule =>
    Json.arr #[toJson ns, toJson rule.name, Json.arr (rule.refs.map fun r => specJson (docResolve fs ns r)).toArray]).toArray

/-- the file `ns` without the reference `r` -/
def dropRef (files : List (Ns × File)) (ns : Ns) (r : Ref) : List (Ns × File) :=
  files.map fun (k, f) =>
    if k = ns then (k, { f with rules := f.rules.map fun rule => { rule with refs := rule.refs.filter (· != r) } })
    else (k, f)

/-- every reference of file `ns` that fails in the state in which its second pass runs: the reported one, then
the one reported when that is removed, … (what is loaded before does not depend on the references of `ns`) -/
def failingRefs (main : Seg) (ns : Ns) : Nat → List (Ns × File) → List Ref
  | 0, _ => []
  | n + 1, files =>
    match loadMain (mkFS files) (files.length + 1) main with
    | .error (.unexisting ns' r) => if ns' = ns then r :: failingRefs main ns n (dropRef files ns r) else []
    | _ => []

def refCount (files : List (Ns × File)) (ns : Ns) : Nat :=
  match files.lookup ns with
  | some f => (f.rules.map (·.refs.length)).sum
  | none => 0

def handleImports (j : Json) : Json :=
    match getStr? j "main", (getArr? j "files").bind (·.toList.mapM parseFile),
        (getArr? j "queries").bind (·.toList.mapM parseRef) with
    | some main, some files, some queries =>
      let closure : Option (Option (List Ns)) :=
        match getObj? j "closure" with
        | none => some none
        | some .null => some none
        | some cj => (fromJson? cj : Except String (List (List String))).toOption.map some
      match closure with
      | none => badOp
      | some clos =>
      let common : List (String × Json) := [("doc", docJson files),
        ("loadable", match clos with
          | some S => toJson (docLoadable (mkFS files) S main)
          | none => Json.null)]
      match loadMain (mkFS files) (files.length + 1) main with
      | .error .fuel => fuelOut
      | .error .nostack => fuelOut
      | .error (.missing ns) =>
        Json.mkObj [("out", Json.mkObj ([("error", Json.str "missing"), ("ns", toJson ns)] ++ common))]
      | .error (.unexisting ns r) =>
        Json.mkObj [("out", Json.mkObj ([("error", Json.str "unexisting"), ("ns", toJson ns), ("ref", refJson r),
          ("failing", Json.arr ((failingRefs main ns (refCount files ns + 1) files).map refJson).toArray)] ++ common))]
      | .ok st =>
        Json.mkObj [("out", Json.mkObj (common ++ [
          ("opened", toJson st.opened),
          ("classes", Json.arr (st.classes.map fun (ns, n) => Json.arr #[toJson ns, toJson n]).toArray),
          ("resolved", Json.arr (st.resolved.map entryJson).toArray),
          ("queries", Json.arr (queries.map fun q =>
              match getItem st q with | some t => targetJson t | none => Json.null).toArray)]))]
    | _, _, _ => badOp

def handle (j : Json) : Json :=
  match getStr? j "op" with
  | some "imports" => handleImports j
  | some "history" =>
    match getArr? j "steps" with
    | some steps =>
      -- `loadHistory`: the answer of a step is the answer to that step's request alone
      if steps.all (fun sj => getStr? sj "op" == some "imports") then
        Json.mkObj [("out", Json.mkObj [("steps", Json.arr (steps.map handleImports))])]
      else badOp
    | none => badOp
  | _ => badOp

def main : IO Unit := serve handle
