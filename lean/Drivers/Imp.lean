import TextxVerif.Wire
import TextxVerif.Imp
/-! Driver for the grammar-import model (C25).
op:
  {"op":"imports","main":"a",
   "files":[{"ns":["sub","b"],"imports":[["c"],["deep","d"]],
             "rules":[{"name":"X","refs":[{"q":null|["sub","c"],"n":"Y"}]}]}],
   "queries":[{"q":null|[..],"n":"X"}]}
  → {"out":{"opened":[ns…],"classes":[[ns,name]…],
            "resolved":[{"cls":id,"ns":ns,"rule":name,"targets":[T…]}],
            "queries":[T|null…]}}          T = {"cls":id} | {"base":name}
  | {"out":{"error":"missing","ns":ns}} | {"out":{"error":"unexisting","ns":ns,"ref":{"q","n"}}}
  | {"err":"fuel"} | {"err":"bad-op"}
-/
open Lean Wire Imp

def parseNs (j : Json) : Option Ns := (fromJson? j : Except String (List String)).toOption

def parseRef (j : Json) : Option Ref := do
  let n ← getStr? j "n"
  let qj ← getObj? j "q"
  match qj with
  | .null => pure ⟨none, n⟩
  | _ => pure ⟨some (← parseNs qj), n⟩

def parseRule (j : Json) : Option Rule := do
  let name ← getStr? j "name"
  let refs ← (← getArr? j "refs").toList.mapM parseRef
  pure ⟨name, refs⟩

def parseFile (j : Json) : Option (Ns × File) := do
  let ns ← parseNs (← getObj? j "ns")
  let imports ← (← getArr? j "imports").toList.mapM parseNs
  let rules ← (← getArr? j "rules").toList.mapM parseRule
  pure (ns, ⟨imports, rules⟩)

def mkFS (files : List (Ns × File)) : FS := fun ns => files.lookup ns

def targetJson : Target → Json
  | .cls c => Json.mkObj [("cls", toJson c)]
  | .base n => Json.mkObj [("base", toJson n)]

def refJson (r : Ref) : Json :=
  Json.mkObj [("q", match r.qual with | some q => toJson q | none => Json.null), ("n", toJson r.name)]

def entryJson (e : ResEntry) : Json :=
  Json.mkObj [("cls", toJson e.cls), ("ns", toJson e.ns), ("rule", toJson e.rule.name),
    ("targets", Json.arr (e.targets.map targetJson).toArray)]

def handle (j : Json) : Json :=
  match getStr? j "op" with
  | some "imports" =>
    match getStr? j "main", (getArr? j "files").bind (·.toList.mapM parseFile),
        (getArr? j "queries").bind (·.toList.mapM parseRef) with
    | some main, some files, some queries =>
      match loadMain (mkFS files) (files.length + 1) main with
      | .error .fuel => fuelOut
      | .error .nostack => fuelOut
      | .error (.missing ns) =>
        Json.mkObj [("out", Json.mkObj [("error", "missing"), ("ns", toJson ns)])]
      | .error (.unexisting ns r) =>
        Json.mkObj [("out", Json.mkObj [("error", "unexisting"), ("ns", toJson ns), ("ref", refJson r)])]
      | .ok st =>
        Json.mkObj [("out", Json.mkObj [
          ("opened", toJson st.opened),
          ("classes", Json.arr (st.classes.map fun (ns, n) => Json.arr #[toJson ns, toJson n]).toArray),
          ("resolved", Json.arr (st.resolved.map entryJson).toArray),
          ("queries", Json.arr (queries.map fun q =>
              match getItem st q with | some t => targetJson t | none => Json.null).toArray)])]
    | _, _, _ => badOp
  | _ => badOp

def main : IO Unit := serve handle
