import TextxVerif.Wire
import TextxVerif.RefList
/-! Driver for the reference-list model under histories of loads (C08).
ops:
  {"op":"history","runs":[[[obj,attr,pos,tgt]…]…]}
        one entry of `runs` per `ReferenceResolver` (model file of a load), in history order; each entry the
        references of its list attributes in the order they got resolved
     → {"runs":[[[obj,attr,[tgt…]]…]…]}   per run the content of every list attribute that occurs in it
-/
open Lean Wire RefList

def parseKRefs (j : Json) : Option (List KRef) := do
  let a ← asArr? j
  a.toList.mapM fun e => do
    match ← asNatList? e with
    | [o, a, p, t] => pure { key := (o, a), pos := p, tgt := t }
    | _ => none

def keysOf (seq : List KRef) : List Key :=
  seq.foldl (fun ks r => if r.key ∈ ks then ks else ks ++ [r.key]) []

def showRun (seq : List KRef) (st : State) : Json :=
  toJson ((keysOf seq).map fun k => Json.arr #[toJson k.1, toJson k.2, toJson (st.values k)])

def handle (j : Json) : Json :=
  match getStr? j "op" with
  | some "history" =>
    match (getArr? j "runs").bind (fun a => a.toList.mapM parseKRefs) with
    | some runs =>
      Json.mkObj [("runs", toJson ((runs.zip (history runs)).map fun (seq, st) => showRun seq st))]
    | none => badOp
  | _ => badOp

def main : IO Unit := serve handle
