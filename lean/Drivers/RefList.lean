import TextxVerif.Wire
import TextxVerif.RefList
import TextxVerif.ResolveSched
/-! Driver for the reference-list model under histories of loads (C08).
ops:
  {"op":"history","runs":[[[obj,attr,pos,tgt]…]…]}
        one entry of `runs` per `ReferenceResolver` (model file of a load), in history order; each entry the
        references of its list attributes in the order they got resolved
     → {"runs":[[[obj,attr,[tgt…]]…]…]}   per run the content of every list attribute that occurs in it
  {"op":"schedule","loads":[[[[obj,attr,pos,tgt,wait(,dep)]…]…]…]}
        per load its model files (any fixed order), per file the references (list attributes, and the single
        references other providers walk over) in TEXTUAL order with the number of provider calls answered
        `Postponed` (`wait`) and optionally `dep` = 1 + index (within the file) of the reference the provider
        asks the resolver about (`needs_to_be_resolved`; 0 / absent = none).  The model runs the resolver loop
        itself (`Resolve.loopO` with `depOracle`: all files of a load, round after round) and feeds every
        file's own `ReferenceResolver` (`RefList.run`) with the part of the resolution sequence that is its own
     → {"loads":[{"pending":n,"files":[{"seq":[[obj,attr,pos]…],"lists":[[obj,attr,[tgt…]]…]}…]}…]}
  ("history" accepts the field "loads" as well and then answers both "runs" and "loads")
-/
open Lean Wire RefList

def parseKRefs (j : Json) : Option (List KRef) := do
  let a ← asArr? j
  a.toList.mapM fun e => do
    match ← asNatList? e with
    | [o, a, p, t] => pure { key := (o, a), pos := p, tgt := t }
    | _ => none

def keysOf (seq : List KRef) : List Key :=
  seq.foldl (fun ks r => if r.key ∈ ks then ks else ks ++ [r.key]) []

def showRun (seq : List KRef) (st : State) : Json :=
  toJson ((keysOf seq).map fun k => Json.arr #[toJson k.1, toJson k.2, toJson (st.values k)])

structure SRef where
  k : KRef
  wait : Nat
  file : Nat
  /-- index (within the file, textual order) of the reference whose attribute the provider walks over -/
  dep : Option Nat := none

def parseSRefs (file : Nat) (j : Json) : Option (List SRef) := do
  let a ← asArr? j
  a.toList.mapM fun e => do
    match ← asNatList? e with
    | [o, a, p, t, w] => pure { k := { key := (o, a), pos := p, tgt := t }, wait := w, file := file }
    | [o, a, p, t, w, 0] => pure { k := { key := (o, a), pos := p, tgt := t }, wait := w, file := file }
    | [o, a, p, t, w, d+1] => pure { k := { key := (o, a), pos := p, tgt := t }, wait := w, file := file, dep := some d }
    | _ => none

def parseLoad (j : Json) : Option (List (List SRef)) := do
  let a ← asArr? j
  a.toList.zipIdx.mapM fun (f, i) => parseSRefs i f

def runLoad (files : List (List SRef)) : Json :=
  let tab : Array SRef := files.flatten.toArray
  let refs := List.range tab.size
  let wait (r : Nat) : Nat := match tab[r]? with | some s => s.wait | none => 0
  -- first reference of every file in the flattened table: a dependency is an index within its file
  let starts : Array Nat := (files.foldl (fun (acc : Array Nat × Nat) f => (acc.1.push acc.2, acc.2 + f.length)) (#[], 0)).1
  let dep (r : Nat) : List Nat := match tab[r]? with
    | some s => (match s.dep with | some d => [starts[s.file]?.getD 0 + d] | none => [])
    | none => []
  let (p, res) := Resolve.loopO (Resolve.depOracle wait dep) (refs.length + 1) [] refs []
  let seq := res.reverse
  let perFile := (List.range files.length).map fun fi =>
    let fseq := seq.filterMap fun r => match tab[r]? with
      | some s => if s.file = fi then some s.k else none
      | none => none
    Json.mkObj [("seq", toJson (fseq.map fun k => [k.key.1, k.key.2, k.pos])), ("lists", showRun fseq (run fseq))]
  Json.mkObj [("pending", toJson p.length), ("files", toJson perFile)]

def handle (j : Json) : Json :=
  match getStr? j "op" with
  | some "history" =>
    match (getArr? j "runs").bind (fun a => a.toList.mapM parseKRefs) with
    | some runs =>
      let ans := ("runs", toJson ((runs.zip (history runs)).map fun (seq, st) => showRun seq st))
      -- optional: the same loads as schedules (see op "schedule"), answered in the same line
      match (j.getObjVal? "loads").toOption with
      | none => Json.mkObj [ans]
      | some v =>
        match (asArr? v).bind (fun a => a.toList.mapM parseLoad) with
        | some loads => Json.mkObj [ans, ("loads", toJson (loads.map runLoad))]
        | none => badOp
    | none => badOp
  | some "schedule" =>
    match (getArr? j "loads").bind (fun a => a.toList.mapM parseLoad) with
    | some loads => Json.mkObj [("loads", toJson (loads.map runLoad))]
    | none => badOp
  | _ => badOp

def main : IO Unit := serve handle
