import TextxVerif.Wire
import TextxVerif.Rrel
import TextxVerif.RrelProvider
import TextxVerif.RrelCore
/-! Driver for the RREL evaluation model (C11).
op:
  {"op":"find","parent":[p|null…],"name":[s|null…],"conf":[[T…]…],
   "attrs":[[[attr,[tgt…]]…]…],"unres":[[obj,attr]…],"extra":[…],
   "top":[PATH…],"o":n,"ns":[s…] | "text":s,"sep":s,"cls":s|null,"fuel":n}
     → {"res":"found","obj":n,"path":[…],"proxy":[…]} | {"res":"none"} | {"res":"postponed"} | {"err":"fuel"}
  PATH = {"k":"cat","es":[ELEM…]}
  ELEM = {"k":"nav","i","name","mode":"c"|"t"|"f","fixed"} | {"k":"parent","i","type"} | {"k":"dots","i","n"}
       | {"k":"br","i","e":SEQ} | {"k":"star","i","e":SEQ}
  SEQ  = {"k":"seq","i","alts":[PATH…]}
     optional "surface":EXPR — the object tree in the wire form of Drivers/RrelSyntax.lean
       (EXPR = {"flags":[cp…],"seq":[[ELEM…]…]}, ELEM = ["parent",[cp…]] | ["nav",[cp…],bool,[cp…]|null]
       | ["br",SEQ] | ["star",SEQ] | ["dots",n]); the answer then carries
       "core_ok": `RrelSyntax.toCore surface = some top` (same alternatives, same node identities),
       "flags_ok": importURI / use_proxy of the surface flags equal the fields "m" / "p" of the request
  {"op":"split","text":s,"sep":s} → {"parts":[…]}
  {"op":"session","fuel":n,
   "providers":[{"top":[PATH…],"split":s|null,"p":bool,("surface":EXPR)}…],   -- provider objects
   "heaps":[{"parent","name","conf","attrs","unres","extra"}…],     -- the models loaded one after the other
   "calls":[{"prov":i,"h":j,"o":n,"text":s,"rule_split":s|null,"cls":s|null}…]}   -- the references, in order
     → {"results":[{"res":"found","obj","path","proxy","sep"} | {"res":"none","sep"} | {"res":"postponed","sep"}…]}
       | {"err":"fuel"}
     (each provider object is threaded through its calls: `Provider.call` returns the object after the call;
      with "surface" fields the answer carries "core_ok": all of them have `toCore surface = some top`)
-/
open Lean Wire Rrel

def foldNe (f : E → E → E) : List E → Option E
  | [] => none
  | [x] => some x
  | x :: xs => (foldNe f xs).map (f x)

mutual
partial def parsePath (j : Json) : Option E := do
  guard (getStr? j "k" == some "cat")
  let es ← (← getArr? j "es").toList.mapM parseElem
  foldNe E.cat es

partial def parseSeq (j : Json) : Option E := do
  guard (getStr? j "k" == some "seq")
  let i ← getNat? j "i"
  let ps ← (← getArr? j "alts").toList.mapM parsePath
  let body ← foldNe E.alt ps
  pure (E.grp i body)

partial def parseElem (j : Json) : Option E := do
  let i ← getNat? j "i"
  match ← getStr? j "k" with
  | "nav" =>
    let name ← getStr? j "name"
    match ← getStr? j "mode" with
    | "c" => pure (E.atom i (.nav name .consume))
    | "t" => pure (E.atom i (.nav name .tilde))
    | "f" => pure (E.atom i (.nav name (.fixed (← getStr? j "fixed"))))
    | _ => none
  | "parent" => pure (E.atom i (.parent (← getStr? j "type")))
  | "dots" => pure (E.atom i (.dots (← getNat? j "n")))
  | "br" => pure (E.grp i (← parseSeq (← getObj? j "e")))
  | "star" => pure (E.star i (← parseSeq (← getObj? j "e")))
  | _ => none
end

/-! the object tree (wire form of Drivers/RrelSyntax.lean) -/
def toStr (xs : List Nat) : RrelSyntax.Str := xs.map Char.ofNat

mutual
partial def decElem (j : Json) : Option RrelSyntax.Elem := do
  let xs ← asArr? j
  let tag ← asStr? (← xs[0]?)
  match tag with
  | "parent" => pure (.parent (toStr (← asNatList? (← xs[1]?))))
  | "nav" =>
    let n ← asNatList? (← xs[1]?)
    let c ← asBool? (← xs[2]?)
    let fj ← xs[3]?
    let f ← if fj.isNull then pure none else (asNatList? fj).map fun l => some (toStr l)
    pure (.nav (toStr n) c f)
  | "br" => pure (.brackets (← decSeq (← xs[1]?)))
  | "star" => pure (.star (← decSeq (← xs[1]?)))
  | "dots" => pure (.dots (← asNat? (← xs[1]?)))
  | _ => none
partial def decSeq (j : Json) : Option RrelSyntax.Seq := do
  (← asArr? j).toList.mapM fun p => do (← asArr? p).toList.mapM decElem
end

def decExpr (j : Json) : Option RrelSyntax.Expr := do
  let fl ← getNatList? j "flags"
  let s ← decSeq (← getObj? j "seq")
  pure ⟨s, toStr fl⟩

/-- `some none`: no "surface" field; `none`: undecodable -/
def surfaceOf (j : Json) : Option (Option RrelSyntax.Expr) :=
  match getObj? j "surface" with
  | none => some none
  | some sj => (decExpr sj).map some

def coreOk (top : List E) : Option RrelSyntax.Expr → Bool
  | none => true
  | some e => RrelSyntax.toCore e == some top

def optNat (j : Json) : Option (Option Nat) :=
  if j.isNull then some none else (asNat? j).map some

def optStr (j : Json) : Option (Option String) :=
  if j.isNull then some none else (asStr? j).map some

def parseAttrs (j : Json) : Option (List (String × List Nat)) := do
  (← asArr? j).toList.mapM fun e => do
    let xs ← asArr? e
    pure (← asStr? (← xs[0]?), ← asNatList? (← xs[1]?))

def parseUnres (a : Array Json) : Option (List (Nat × String)) :=
  a.toList.mapM fun e => do
    let xs ← asArr? e
    pure (← asNat? (← xs[0]?), ← asStr? (← xs[1]?))

def mkHeap (par : Array (Option Nat)) (nm : Array (Option String)) (cf : Array (List String))
    (ats : Array (List (String × List Nat))) (un : List (Nat × String)) (extra : List Nat) : Heap where
  parent o := (par[o]?).join
  name o := (nm[o]?).join
  conf o T := match cf[o]? with | some l => l.contains T | none => false
  attr o a :=
    if un.contains (o, a) then none
    else match ats[o]? with
      | none => some []
      | some l => match l.find? (·.1 == a) with
        | some (_, ts) => some ts
        | none => some []
  extra := extra
  depth := par.size

def parseHeap (j : Json) : Option Heap := do
  let par ← (← getArr? j "parent").mapM optNat
  let nm ← (← getArr? j "name").mapM optStr
  let cf ← (← getArr? j "conf").mapM (fun x => (fromJson? x : Except String (List String)).toOption)
  let ats ← (← getArr? j "attrs").mapM parseAttrs
  let un ← parseUnres (← getArr? j "unres")
  let extra ← getNatList? j "extra"
  guard (par.size == nm.size && nm.size == cf.size && cf.size == ats.size)
  pure (mkHeap par nm cf ats un extra)

def resJson (extra : List (String × Json)) : Res → Option Json
  | .found s =>
    let base : List (String × Json) := [("res", "found"), ("obj", toJson s.o), ("path", toJson s.path),
      ("proxy", toJson (proxyPath s))]
    some (Json.mkObj (base ++ extra))
  | .postponed => some (Json.mkObj ((("res", "postponed") : String × Json) :: extra))
  | .cont _ => some (Json.mkObj ((("res", "none") : String × Json) :: extra))
  | .fuel => none

def parseProvider (j : Json) : Option (Provider × Bool) := do
  let top ← (← getArr? j "top").toList.mapM parsePath
  let split ← optStr (← getObj? j "split")
  guard (split != some "")
  let p ← getBool? j "p"
  let sf ← surfaceOf j
  let ok := coreOk top sf && (match sf with | none => true | some e => e.useProxy == p)
  pure (⟨top, split, p⟩, ok)

/-- the references of a session in order; every provider object is replaced by what its call returns -/
def runSession (fuel : Nat) (heaps : Array Heap) :
    Array Provider → List (Nat × Nat × Call) → Option (List (Res × String))
  | _, [] => some []
  | ps, (pi, hi, c) :: rest => do
    let p ← ps[pi]?
    let H ← heaps[hi]?
    guard (c.o < H.depth)
    let (r, p') := p.call H fuel c
    let tail ← runSession fuel heaps (ps.set! pi p') rest
    pure ((r, p.delim c) :: tail)

def parseCall (j : Json) : Option (Nat × Nat × Call) := do
  let rs ← optStr (← getObj? j "rule_split")
  guard (rs != some "")
  pure (← getNat? j "prov", ← getNat? j "h",
    ⟨← getNat? j "o", ← getStr? j "text", rs, ← optStr (← getObj? j "cls")⟩)

def handle (j : Json) : Json :=
  match getStr? j "op" with
  | some "find" =>
    let r : Option Json := do
      let H ← parseHeap j
      let top ← (← getArr? j "top").toList.mapM parsePath
      let o ← getNat? j "o"
      let ns ← match getStrList? j "ns" with
        | some ns => some ns
        | none => do
          let t ← getStr? j "text"
          let sep ← getStr? j "sep"
          guard (!sep.isEmpty)
          pure (splitName t sep)
      let cls ← optStr (← getObj? j "cls")
      let fuel ← getNat? j "fuel"
      guard (o < H.depth)
      let sf ← surfaceOf j
      let extra : List (String × Json) := match sf with
        | none => []
        | some e => [("core_ok", toJson (coreOk top (some e))),
            ("flags_ok", toJson (getBool? j "m" == some e.importURI && getBool? j "p" == some e.useProxy))]
      pure <| (resJson extra (find H fuel top o ns cls)).getD fuelOut
    r.getD badOp
  | some "session" =>
    let r : Option Json := do
      let fuel ← getNat? j "fuel"
      let pso ← (← getArr? j "providers").mapM parseProvider
      let ps := pso.map (·.1)
      let hs ← (← getArr? j "heaps").mapM parseHeap
      let cs ← (← getArr? j "calls").toList.mapM parseCall
      let rs ← runSession fuel hs ps cs
      pure <| match rs.mapM (fun (r, sep) => resJson [("sep", toJson sep)] r) with
        | some l => Json.mkObj [("results", Json.arr l.toArray), ("core_ok", toJson (pso.all (·.2)))]
        | none => fuelOut
    r.getD badOp
  | some "split" =>
    match getStr? j "text", getStr? j "sep" with
    | some t, some s => if s.isEmpty then badOp else Json.mkObj [("parts", toJson (splitName t s))]
    | _, _ => badOp
  | _ => badOp

def main : IO Unit := serve handle
