import TextxVerif.Wire
import TextxVerif.Rrel
/-! Driver for the RREL evaluation model (C11).
op:
  {"op":"find","parent":[p|null…],"name":[s|null…],"conf":[[T…]…],
   "attrs":[[[attr,[tgt…]]…]…],"unres":[[obj,attr]…],"extra":[…],
   "top":[PATH…],"o":n,"ns":[s…] | "text":s,"sep":s,"cls":s|null,"fuel":n}
     → {"res":"found","obj":n,"path":[…],"proxy":[…]} | {"res":"none"} | {"res":"postponed"} | {"err":"fuel"}
  PATH = {"k":"cat","es":[ELEM…]}
  ELEM = {"k":"nav","i","name","mode":"c"|"t"|"f","fixed"} | {"k":"parent","i","type"} | {"k":"dots","i","n"}
       | {"k":"br","i","e":SEQ} | {"k":"star","i","e":SEQ}
  SEQ  = {"k":"seq","i","alts":[PATH…]}
  {"op":"split","text":s,"sep":s} → {"parts":[…]}
-/
open Lean Wire Rrel

def foldNe (f : E → E → E) : List E → Option E
  | [] => none
  | [x] => some x
  | x :: xs => (foldNe f xs).map (f x)

mutual
partial def parsePath (j : Json) : Option E := do
  guard (getStr? j "k" == some "cat")
  let es ← (← getArr? j "es").toList.mapM parseElem
  foldNe E.cat es

partial def parseSeq (j : Json) : Option E := do
  guard (getStr? j "k" == some "seq")
  let i ← getNat? j "i"
  let ps ← (← getArr? j "alts").toList.mapM parsePath
  let body ← foldNe E.alt ps
  pure (E.grp i body)

partial def parseElem (j : Json) : Option E := do
  let i ← getNat? j "i"
  match ← getStr? j "k" with
  | "nav" =>
    let name ← getStr? j "name"
    match ← getStr? j "mode" with
    | "c" => pure (E.atom i (.nav name .consume))
    | "t" => pure (E.atom i (.nav name .tilde))
    | "f" => pure (E.atom i (.nav name (.fixed (← getStr? j "fixed"))))
    | _ => none
  | "parent" => pure (E.atom i (.parent (← getStr? j "type")))
  | "dots" => pure (E.atom i (.dots (← getNat? j "n")))
  | "br" => pure (E.grp i (← parseSeq (← getObj? j "e")))
  | "star" => pure (E.star i (← parseSeq (← getObj? j "e")))
  | _ => none
end

def optNat (j : Json) : Option (Option Nat) :=
  if j.isNull then some none else (asNat? j).map some

def optStr (j : Json) : Option (Option String) :=
  if j.isNull then some none else (asStr? j).map some

def parseAttrs (j : Json) : Option (List (String × List Nat)) := do
  (← asArr? j).toList.mapM fun e => do
    let xs ← asArr? e
    pure (← asStr? (← xs[0]?), ← asNatList? (← xs[1]?))

def parseUnres (a : Array Json) : Option (List (Nat × String)) :=
  a.toList.mapM fun e => do
    let xs ← asArr? e
    pure (← asNat? (← xs[0]?), ← asStr? (← xs[1]?))

def mkHeap (par : Array (Option Nat)) (nm : Array (Option String)) (cf : Array (List String))
    (ats : Array (List (String × List Nat))) (un : List (Nat × String)) (extra : List Nat) : Heap where
  parent o := (par[o]?).join
  name o := (nm[o]?).join
  conf o T := match cf[o]? with | some l => l.contains T | none => false
  attr o a :=
    if un.contains (o, a) then none
    else match ats[o]? with
      | none => some []
      | some l => match l.find? (·.1 == a) with
        | some (_, ts) => some ts
        | none => some []
  extra := extra
  depth := par.size

def handle (j : Json) : Json :=
  match getStr? j "op" with
  | some "find" =>
    let r : Option Json := do
      let par ← (← getArr? j "parent").mapM optNat
      let nm ← (← getArr? j "name").mapM optStr
      let cf ← (← getArr? j "conf").mapM (fun x => (fromJson? x : Except String (List String)).toOption)
      let ats ← (← getArr? j "attrs").mapM parseAttrs
      let un ← parseUnres (← getArr? j "unres")
      let extra ← getNatList? j "extra"
      let top ← (← getArr? j "top").toList.mapM parsePath
      let o ← getNat? j "o"
      let ns ← match getStrList? j "ns" with
        | some ns => some ns
        | none => do
          let t ← getStr? j "text"
          let sep ← getStr? j "sep"
          guard (!sep.isEmpty)
          pure (splitName t sep)
      let cls ← optStr (← getObj? j "cls")
      let fuel ← getNat? j "fuel"
      guard (par.size == nm.size && nm.size == cf.size && cf.size == ats.size && o < par.size)
      let H := mkHeap par nm cf ats un extra
      pure <| match find H fuel top o ns cls with
        | .found s => Json.mkObj [("res", "found"), ("obj", toJson s.o), ("path", toJson s.path),
                                  ("proxy", toJson (proxyPath s))]
        | .postponed => Json.mkObj [("res", "postponed")]
        | .cont _ => Json.mkObj [("res", "none")]
        | .fuel => fuelOut
    r.getD badOp
  | some "split" =>
    match getStr? j "text", getStr? j "sep" with
    | some t, some s => if s.isEmpty then badOp else Json.mkObj [("parts", toJson (splitName t s))]
    | _, _ => badOp
  | _ => badOp

def main : IO Unit := serve handle
