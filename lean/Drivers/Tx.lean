import TextxVerif.Tx.Json
import TextxVerif.Tx.Sem
import TextxVerif.Tx.Quirk
import TextxVerif.Tx.Doc
import TextxVerif.Peg.GapExt
import TextxVerif.Tx.GapCompat
/-! Driver for the textX mirror.
{"op":"compile","gram":G} → {"ok":{nodes,top,comments,classes,multSensitive}} | {"error":cls,…}
{"op":"case","gram":G,"cfg":C,"texts":[{"input":s,"toks":[[len|-1]],"groups":[n],"g1":[[null|[start,len]]],"fuel":n}]}
  → {"compiled":<as compile>, "loads":[Outcome]}      (loads only when the grammar compiles)
  a text may carry "gap":{"p":n,"ins":s,"toks":rows',"g1":g1'} (C22: one gap extension of the text); its answer then has
  "gap":{"input":extended text,"mirror":Outcome on it,"ok":gapExtOkB,"g1ok":use_regexp_group off or g1CompatB,
         "same":both Outcomes are equal}   (C22_model_unchanged: ok ∧ g1ok → same)
Outcome: {"ok":V,"c03":b} | {"err":"syntax"|"semantic:Multiple assignments"|"semantic:None"|"fuel"} | {"bad":what}
V: {"p":"none"} | {"p":"bool","v":b} | {"p":"int","v":i} | {"p":"str","v":s} | {"p":"float","src":s}
 | {"cls":c,"id":n,"parent":n|null,"attrs":[[name,V]]} | [V]
-/
open Lean Wire Tx

def parseRow (j : Json) : Option (Array (Option Nat)) := do
  let a ← asArr? j
  a.mapM fun e => match (fromJson? e : Except String Int) with
    | .ok i => some (if i < 0 then none else some i.toNat)
    | .error _ => none

def parseSpanRow (j : Json) : Option (Array (Option (Nat × Nat))) := do
  let a ← asArr? j
  a.mapM fun e => match e with
    | Json.null => some none
    | e => match asNatList? e with
      | some [s, l] => some (some (s, l))
      | _ => none

/-- objects are written as {"cls","parent":b,"attrs"}: `parent` = "the parent link is the container"
(root: "there is no parent link"); `cont` = creation number of the containing object -/
partial def valueToJsonC (sem : Bool) (cont : Option Nat) : Value → Json
  | .obj id cls parent attrs =>
    Json.mkObj [("cls", cls), ("parent", if sem then true else decide (parent = cont)),
      ("attrs", Json.arr ((attrs.filter fun p => !p.1.startsWith "\x00").map fun (n, v) =>
        Json.arr #[Json.str n, valueToJsonC sem (some id) v]).toArray)]
  | .list vs => Json.arr (vs.map (valueToJsonC sem cont)).toArray
  | .prim .none => Json.mkObj [("p", "none")]
  | .prim (.bool b) => Json.mkObj [("p", "bool"), ("v", b)]
  | .prim (.int i) => Json.mkObj [("p", "int"), ("v", toJson i)]
  | .prim (.str s) => Json.mkObj [("p", "str"), ("v", s)]
  | .prim (.float s) => Json.mkObj [("p", "float"), ("src", s)]

partial def valueToJson : Value → Json
  | .prim .none => Json.mkObj [("p", "none")]
  | .prim (.bool b) => Json.mkObj [("p", "bool"), ("v", b)]
  | .prim (.int i) => Json.mkObj [("p", "int"), ("v", toJson i)]
  | .prim (.str s) => Json.mkObj [("p", "str"), ("v", s)]
  | .prim (.float s) => Json.mkObj [("p", "float"), ("src", s)]
  | .obj id cls parent attrs =>
    Json.mkObj [("cls", cls), ("id", toJson id), ("parent", optJson (fun (i : Nat) => toJson i) parent),
      ("attrs", Json.arr (attrs.map fun (n, v) => Json.arr #[Json.str n, valueToJson v]).toArray)]
  | .list vs => Json.arr (vs.map valueToJson).toArray

def outcomeToJson : Tx.Outcome → Json
  | .model v c03 => Json.mkObj [("ok", valueToJsonC false none v), ("c03", c03)]
  | .syntaxError => Json.mkObj [("err", "syntax")]
  | .semanticError .multAssign => Json.mkObj [("err", "semantic:Multiple assignments")]
  | .semanticError _ => Json.mkObj [("err", "semantic:None")]
  | .indexError => Json.mkObj [("other", "IndexError")]
  | .fuel => fuelOut
  | .bad w => Json.mkObj [("bad", w)]

def compileJson (g : Gram) : Json :=
  match compile g with
  | .ok c => Json.mkObj [("ok", compiledToJson c)]
  | .error e => errToJson e

def semToJson : Sem.Outcome → Json
  | .model v => Json.mkObj [("ok", valueToJsonC true none v)]
  | .syntaxError => Json.mkObj [("err", "syntax")]
  | .unhashableName => Json.mkObj [("err", "semantic:None")]
  | .fuel => fuelOut
  | .skip w => Json.mkObj [("skip", w)]

def loadText (g : Gram) (c : Compiled) (cfg : Config) (j : Json) : Option Json := do
  let input ← getStr? j "input"
  let toks ← (← getArr? j "toks").mapM parseRow
  let groups ← (← getArr? j "groups").mapM asNat?
  let g1 ← (← getArr? j "g1").mapM parseSpanRow
  let fuel ← getNat? j "fuel"
  let inp := input.toList.toArray
  let mirror := load c cfg inp toks groups g1 fuel
  let sem := Sem.eval (Sem.mkEnv g cfg inp toks groups g1) fuel
  let mj := outcomeToJson mirror
  let sj := semToJson sem
  let core (j : Json) : String := (j.setObjVal! "c03" Json.null).compress
  let decided : Bool := match sem with | .skip _ | .fuel => false | _ => true
  let fixes : List (String × Json) :=
    if decided && core mj != core sj then
      let run (fx : Quirk.Fix) : Json := outcomeToJson (Quirk.loadQ fx c cfg inp toks groups g1 fuel)
      [("alt", run { alt := true }), ("empty", run { empty := true }), ("rep", run { rep := true }), ("sep", run { sep := true }),
       ("cache", run { cache := true }), ("ws", run { ws := true }),
       ("all", run { alt := true, empty := true, rep := true, sep := true, cache := true, ws := true })]
    else []
  let gap : List (String × Json) ← match j.getObjVal? "gap" with
    | .error _ => pure []
    | .ok gj => do
      let p ← getNat? gj "p"
      let ins := (← getStr? gj "ins").toList
      let toks' ← (← getArr? gj "toks").mapM parseRow
      let g1' ← (← getArr? gj "g1").mapM parseSpanRow
      let inp' := Peg.extendGap inp p ins
      let ext := load c cfg inp' toks' groups g1' fuel
      let ej := outcomeToJson ext
      let ok := Peg.gapExtOkB (c.grammar inp toks) p ins toks' cfg.skipws cfg.ws
      let g1ok := !cfg.useRegexpGroup || Tx.g1CompatB g1 g1' inp.size p ins.length
      pure [("gap", Json.mkObj [("input", String.ofList inp'.toList), ("mirror", ej), ("ok", ok), ("g1ok", g1ok),
        ("same", ej.compress == mj.compress)])]
  pure (Json.mkObj ([("mirror", mj), ("sem", sj)] ++ (if fixes.isEmpty then [] else [("fixes", Json.mkObj fixes)]) ++ gap))

def handle1 (j : Json) : Json :=
  match getStr? j "op" with
  | some "compile" =>
    match (getObj? j "gram").bind parseGram with
    | none => badOp
    | some g => compileJson g
  | some "case" =>
    let r : Option Json := do
      let g ← (getObj? j "gram").bind parseGram
      let cfg ← (getObj? j "cfg").bind parseConfig
      let texts ← getArr? j "texts"
      let nullable := (getNatList? j "nullable").getD []
      let doc := docFragment (fun t => nullable.contains t) g
      match compile g with
      | .error e => pure (Json.mkObj [("compiled", errToJson e)])
      | .ok c =>
        let loads ← texts.mapM (loadText g c cfg)
        pure (Json.mkObj [("compiled", Json.mkObj [("ok", compiledToJson c)]), ("loads", Json.arr loads), ("doc", doc)])
    r.getD badOp
  | _ => badOp

def main : IO Unit := serve handle1
