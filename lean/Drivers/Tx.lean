import TextxVerif.Tx.Json
import TextxVerif.Tx.Build
/-! Driver for the textX mirror.
{"op":"compile","gram":G} → {"ok":{nodes,top,comments,classes,multSensitive}} | {"error":cls,…}
{"op":"case","gram":G,"cfg":C,"texts":[{"input":s,"toks":[[len|-1]],"groups":[n],"g1":[[null|[start,len]]],"fuel":n}]}
  → {"compiled":<as compile>, "loads":[Outcome]}      (loads only when the grammar compiles)
Outcome: {"ok":V,"c03":b} | {"err":"syntax"|"semantic:Multiple assignments"|"semantic:None"|"fuel"} | {"bad":what}
V: {"p":"none"} | {"p":"bool","v":b} | {"p":"int","v":i} | {"p":"str","v":s} | {"p":"float","src":s}
 | {"cls":c,"id":n,"parent":n|null,"attrs":[[name,V]]} | [V]
-/
open Lean Wire Tx

def parseRow (j : Json) : Option (Array (Option Nat)) := do
  let a ← asArr? j
  a.mapM fun e => match (fromJson? e : Except String Int) with
    | .ok i => some (if i < 0 then none else some i.toNat)
    | .error _ => none

def parseSpanRow (j : Json) : Option (Array (Option (Nat × Nat))) := do
  let a ← asArr? j
  a.mapM fun e => match e with
    | Json.null => some none
    | e => match asNatList? e with
      | some [s, l] => some (some (s, l))
      | _ => none

partial def valueToJson : Value → Json
  | .prim .none => Json.mkObj [("p", "none")]
  | .prim (.bool b) => Json.mkObj [("p", "bool"), ("v", b)]
  | .prim (.int i) => Json.mkObj [("p", "int"), ("v", toJson i)]
  | .prim (.str s) => Json.mkObj [("p", "str"), ("v", s)]
  | .prim (.float s) => Json.mkObj [("p", "float"), ("src", s)]
  | .obj id cls parent attrs =>
    Json.mkObj [("cls", cls), ("id", toJson id), ("parent", optJson (fun (i : Nat) => toJson i) parent),
      ("attrs", Json.arr (attrs.map fun (n, v) => Json.arr #[Json.str n, valueToJson v]).toArray)]
  | .list vs => Json.arr (vs.map valueToJson).toArray

def outcomeToJson : Tx.Outcome → Json
  | .model v c03 => Json.mkObj [("ok", valueToJson v), ("c03", c03)]
  | .syntaxError => Json.mkObj [("err", "syntax")]
  | .semanticError .multAssign => Json.mkObj [("err", "semantic:Multiple assignments")]
  | .semanticError _ => Json.mkObj [("err", "semantic:None")]
  | .indexError => Json.mkObj [("other", "IndexError")]
  | .fuel => fuelOut
  | .bad w => Json.mkObj [("bad", w)]

def compileJson (g : Gram) : Json :=
  match compile g with
  | .ok c => Json.mkObj [("ok", compiledToJson c)]
  | .error e => errToJson e

def loadText (c : Compiled) (cfg : Config) (j : Json) : Option Json := do
  let input ← getStr? j "input"
  let toks ← (← getArr? j "toks").mapM parseRow
  let groups ← (← getArr? j "groups").mapM asNat?
  let g1 ← (← getArr? j "g1").mapM parseSpanRow
  let fuel ← getNat? j "fuel"
  pure (outcomeToJson (load c cfg input.toList.toArray toks groups g1 fuel))

def handle1 (j : Json) : Json :=
  match getStr? j "op" with
  | some "compile" =>
    match (getObj? j "gram").bind parseGram with
    | none => badOp
    | some g => compileJson g
  | some "case" =>
    let r : Option Json := do
      let g ← (getObj? j "gram").bind parseGram
      let cfg ← (getObj? j "cfg").bind parseConfig
      let texts ← getArr? j "texts"
      match compile g with
      | .error e => pure (Json.mkObj [("compiled", errToJson e)])
      | .ok c =>
        let loads ← texts.mapM (loadText c cfg)
        pure (Json.mkObj [("compiled", Json.mkObj [("ok", compiledToJson c)]), ("loads", Json.arr loads)])
    r.getD badOp
  | _ => badOp

def main : IO Unit := serve handle1
