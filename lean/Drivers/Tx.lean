import TextxVerif.Tx.Json
/-! Driver for the textX mirror (`Tx.compile`, later `Tx.build`, `Tx.Sem`).
{"op":"compile","gram":{"rules":[…]}} → {"ok":{nodes,top,comments,classes,multSensitive}} | {"error":cls,…}
-/
open Lean Wire Tx

def handle1 (j : Json) : Json :=
  match getStr? j "op" with
  | some "compile" =>
    match (getObj? j "gram").bind parseGram with
    | none => badOp
    | some g =>
      match compile g with
      | .ok c => Json.mkObj [("ok", compiledToJson c)]
      | .error e => errToJson e
  | _ => badOp

def main : IO Unit := serve handle1
