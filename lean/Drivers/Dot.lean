import TextxVerif.Wire
import TextxVerif.Export
import TextxVerif.ExportCall
/-! Driver for the export models (C29).
ops:
  {"op":"escape","s":str}                  → {"esc":str,"repr":str,"html":str}
  {"op":"recognise","text":str}            → {"evs":[…]|null,"records":bool}   (DOT recogniser on any text)
  {"op":"model","objs":[Obj],"roots":[Root],"text":str}
                                            → {"text":str|null} + recognise(text given)
  {"op":"mm","classes":[Cls],"base":[str],"renderer":"dot"|"puml","linetype":str|null,"text":str}
                                            → {"text":str|null,"domain":bool,"nodup_domain":bool (dot)} + recognise / puml(text given)
  {"op":"export","objs":[Obj],"args":{"model":id|null,"repo":null|[MRef],"own":null|[MRef]},"text":str|null}
                                            → {"raises":bool,"roots":[Root]|null,"text":str|null,"domain":bool} + recognise(text given)
                                              (the whole call `model_export_to_file(f, model, repo)`: argument check, choice of the
                                               exported models, export)
MRef = {"fname":str,"kids":[id…],"id":id}
Obj  = {"id":n,"cls":str,"attrs":null|[{"name":str,"cont":bool,"req":bool,"val":Val}]}
Val  = null | {"p":ty,"v":str} | {"o":id} | [Item]      Item = null | {"p":ty,"v":str} | {"o":id}
Root = ["plain",id] | ["sub",fname,[id…],id]
Cls  = {"id","name","fqn","typ","attrs":[{"name","cls","cls_name","cls_fqn","mult","cont","ref"}],"inh_by":[id…],"match_str"}
-/
open Lean Wire Dot

def S (s : Str) : Json := Json.str (String.ofList s)

def tokJ : Tok → Json
  | .id s => S (cl!"i:" ++ s)
  | .num s => S (cl!"n:" ++ s)
  | .qstr s => S (cl!"q:" ++ s)
  | .html s => S (cl!"h:" ++ s)
  | _ => Json.null

def attrsJ (as : List (Tok × Tok)) : Json := Json.arr (as.map fun (k, v) => Json.arr #[tokJ k, tokJ v]).toArray

def evJ : Ev → Json
  | .node i as => Json.arr #["node", tokJ i, attrsJ as]
  | .edge a b as => Json.arr #["edge", tokJ a, tokJ b, attrsJ as]
  | .dflt k as => Json.arr #["default", S k, attrsJ as]
  | .assign k v => Json.arr #["assign", tokJ k, tokJ v]
  | .sub (some n) => Json.arr #["sub", tokJ n]
  | .sub none => Json.arr #["sub", Json.null]
  | .close => Json.arr #["close"]

/-- record check of every `label` of a node statement (all nodes have `shape=record`) -/
def recordsOk (evs : List Ev) : Bool :=
  evs.all fun
    | .node _ as => as.all fun (k, v) =>
        if k = (Tok.id cl!"label") then (match v with | .qstr s => recOk s | _ => true) else true
    | _ => true

def recJ (text : Str) : List (String × Json) :=
  match recognise text with
  | none => [("evs", Json.null), ("records", false)]
  | some evs => [("evs", Json.arr (evs.map evJ).toArray), ("records", recordsOk evs)]

def parsePrim (j : Json) : Option Prim := do
  let p ← getStr? j "p"
  let v ← getStr? j "v"
  if p = "str" then pure (.str v.toList) else pure (.lit p.toList v.toList)

def parseItem (j : Json) : Option Item :=
  if j.isNull then some .none
  else match getNat? j "o" with
    | some i => some (.obj i)
    | none => (parsePrim j).map .prim

def parseVal (j : Json) : Option Val :=
  if j.isNull then some .none
  else match asArr? j with
    | some xs => (xs.toList.mapM parseItem).map .many
    | none =>
      match getNat? j "o" with
      | some i => some (.ref i)
      | none => (parsePrim j).map .one

def parseAttrV (j : Json) : Option AttrV := do
  let name ← getStr? j "name"
  let cont ← getBool? j "cont"
  let req ← getBool? j "req"
  let val ← parseVal (← getObj? j "val")
  pure { name := name.toList, cont, req, val }

def parseObj (j : Json) : Option Obj := do
  let id ← getNat? j "id"
  let cls ← getStr? j "cls"
  let a ← getObj? j "attrs"
  let attrs ← if a.isNull then pure none else do
    let xs ← asArr? a
    let as ← xs.toList.mapM parseAttrV
    pure (some as)
  pure { id, cls := cls.toList, attrs }

def parseRoot (j : Json) : Option Root := do
  let xs ← asArr? j
  match (← asStr? (← xs[0]?)) with
  | "plain" => pure (.plain (← asNat? (← xs[1]?)))
  | "sub" =>
    let f ← asStr? (← xs[1]?)
    let ks ← asNatList? (← xs[2]?)
    let i ← asNat? (← xs[3]?)
    pure (.sub f.toList ks i)
  | _ => none

def parseMRef (j : Json) : Option MRef := do
  pure { fname := (← getStr? j "fname").toList, kids := ← getNatList? j "kids", id := ← getNat? j "id" }

/-- `null` → `none`, an array → the models -/
def parseRepo (j : Json) : Option (Option (List MRef)) :=
  if j.isNull then some none
  else match asArr? j with
    | some xs => (xs.toList.mapM parseMRef).map some
    | none => none

def parseArgs (j : Json) : Option Args := do
  let m ← getObj? j "model"
  let model ← if m.isNull then pure none else (asNat? m).map some
  let repo ← parseRepo (← getObj? j "repo")
  let own ← parseRepo (← getObj? j "own")
  pure { model, repo, own }

def rootJ : Root → Json
  | .plain i => Json.arr #["plain", toJson i]
  | .sub f ks i => Json.arr #["sub", S f, toJson ks, toJson i]

def parseTyp : String → Option Typ
  | "common" => some .common
  | "abstract" => some .abstract
  | "match" => some .match
  | _ => none

def parseMAttr (j : Json) : Option MAttr := do
  pure { name := (← getStr? j "name").toList, clsId := ← getNat? j "cls",
         clsName := (← getStr? j "cls_name").toList, clsFqn := (← getStr? j "cls_fqn").toList,
         mult := (← getStr? j "mult").toList, cont := ← getBool? j "cont", ref := ← getBool? j "ref" }

def parseMCls (j : Json) : Option MCls := do
  let as ← (← getArr? j "attrs").toList.mapM parseMAttr
  pure { id := ← getNat? j "id", name := (← getStr? j "name").toList, fqn := (← getStr? j "fqn").toList,
         typ := ← parseTyp (← getStr? j "typ"), attrs := as, inhBy := ← getNatList? j "inh_by",
         matchStr := (← getStr? j "match_str").toList }

def optS : Option Str → Json
  | some s => S s
  | none => Json.null

def handle (j : Json) : Json :=
  match getStr? j "op" with
  | some "escape" =>
    match getStr? j "s" with
    | some s =>
      let l := s.toList
      Json.mkObj [("esc", S (dotEscape l)), ("repr", S (dotRepr l)), ("html", S (htmlEscape l))]
    | none => badOp
  | some "recognise" =>
    match getStr? j "text" with
    | some t => Json.mkObj (recJ t.toList)
    | none => badOp
  | some "model" =>
    match (getArr? j "objs").bind (·.toList.mapM parseObj), (getArr? j "roots").bind (·.toList.mapM parseRoot),
        getStr? j "text" with
    | some objs, some roots, some t =>
      Json.mkObj (("text", optS (exportModel objs roots)) :: ("domain", toJson (heapOkB objs && closedB objs roots))
        :: recJ t.toList)
    | _, _, _ => badOp
  | some "export" =>
    match (getArr? j "objs").bind (·.toList.mapM parseObj), (getObj? j "args").bind parseArgs, getObj? j "text" with
    | some objs, some args, some t =>
      match planArgs args with
      | none => Json.mkObj [("raises", true), ("roots", Json.null), ("text", Json.null), ("domain", true)]
      | some roots =>
        match (if t.isNull then some [] else (asStr? t).map String.toList) with
        | some tl =>
          Json.mkObj (("raises", false) :: ("roots", Json.arr (roots.map rootJ).toArray)
            :: ("text", optS (exportCall objs args)) :: ("domain", toJson (heapOkB objs && closedB objs roots))
            :: recJ tl)
        | none => badOp
    | _, _, _ => badOp
  | some "mm" =>
    match (getArr? j "classes").bind (·.toList.mapM parseMCls), getStrList? j "base", getStr? j "renderer",
        getObj? j "linetype", getStr? j "text" with
    | some cs, some base, some r, some lt, some t =>
      let base := base.map String.toList
      if r = "dot" then Json.mkObj (("text", optS (mmDot cs base)) :: ("domain", toJson (cs.all clsOkB && mmClosedB cs && mmIdsDistinctB cs))
        :: ("nodup_domain", toJson (noOuterClassB cs (base ++ [cl!"OBJECT"]))) :: recJ t.toList)
      else if r = "puml" then
        match (if lt.isNull then some none else (asStr? lt).map (some ·.toList)) with
        | some lt =>
          Json.mkObj [("text", optS (mmPuml cs base lt)), ("domain", toJson (cs.all pclsOkB && linetypeOkB lt && mmClosedB cs)),
            ("puml", match pumlRecognise t.toList with
              | some cls => Json.arr (cls.map S).toArray
              | none => Json.null)]
        | none => badOp
      else badOp
    | _, _, _, _, _ => badOp
  | _ => badOp

def main : IO Unit := serve handle
