import TextxVerif.Wire
import TextxVerif.Peg.Arp
import TextxVerif.Peg.ArpUniform
import TextxVerif.Tx.Json
/-! Driver for the Arpeggio mirror plus the mirror of textX's grammar compiler (property C19: the parser model the
mirror is run on -- a dump of the real one -- is tied to `Tx.compile` of the grammar AST, so that WHICH expressions
are non-terminals, i.e. memoized by Arpeggio, is part of the model and not taken from the code under test).
The ops `parse`, `uniformAt` and `batch` are those of Drivers/Peg.lean (same code); new:
{"op":"compile","gram":G} → {"ok":{nodes,top,comments,classes,multSensitive}} | {"error":cls,…}   (as Drivers/Tx.lean)
{"op":"parse","nodes":[{"k","kids","tok","ws","skipws","root","rule","sup","sep","eol"}…],"top":n,
 "comments":n|null,"memo":b,"skipws":b,"ws":"…","input":"…","toks":[[len|-1…]…],"fuel":n}
→ {"ok":tree} | {"nomatch":pos} | {"err":"fuel"|"bad-op"|"bad-model"}
tree: null | ["t",node,pos,len] | ["n",node,[tree…]] | ["l",[tree…]]
{"op":"uniformAt","nodes":[…],"comments":n|null,"skipws":b,"ws":"…"} → {"uniformAt":b}
  (`Peg.uniformAtB`: the parser model is in the class for which C19 is proved, `Peg.UniformAt`)
-/
open Lean Wire Peg

def parseKind : String → Option Kind
  | "str" => some .str | "re" => some .re | "eof" => some .eof | "seq" => some .seq
  | "choice" => some .choice | "opt" => some .opt | "star" => some .star | "plus" => some .plus
  | "unord" => some .unord | "and" => some .andP | "not" => some .notP | _ => none

def parseNode (j : Json) : Option Node := do
  let k ← parseKind (← getStr? j "k")
  let kids := (getNatList? j "kids").getD []
  let tok := (getNat? j "tok").getD 0
  let ws ← Tx.optField j "ws" (fun v => (asStr? v).map String.toList)
  let skipws ← Tx.optField j "skipws" asBool?
  let sep ← Tx.optField j "sep" asNat?
  pure { kind := k, kids := kids, tok := tok, ws := ws, skipws := skipws,
         root := (getBool? j "root").getD false, rule := (getStr? j "rule").getD "",
         suppress := (getBool? j "sup").getD false, sep := sep, eolterm := (getBool? j "eol").getD false }

def parseRow (j : Json) : Option (Array (Option Nat)) := do
  let a ← asArr? j
  a.mapM fun e => match (fromJson? e : Except String Int) with
    | .ok i => some (if i < 0 then none else some i.toNat)
    | .error _ => none

partial def valToJson : Val → Json
  | .none => Json.null
  | .term n p l => Json.arr #["t", toJson n, toJson p, toJson l]
  | .nt n ks => Json.arr #["n", toJson n, Json.arr (ks.map valToJson).toArray]
  | .list vs => Json.arr #["l", Json.arr (vs.map valToJson).toArray]

def handle1 (j : Json) : Json :=
  match getStr? j "op" with
  | some "parse" =>
    let r : Option Json := do
      let nodes ← (← getArr? j "nodes").mapM parseNode
      let top ← getNat? j "top"
      let comments ← Tx.optField j "comments" asNat?
      let memo ← getBool? j "memo"
      let skipws ← getBool? j "skipws"
      let ws ← getStr? j "ws"
      let input ← getStr? j "input"
      let toks ← (← getArr? j "toks").mapM parseRow
      let fuel ← getNat? j "fuel"
      let g : Grammar := { nodes := nodes, comments := comments, memo := memo,
                           input := input.toList.toArray, toks := toks }
      pure <| match run g top skipws ws.toList fuel with
        | .tree v => Json.mkObj [("ok", valToJson v)]
        | .noMatch p => Json.mkObj [("nomatch", toJson p)]
        | .fuel => fuelOut
        | .bad => Json.mkObj [("err", "bad-model")]
    r.getD badOp
  | some "uniformAt" =>
    let r : Option Json := do
      let nodes ← (← getArr? j "nodes").mapM parseNode
      let comments ← Tx.optField j "comments" asNat?
      let skipws ← getBool? j "skipws"
      let ws ← getStr? j "ws"
      let g : Grammar := { nodes := nodes, comments := comments, memo := false, input := #[], toks := #[] }
      pure <| Json.mkObj [("uniformAt", toJson (uniformAtB g skipws ws.toList))]
    r.getD badOp
  | some "compile" =>
    match (getObj? j "gram").bind Tx.parseGram with
    | none => badOp
    | some g =>
      match Tx.compile g with
      | .ok c => Json.mkObj [("ok", Tx.compiledToJson c)]
      | .error e => Tx.errToJson e
  | _ => badOp

/-- {"op":"batch","base":{…common fields…},"reqs":[{…overrides…}]} → {"outs":[…]} -/
def handle (j : Json) : Json :=
  match getStr? j "op" with
  | some "batch" =>
    match getObj? j "base", getArr? j "reqs" with
    | some base, some reqs =>
      Json.mkObj [("outs", Json.arr (reqs.map fun r => handle1 (base.mergeObj r)))]
    | _, _ => badOp
  | _ => handle1 j

def main : IO Unit := serve handle
