import TextxVerif.Wire
import TextxVerif.Peg.Case
import TextxVerif.Peg.CaseKw
/-! Driver for C20 (token matching with `ignore_case` on top of the Arpeggio mirror).

{"op":"c20","nodes":[…as Drivers/Peg.lean…],"top":n,"comments":n|null,"memo":b,"skipws":b,"ws":"…",
 "toks":[{"k":"str","lit":"…","ic":b}|{"k":"re"}|{"k":"kw","lit":"…"}|{"k":"other"} …]   (one per node),
 "tab":[["É","é"]…]            (non-ASCII part of the lower-casing table; ASCII is built in),
 "inputs":[{"text":"…","rx":[[len|-1…]|null …]}…]   (inputs[0] = the original text, the others its variants;
                                                     rx = rows of the regex nodes as measured on the real `re`),
 "lits":[{"k":"str"|"re","v":"…"}…],"cfg":{"ic":b,"autokwd":b},"fuel":n,
 "history":[{"cfg":{…},"lits":[…]}…]   (meta-models constructed earlier in the same process, optional),
 "later":[{"cfg":{…},"lits":[…]}…]     (meta-models constructed after it, optional)}
{"op":"compile","lits":…,"cfg":…,"history":…,"later":…} → only the "compiled…" fields (no parser model)
{"op":"batch","base":{…common fields…},"reqs":[{…per-text fields…}]} → {"outs":[…]}
→ {"outs":[{"res":{"ok":tree}|{"nomatch":pos}|{"err":…},"vals":["…"…],"strrows":[[node,[len|-1…]]…]}…],
   "hyp":{"allic":b,"wsneutral":b,"foldeq":[b…],"rxeq":[b…]},
   "compiled":[{"k":"str","v":"…","ic":b}|{"k":"re","v":pattern,"ic":compiled flag,"flag":b}|
               {"k":"kw","v":literal,"pat":pattern,"ic":compiled flag,"flag":b}…],
   "hist_compiled":[[…]…],"later_compiled":[[…]…]}   (`buildMM` threaded through history, meta-model, later)
Optional (C20 engine rows / C21 in the mirror):
 "cc":{"d":[cp…],"w":[cp…],"s":[cp…],"f":[[cp,cp]…]}  Python's classification of the non-ASCII characters (as Drivers/Re.lean);
 kw tokens may carry "ic" (flag of the compiled regex object; default cfg.ic);
 "off":{"nodes":[…],"toks":[…]}   the parser model of the same grammar built with autokwd=False
→ every out gets "kwrows":[[node,[len|-1…]]…] = rows of the kw tokens computed by the Lean regex engine on `lit\b`
   (`reRx cc (Kwd.kwRe ic lit)`), and with "off" the answer gets
   "akw":{"model":b  (`Lang.autokwd` of the off-model = the model under test, rule names aside),"uniform":b,
          "nogl":[b…] (`NoGluedKeywordIn` per input),"same":[b…] (run of the off-model = run of the model under test; computed for inputs[0] when its hypotheses hold, else true)}
Undecodable requests → {"err":"bad-op"}.
-/
open Lean Wire Peg Peg.Case

def parseKind : String → Option Kind
  | "str" => some .str | "re" => some .re | "eof" => some .eof | "seq" => some .seq
  | "choice" => some .choice | "opt" => some .opt | "star" => some .star | "plus" => some .plus
  | "unord" => some .unord | "and" => some .andP | "not" => some .notP | _ => none

def optField (j : Json) (k : String) (f : Json → Option α) : Option (Option α) :=
  match getObj? j k with
  | none => some none
  | some Json.null => some none
  | some v => (f v).map some

def parseNode (j : Json) : Option Node := do
  let k ← parseKind (← getStr? j "k")
  let kids := (getNatList? j "kids").getD []
  let tok := (getNat? j "tok").getD 0
  let ws ← optField j "ws" (fun v => (asStr? v).map String.toList)
  let skipws ← optField j "skipws" asBool?
  let sep ← optField j "sep" asNat?
  pure { kind := k, kids := kids, tok := tok, ws := ws, skipws := skipws,
         root := (getBool? j "root").getD false, rule := (getStr? j "rule").getD "",
         suppress := (getBool? j "sup").getD false, sep := sep, eolterm := (getBool? j "eol").getD false }

def parseRow (j : Json) : Option (Array (Option Nat)) := do
  let a ← asArr? j
  a.mapM fun e => match (fromJson? e : Except String Int) with
    | .ok i => some (if i < 0 then none else some i.toNat)
    | .error _ => none

def chr? (j : Json) : Option Char := do
  let n ← asNat? j
  if n.isValidChar then some (Char.ofNat n) else none

def chars? (j : Json) : Option (List Char) := do
  let a ← asArr? j
  a.toList.mapM chr?

/-- Python's classification of the non-ASCII characters of the case; ASCII tables when absent -/
def cc? (j : Json) : Option Re.CharClasses :=
  match getObj? j "cc" with
  | none => some Re.asciiCC
  | some c => do
    let d ← chars? (← getObj? c "d")
    let w ← chars? (← getObj? c "w")
    let s ← chars? (← getObj? c "s")
    let f ← (← getArr? c "f").toList.mapM fun p => do
      let xs ← chars? p
      match xs with
      | [a, b] => pure (a, b)
      | _ => none
    pure (Re.tableCC d w s f)

def nodeSame (a b : Node) : Bool :=
  a.kind == b.kind && a.kids == b.kids && a.tok == b.tok && a.ws == b.ws && a.skipws == b.skipws &&
    a.root == b.root && a.suppress == b.suppress && a.sep == b.sep && a.eolterm == b.eolterm

def parseTok (j : Json) : Option Tok := do
  match ← getStr? j "k" with
  | "str" => pure (.str (← getStr? j "lit").toList (← getBool? j "ic"))
  | "re" => pure .re
  | "kw" => pure (.kw (← getStr? j "lit").toList)
  | "other" => pure .other
  | _ => none

def parseLit (j : Json) : Option Lit := do
  match ← getStr? j "k" with
  | "str" => pure (.str (← getStr? j "v").toList)
  | "re" => pure (.re (← getStr? j "v").toList)
  | _ => none

def parsePair (j : Json) : Option (Char × Char) := do
  let a ← asArr? j
  let x ← asStr? (← a[0]?)
  let y ← asStr? (← a[1]?)
  match x.toList, y.toList with
  | [c], [d] => some (c, d)
  | _, _ => none

/-- rows of the regex nodes for one input: `none` for the other nodes -/
def parseRxRows (j : Json) : Option (Array (Option (Array (Option Nat)))) := do
  let a ← asArr? j
  a.mapM fun e => match e with
    | Json.null => some none
    | e => (parseRow e).map some

partial def valToJson : Val → Json
  | .none => Json.null
  | .term n p l => Json.arr #["t", toJson n, toJson p, toJson l]
  | .nt n ks => Json.arr #["n", toJson n, Json.arr (ks.map valToJson).toArray]
  | .list vs => Json.arr #["l", Json.arr (vs.map valToJson).toArray]

def rowToJson (r : Array (Option Nat)) : Json :=
  Json.arr (r.map fun o => match o with | some n => toJson (n : Int) | none => toJson (-1 : Int))

def isWordC (c : Char) : Bool := c.isAlphanum || c == '_' || c.toNat ≥ 128
def isDigitC (c : Char) : Bool := c.isDigit

def matchObjToJson : MatchObj → Json
  | .strMatch s ic => Json.mkObj [("k", "str"), ("v", String.ofList s), ("ic", ic)]
  | .regexMatch s ic r => Json.mkObj [("k", "re"), ("v", String.ofList s), ("ic", r.ic), ("flag", ic),
                                      ("cpat", String.ofList r.pattern)]
  | .keywordMatch s pat ic r => Json.mkObj [("k", "kw"), ("v", String.ofList s), ("pat", String.ofList pat),
                                            ("ic", r.ic), ("flag", ic), ("cpat", String.ofList r.pattern)]

def parseCfg (j : Json) : Option Cfg := do
  pure { ignoreCase := ← getBool? j "ic", autokwd := ← getBool? j "autokwd" }

def parseMMs (j : Json) (k : String) : Option (List (Cfg × List Lit)) :=
  match getObj? j k with
  | none => some []
  | some Json.null => some []
  | some v => do
    let a ← asArr? v
    let l ← a.mapM fun e => do
      let cfg ← parseCfg (← getObj? e "cfg")
      let lits ← (← getArr? e "lits").mapM parseLit
      pure (cfg, lits.toList)
    pure l.toList

/-- `buildMM` over a list of meta-models, threading the cache; the objects of each -/
def buildSeq (c : ReCache) : List (Cfg × List Lit) → ReCache × List (List MatchObj)
  | [] => (c, [])
  | (cfg, lits) :: rest =>
    let r := buildMM isWordC isDigitC c cfg lits
    let rs := buildSeq r.1 rest
    (rs.1, r.2 :: rs.2)

/-- the "compiled…" fields: history, then the meta-model, then the later ones, in one process -/
def compiledFields (j : Json) : Option (List (String × Json)) := do
  let lits ← (← getArr? j "lits").mapM parseLit
  let cfg ← parseCfg (← getObj? j "cfg")
  let hist ← parseMMs j "history"
  let later ← parseMMs j "later"
  let h := buildSeq [] hist
  let m := buildMM isWordC isDigitC h.1 cfg lits.toList
  let l := buildSeq m.1 later
  let enc (ms : List MatchObj) : Json := Json.arr (ms.map matchObjToJson).toArray
  pure [("compiled", enc m.2), ("hist_compiled", Json.arr (h.2.map enc).toArray),
        ("later_compiled", Json.arr (l.2.map enc).toArray)]

structure Inp where
  text : Array Char
  rx : Array (Option (Array (Option Nat)))

/-- the regex engine of this request: the rows measured on the real `re`, looked up by input text -/
def rxOf (inps : Array Inp) : Rx := fun i inp p =>
  match inps.find? (fun e => e.text == inp) with
  | some e => match e.rx[i]? with
    | some (some row) => (row[p]?).join
    | _ => none
  | none => none

/-- `rxOf inps` restricted to the text of `e` (the texts of one request are pairwise distinct), without the
lookup: by `Peg.Case.run_congr_rx` the run on `e.text` is the same with either engine -/
def rxFor (e : Inp) : Rx := fun i _ p =>
  match e.rx[i]? with
  | some (some row) => (row[p]?).join
  | _ => none

def handle1 (j : Json) : Json :=
  match getStr? j "op" with
  | some "c20" =>
    let r : Option Json := do
      let nodes ← (← getArr? j "nodes").mapM parseNode
      let top ← getNat? j "top"
      let comments ← optField j "comments" asNat?
      let memo ← getBool? j "memo"
      let skipws ← getBool? j "skipws"
      let ws ← getStr? j "ws"
      let toks ← (← getArr? j "toks").mapM parseTok
      let tabX ← (← getArr? j "tab").mapM parsePair
      let inps ← (← getArr? j "inputs").mapM fun e => do
        let t ← getStr? e "text"
        let rx ← parseRxRows (← getObj? e "rx")
        pure ({ text := t.toList.toArray, rx := rx } : Inp)
      let compiled ← compiledFields j
      let fuel ← getNat? j "fuel"
      let cc ← cc? j
      let cfgIc := ((getObj? j "cfg").bind fun c => getBool? c "ic").getD false
      let tokArr ← getArr? j "toks"
      let kwIc : Nat → Bool := fun i => ((tokArr[i]?).bind fun t => getBool? t "ic").getD cfgIc
      let off : Option Lang ← match getObj? j "off" with
        | none => pure none
        | some Json.null => pure none
        | some o => do
          let n2 ← (← getArr? o "nodes").mapM parseNode
          let t2 ← (← getArr? o "toks").mapM parseTok
          pure (some ({ nodes := n2, comments := comments, memo := memo, toks := t2, top := top,
                        skipws := skipws, ws := ws.toList } : Lang))
      if toks.size != nodes.size then none
      if !(inps.toList.map (·.text)).Nodup then none
      let base ← inps[0]?
      let tab := asciiTab ++ tabX.toList
      let lower := lowerTab tab
      let L : Lang := { nodes := nodes, comments := comments, memo := memo, toks := toks, top := top,
                        skipws := skipws, ws := ws.toList }
      let outs := inps.map fun inp =>
        let rx := rxFor inp
        let out := L.run lower rx inp.text fuel
        let (res, vals) : Json × List String := match out with
          | .tree v => (Json.mkObj [("ok", valToJson v)], (values toks inp.text v).map String.ofList)
          | .noMatch p => (Json.mkObj [("nomatch", toJson p)], [])
          | .fuel => (fuelOut, [])
          | .bad => (Json.mkObj [("err", "bad-model")], [])
        let strrows := (List.range toks.size).filterMap fun i =>
          match toks[i]? with
          | some (Tok.str lit ic) => some (Json.arr #[toJson i, rowToJson (tokRow lower (rx i) (.str lit ic) inp.text)])
          | _ => none
        let kwrows := (List.range toks.size).filterMap fun i =>
          match toks[i]? with
          | some (Tok.kw lit) =>
              some (Json.arr #[toJson i, rowToJson (Array.ofFn (n := inp.text.size + 1) fun p =>
                reRx cc (Kwd.kwRe (kwIc i) lit) inp.text p.val)])
          | _ => none
        Json.mkObj [("res", res), ("vals", toJson vals), ("strrows", Json.arr strrows.toArray),
                    ("kwrows", Json.arr kwrows.toArray)]
      let variants := inps.toList.drop 1
      let foldeq := variants.map fun v => decide (FoldEq lower base.text v.text)
      let rxeq := variants.map fun v =>
        (List.range toks.size).all fun i =>
          match toks[i]? with
          | some t => !t.isRx || tokRow lower (rxFor base i) t base.text == tokRow lower (rxFor v i) t v.text
          | none => true
      let hyp := Json.mkObj [("allic", allIc toks), ("wsneutral", wsNeutralB tab L),
                             ("foldeq", toJson foldeq), ("rxeq", toJson rxeq)]
      let akw : List (String × Json) := match off with
        | none => []
        | some Lo =>
          let La := Lo.autokwd cc cfgIc
          let model := La.toks == toks && La.nodes.size == nodes.size &&
            (List.range nodes.size).all fun i => match La.nodes[i]?, nodes[i]? with
              | some a, some b => nodeSame a b
              | _, _ => false
          let outJ (o : Outcome) : String := match o with
            | .tree v => (valToJson v).compress
            | .noMatch p => s!"nomatch {p}"
            | .fuel => "fuel"
            | .bad => "bad"
          let uni := uniformIc cfgIc Lo.toks
          let nogl := inps.toList.map fun inp => noGluedKeywordInB cc cfgIc Lo.toks inp.text
          -- the instance of `C21_same_run` is only claimed where its hypotheses hold, and (being a theorem) only
          -- computed for the original text of the group; the real parses are compared for every text by the harness
          let same := ((inps.toList.zip nogl).zipIdx).map fun ((inp, ng), k) =>
            !(uni && ng && k == 0) ||
              outJ (Lo.run lower (rxFor inp) inp.text fuel) == outJ (L.run lower (rxFor inp) inp.text fuel)
          [("akw", Json.mkObj [("model", model), ("uniform", uni), ("nogl", toJson nogl),
                               ("same", toJson same)])]
      pure <| Json.mkObj ([("outs", Json.arr outs), ("hyp", hyp)] ++ akw ++ compiled)
    r.getD badOp
  | some "compile" => ((compiledFields j).map Json.mkObj).getD badOp
  | _ => badOp

/-- {"op":"batch","base":{…common fields…},"reqs":[{…overrides…}]} → {"outs":[…]} -/
def handle (j : Json) : Json :=
  match getStr? j "op" with
  | some "batch" =>
    match getObj? j "base", getArr? j "reqs" with
    | some base, some reqs =>
      Json.mkObj [("outs", Json.arr (reqs.map fun r => handle1 (base.mergeObj r)))]
    | _, _ => badOp
  | _ => handle1 j

def main : IO Unit := serve handle
