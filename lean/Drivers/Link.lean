import TextxVerif.Wire
import TextxVerif.Link.PlainName
import TextxVerif.Link.Store
import TextxVerif.Link.Conf
import TextxVerif.Link.Fqn
/-! Driver for default (PlainName) and FQN reference resolution (C07, C10).

Object: {"id":n,"cls":c,"name":s|null,"attrs":[{"c":[Object…]} | {"r":[id…]} | {"p":0}]}
ops:
  {"op":"resolve_default","root":Object,"conf":[[objCls,targetCls]…],
   "builtins":[[name,id,cls]…],"refs":[[name,targetCls,owner,attr,single(0|1)]…],
   "probes":[[name,targetCls]…],
   "gram":[[hasAttrs(0|1),[alt…]]…] (alt = rule | null (a match) | [rule|null…] (a sequence)),"objmap":[[cls,rule]…],"tgtmap":[[cls,rule]…],"object":cls}
     (the grammar as a C03 rule graph: body = ordered choice of the referenced rules; `objmap` / `tgtmap` send
      the class numbers of objects / of reference targets used in tree and conf to rule numbers, a class that is
      no rule of the grammar to a number ≥ |gram|; `object` is the target class standing for OBJECT)
     → {"res":{"ok":[T…]} | {"fail":"unknown"|"notUnique","idx":i},
        "attrs":[[owner,attr,[T…]]…]  (only when ok; one entry per distinct owner/attr, in first-use order),
        "stored":[[owner,attr,[pyid…] | null]…]  (only when the pass *with its stores* `resolveAllSt (storeRef …)`
                  succeeds: the reference attributes read from the final tree, same keys) | "st_fail":{…},
        "conf_diff":[[cls,targetCls]…]  the pairs objmap × (tgtmap + object) on which the table `conf`
                  and `Link.confOfGrammar gram` (the C03 `textx_isinstance` model) disagree,
        "probes":[id | "many" | null …]}          T = {"obj":id} | {"builtin":id}
  {"op":"resolve_fqn","root":Object,"conf":[[objCls,targetCls]…],"probes":[[cur,"a.b.c",targetCls]…]}
     → {"probes":[id | null | "no-such-object" …]}
-/
open Lean Wire Link

partial def parseObj (j : Json) : Option Obj := do
  let i ← getNat? j "id"
  let c ← getNat? j "cls"
  let n ← match getObj? j "name" with
    | some Json.null => some none
    | some (Json.str s) => some (some s)
    | _ => none
  let as ← getArr? j "attrs"
  let attrs ← as.toList.mapM fun a =>
    match getArr? a "c", getNatList? a "r", getNat? a "p" with
    | some ks, none, none => do
      let kids ← ks.toList.mapM parseObj
      pure (Attr.cont kids)
    | none, some ts, none => some (Attr.ref ts)
    | none, none, some _ => some Attr.prim
    | _, _, _ => none
  pure (Obj.mk i c n attrs)

def parsePairs (a : Array Json) : Option (List (Nat × Nat)) :=
  a.toList.mapM fun e => do
    match ← asNatList? e with
    | [x, y] => pure (x, y)
    | _ => none

def confOf (tbl : List (Nat × Nat)) : Nat → Nat → Bool := fun c t => tbl.contains (c, t)

def parseBuiltins (a : Array Json) : Option (List (String × Builtin)) :=
  a.toList.mapM fun e => do
    let xs ← asArr? e
    let n ← asStr? (← xs[0]?)
    let i ← asNat? (← xs[1]?)
    let c ← asNat? (← xs[2]?)
    if xs.size = 3 then pure (n, { id := i, cls := c }) else none

def parseRefs (a : Array Json) : Option (List (Ref × Bool)) :=
  a.toList.mapM fun e => do
    let xs ← asArr? e
    let n ← asStr? (← xs[0]?)
    let t ← asNat? (← xs[1]?)
    let o ← asNat? (← xs[2]?)
    let ai ← asNat? (← xs[3]?)
    let sg ← asNat? (← xs[4]?)
    if xs.size = 5 ∧ sg ≤ 1 then pure ({ name := n, tcls := t, owner := o, attr := ai }, sg == 1) else none

def parseNameProbes (a : Array Json) : Option (List (String × Nat)) :=
  a.toList.mapM fun e => do
    let xs ← asArr? e
    let n ← asStr? (← xs[0]?)
    let t ← asNat? (← xs[1]?)
    if xs.size = 2 then pure (n, t) else none

def parseFqnProbes (a : Array Json) : Option (List (Nat × String × Nat)) :=
  a.toList.mapM fun e => do
    let xs ← asArr? e
    let c ← asNat? (← xs[0]?)
    let n ← asStr? (← xs[1]?)
    let t ← asNat? (← xs[2]?)
    if xs.size = 3 then pure (c, n, t) else none

/-- one alternative of a rule body: `n` = reference to rule `n`, `null` = a string / regex match,
`[x…]` = a sequence of references and matches (e.g. `'(' L1 ')'`) -/
def parseAlt (e : Json) : Option RuleTypes.Body :=
  let atom (x : Json) : Option RuleTypes.Body :=
    match x with
    | .null => some .lit
    | _ => (asNat? x).map RuleTypes.Body.ref
  match e with
  | .arr xs => (xs.toList.mapM atom).map RuleTypes.Body.seq
  | _ => atom e

def parseGram (a : Array Json) : Option RuleTypes.Gram :=
  a.toList.mapM fun e => do
    let xs ← asArr? e
    let h ← asNat? (← xs[0]?)
    let altsJ ← asArr? (← xs[1]?)
    let alts ← altsJ.toList.mapM parseAlt
    if xs.size = 2 ∧ h ≤ 1 then
      pure { hasAttrs := h == 1,
             body := if alts.isEmpty then .lit else .choice alts }
    else none

/-- table conformance against the C03 model, over all pairs of mapped classes (+ OBJECT as target) -/
def confDiff (tbl : List (Nat × Nat)) (g : RuleTypes.Gram) (objmap tgtmap : List (Nat × Nat)) (objCls : Nat) :
    List (Nat × Nat) :=
  let k := RuleTypes.kindsOf g
  let inst (c : Nat) (t : Option Nat) : Bool :=
    match t with
    | none => RuleTypes.isInstance g k c .object
    | some r => RuleTypes.isInstance g k c (.rule r)
  let targets : List (Nat × Option Nat) := (tgtmap.map fun (c, r) => (c, some r)) ++ [(objCls, none)]
  (objmap.flatMap fun (c, r) => targets.filterMap fun (t, tr) =>
    if tbl.contains (c, t) == inst r tr then none else some (c, t))

def targetJson : Target → Json
  | .obj o => Json.mkObj [("obj", toJson o.id)]
  | .builtin b => Json.mkObj [("builtin", toJson b.id)]

def dedupKeys : List (Nat × Nat) → List (Nat × Nat) → List (Nat × Nat)
  | [], acc => acc.reverse
  | k :: ks, acc => if acc.contains k then dedupKeys ks acc else dedupKeys ks (k :: acc)

def handleDefault (j : Json) : Json :=
  match (getObj? j "root").bind parseObj, (getArr? j "conf").bind parsePairs,
        (getArr? j "builtins").bind parseBuiltins, (getArr? j "refs").bind parseRefs,
        (getArr? j "probes").bind parseNameProbes,
        ((getArr? j "gram").bind parseGram, (getArr? j "objmap").bind parsePairs,
         (getArr? j "tgtmap").bind parsePairs, getNat? j "object") with
  | some root, some tbl, some bs, some refsS, some probes, (some gram, some objmap, some tgtmap, some objCls) =>
    let conf := confOf tbl
    let diffOut : List (String × Json) :=
      [("conf_diff", Json.arr ((confDiff tbl gram objmap tgtmap objCls).map fun (c, t) =>
          Json.arr #[toJson c, toJson t]).toArray)]
    let refs := refsS.map (·.1)
    -- single-valuedness is a property of the attribute (owner, attr)
    let singles : List (Nat × Nat) := (refsS.filter (·.2)).map fun p => (p.1.owner, p.1.attr)
    let single : Ref → Bool := fun r => singles.contains (r.owner, r.attr)
    let keys := dedupKeys (refs.map fun r => (r.owner, r.attr)) []
    -- the pass as it runs: every resolved target is stored before the next lookup
    let stOut : List (String × Json) :=
      match resolveAllSt (storeRef single) conf root bs refs with
      | .ok (_, root') =>
        [("stored", Json.arr (keys.map fun (o, a) =>
            Json.arr #[toJson o, toJson a,
              match readObj o a root' with
              | some ids => toJson ids
              | none => Json.null]).toArray)]
      | .error (.unknown i) => [("st_fail", Json.mkObj [("fail", "unknown"), ("idx", toJson i)])]
      | .error (.notUnique i) => [("st_fail", Json.mkObj [("fail", "notUnique"), ("idx", toJson i)])]
    let probeOut : List Json := probes.map fun (n, t) =>
      match plainName conf root n t with
      | .one o => toJson o.id
      | .many => Json.str "many"
      | .none => Json.null
    match resolveAll conf root bs refs with
    | .ok res =>
      let attrs : List Json := keys.map fun (o, a) =>
        Json.arr #[toJson o, toJson a, Json.arr ((attrValue res o a).map targetJson).toArray]
      Json.mkObj ([("res", Json.mkObj [("ok", Json.arr (res.map (fun p => targetJson p.2)).toArray)]),
                  ("attrs", Json.arr attrs.toArray), ("probes", Json.arr probeOut.toArray)] ++ stOut ++ diffOut)
    | .error (.unknown i) =>
      Json.mkObj ([("res", Json.mkObj [("fail", "unknown"), ("idx", toJson i)]), ("probes", Json.arr probeOut.toArray)] ++ stOut ++ diffOut)
    | .error (.notUnique i) =>
      Json.mkObj ([("res", Json.mkObj [("fail", "notUnique"), ("idx", toJson i)]), ("probes", Json.arr probeOut.toArray)] ++ stOut ++ diffOut)
  | _, _, _, _, _, _ => badOp

def handleFqn (j : Json) : Json :=
  match (getObj? j "root").bind parseObj, (getArr? j "conf").bind parsePairs,
        (getArr? j "probes").bind parseFqnProbes with
  | some root, some tbl, some probes =>
    let conf := confOf tbl
    let outs : List Json := probes.map fun (cur, dotted, t) =>
      match pathTo cur root with
      | none => Json.str "no-such-object"
      | some _ =>
        -- `fqn_name.split(".")` = `Link.splitDots` (specified by C10_split_spec / C10_split_unique)
        match fqnText (fun o => conf o.cls t) root cur dotted with
        | some o => toJson o.id
        | none => Json.null
    Json.mkObj [("probes", Json.arr outs.toArray)]
  | _, _, _ => badOp

def handle (j : Json) : Json :=
  match getStr? j "op" with
  | some "resolve_default" => handleDefault j
  | some "resolve_fqn" => handleFqn j
  | _ => badOp

def main : IO Unit := serve handle
