import TextxVerif.Wire
import TextxVerif.Resolve
import TextxVerif.ResolveQuery
import TextxVerif.ResolveOrder
import TextxVerif.ResolveHist
import TextxVerif.RefList
/-! Driver for the resolver loop model (C08, C09).
ops:
  {"op":"loop","refs":[id…],"deps":[[id,[id…]]…]}  → {"pending":[…],"seq":[…]}
  {"op":"list","seq":[[id,pos,tgt]…]}               → {"list":[tgt…]}
  {"op":"resolve","refs":[id…],"deps":[…],"lists":[[[id,pos]…]…]}
        → {"pending":[…],"seq":[…],"lists":[[id…]…]}   loop + content of every list attribute (C09)
  {"op":"resolveq","files":[[[id,obj,attr]…]…],"waits":[[id,[WAIT…]]…],"lists":[…]}   (C09)
        WAIT = [0,id] (attribute value) | [1,file,obj,attr] | [2,file,obj] (needs_to_be_resolved)
        → {"pending":[…],"seq":[…],"lists":[[id…]…]}   providers that ask the resolver: loopQ
  both `resolve` and `resolveq` also answer
        "keyed": the list attributes once more, computed by the Python-level model of C08
                 (`RefList.run` = `_list_ref_positions` + `bisect` + `list.insert`) fed with the loop's sequence;
        "order_ok": `validOrder` of the loop's own sequence (literal "resolves given the ones before it");
  and accept the optional fields
        "obs_seq":[id…]  a resolution sequence observed on the implementation → "obs_order_ok": `validOrder` of it
  {"op":"hist","global":bool,"loads":[{"keys":[file key…],"req":REQUEST (`resolve` | `resolveq`)}…]}   (C09)
        a history of loads with one meta-model; "keys" = the files the request of the load contains
        → {"outs":[answer per load…],"cached":[[file key…]…]}   "cached" = the files finished by earlier successful
          loads when the load starts (`specH`: a failed load leaves nothing, a successful one its files — global only)
        "files":[[id…]…] (`resolve` only) the references file by file → the loop is run as `loopFiles` (every file
                 its own pending list, stepped in turn); "pending_files" = what stays pending per file
-/
open Lean Wire Resolve

def depsOf (tbl : List (Nat × List Nat)) (r : Nat) : List Nat :=
  match tbl.find? (·.1 = r) with
  | some (_, ds) => ds
  | none => []

/-- table-driven provider: ready iff all dependencies are resolved (monotone) -/
def tableProvider (tbl : List (Nat × List Nat)) : Provider where
  ready S r := (depsOf tbl r).all (· ∈ S)
  mono := by
    intro S S' r h hr
    simp only [List.all_eq_true, decide_eq_true_eq] at hr ⊢
    exact fun x hx => h x (hr x hx)

def parseDeps (a : Array Json) : Option (List (Nat × List Nat)) :=
  a.toList.mapM fun e => do
    let xs ← asArr? e
    let id ← asNat? (← xs[0]?)
    let ds ← asNatList? (← xs[1]?)
    pure (id, ds)

def parseLRefs (a : Array Json) : Option (List LRef) :=
  a.toList.mapM fun e => do
    let xs ← asNatList? e
    match xs with
    | [i, p, t] => pure { id := i, pos := p, tgt := t }
    | _ => none

/-- list attributes: one array of `[id, pos]` per attribute (the target of reference `id` is item `id`) -/
def parseAttrs (a : Array Json) : Option (List (List LRef)) :=
  a.toList.mapM fun e => do
    let xs ← asArr? e
    xs.toList.mapM fun x => do
      match ← asNatList? x with
      | [i, p] => pure { id := i, pos := p, tgt := i }
      | _ => none

def parseCRefs (a : Array Json) : Option (List (List CRef)) :=
  a.toList.mapM fun e => do
    let xs ← asArr? e
    xs.toList.mapM fun x => do
      match ← asNatList? x with
      | [i, o, t] => pure { id := i, obj := o, attr := t }
      | _ => none

def parseWait (j : Json) : Option Wait := do
  match ← asNatList? j with
  | [0, d] => pure (.val d)
  | [1, f, o, a] => pure (.qry f o (some a))
  | [2, f, o] => pure (.qry f o none)
  | _ => none

def parseWaits (a : Array Json) : Option (List (Nat × List Wait)) :=
  a.toList.mapM fun e => do
    let xs ← asArr? e
    let id ← asNat? (← xs[0]?)
    let ws ← (← asArr? (← xs[1]?)).toList.mapM parseWait
    pure (id, ws)

def waitsOf (tbl : List (Nat × List Wait)) (r : Nat) : List Wait :=
  match tbl.find? (·.1 = r) with
  | some (_, ws) => ws
  | none => []

/-- the list attributes as the keyed Python-level model sees them: attribute number `j` is the key `(j, 0)` -/
def keyedLists (attrs : List (List LRef)) (seq : List Nat) : List (List Nat) :=
  let tab : List (Nat × RefList.KRef) :=
    (attrs.zipIdx.map fun (L, j) => L.map fun l => (l.id, ({ key := (j, 0), pos := l.pos, tgt := l.tgt } : RefList.KRef))).flatten
  let kseq := seq.filterMap fun r => (tab.find? (·.1 = r)).map (·.2)
  let st := RefList.run kseq
  (List.range attrs.length).map fun j => st.values (j, 0)

/-- optional observed sequence → its `validOrder` verdict (`none` = the field is there but undecodable) -/
def obsOrder (P : Provider) (j : Json) : Option (List (String × Json)) :=
  match (j.getObjVal? "obs_seq").toOption with
  | none => some []
  | some v => (asNatList? v).map fun σ => [("obs_order_ok", toJson (validOrder P σ))]

def withObs (P : Provider) (j : Json) (fields : List (String × Json)) : Json :=
  match obsOrder P j with
  | some extra => Json.mkObj (fields ++ extra)
  | none => badOp

def parseFiles (j : Json) : Option (List (List Nat)) := do
  let a ← getArr? j "files"
  a.toList.mapM asNatList?

def handle (j : Json) : Json :=
  match getStr? j "op" with
  | some "loop" =>
    match getNatList? j "refs", (getArr? j "deps").bind parseDeps with
    | some refs, some tbl =>
      let (p, res) := loop (tableProvider tbl) (refs.length + 1) refs []
      Json.mkObj [("pending", toJson p), ("seq", toJson res.reverse)]
    | _, _ => badOp
  | some "resolve" =>
    match getNatList? j "refs", (getArr? j "deps").bind parseDeps, (getArr? j "lists").bind parseAttrs with
    | some refs, some tbl, some attrs =>
      let P := tableProvider tbl
      match (j.getObjVal? "files").toOption with
      | none =>
        let (p, res) := loop P (refs.length + 1) refs []
        let seq := res.reverse
        withObs P j ([("pending", toJson p), ("seq", toJson seq),
                    ("lists", toJson (attrs.map fun L => (attrAfter L seq).map (·.tgt))),
                    ("keyed", toJson (keyedLists attrs seq)), ("order_ok", toJson (validOrder P seq))])
      | some _ =>
        match parseFiles j with
        | some files =>
          if files.flatten ≠ refs then badOp else
          let (ps, res) := loopFiles P (refs.length + 1) files []
          let seq := res.reverse
          withObs P j ([("pending", toJson ps.flatten), ("pending_files", toJson ps), ("seq", toJson seq),
                      ("lists", toJson (attrs.map fun L => (attrAfter L seq).map (·.tgt))),
                      ("keyed", toJson (keyedLists attrs seq)), ("order_ok", toJson (validOrder P seq))])
        | none => badOp
    | _, _, _ => badOp
  | some "resolveq" =>
    match (getArr? j "files").bind parseCRefs, (getArr? j "waits").bind parseWaits, (getArr? j "lists").bind parseAttrs with
    | some files, some tbl, some attrs =>
      let (fs, res) := loopQ (waitsOf tbl) (pendingCount files + 1) files []
      let seq := res.reverse
      let P := specP (waitsOf tbl) files
      withObs P j ([("pending", toJson (idsOf fs)), ("seq", toJson seq),
                  ("lists", toJson (attrs.map fun L => (attrAfter L seq).map (·.tgt))),
                  ("keyed", toJson (keyedLists attrs seq)), ("order_ok", toJson (validOrder P seq))])
    | _, _, _ => badOp
  | some "list" =>
    match (getArr? j "seq").bind parseLRefs with
    | some seq => Json.mkObj [("list", toJson ((listAfter seq).map (·.tgt)))]
    | none => badOp
  | _ => badOp

/-- the loads of a history one after the other, threading the keys of the finished files as `specH` does -/
def runHist (glob : Bool) : List Json → List Nat → Option (List (Json × List Nat))
  | [], _ => some []
  | ld :: rest, cached => do
      let keys ← getNatList? ld "keys"
      let req ← getObj? ld "req"
      let out := handle req
      let pend ← getArr? out "pending"
      let fresh := (freshFiles cached (keys.map fun k => (k, ([] : List Nat)))).map (·.1)
      let cached' := if glob then (if pend.isEmpty then cached ++ fresh else cached) else []
      let tail ← runHist glob rest cached'
      pure ((out, cached) :: tail)

def handleAll (j : Json) : Json :=
  match getStr? j "op" with
  | some "hist" =>
    match getBool? j "global", getArr? j "loads" with
    | some glob, some loads =>
      match runHist glob loads.toList [] with
      | some rs => Json.mkObj [("outs", Json.arr (rs.map (·.1)).toArray), ("cached", toJson (rs.map (·.2)))]
      | none => badOp
    | _, _ => badOp
  | _ => handle j

def main : IO Unit := serve handleAll
