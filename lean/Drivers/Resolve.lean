import TextxVerif.Wire
import TextxVerif.Resolve
/-! Driver for the resolver loop model (C08, C09).
ops:
  {"op":"loop","refs":[id…],"deps":[[id,[id…]]…]}  → {"pending":[…],"seq":[…]}
  {"op":"list","seq":[[id,pos,tgt]…]}               → {"list":[tgt…]}
  {"op":"resolve","refs":[id…],"deps":[…],"lists":[[[id,pos]…]…]}
        → {"pending":[…],"seq":[…],"lists":[[id…]…]}   loop + content of every list attribute (C09)
-/
open Lean Wire Resolve

def depsOf (tbl : List (Nat × List Nat)) (r : Nat) : List Nat :=
  match tbl.find? (·.1 = r) with
  | some (_, ds) => ds
  | none => []

/-- table-driven provider: ready iff all dependencies are resolved (monotone) -/
def tableProvider (tbl : List (Nat × List Nat)) : Provider where
  ready S r := (depsOf tbl r).all (· ∈ S)
  mono := by
    intro S S' r h hr
    simp only [List.all_eq_true, decide_eq_true_eq] at hr ⊢
    exact fun x hx => h x (hr x hx)

def parseDeps (a : Array Json) : Option (List (Nat × List Nat)) :=
  a.toList.mapM fun e => do
    let xs ← asArr? e
    let id ← asNat? (← xs[0]?)
    let ds ← asNatList? (← xs[1]?)
    pure (id, ds)

def parseLRefs (a : Array Json) : Option (List LRef) :=
  a.toList.mapM fun e => do
    let xs ← asNatList? e
    match xs with
    | [i, p, t] => pure { id := i, pos := p, tgt := t }
    | _ => none

/-- list attributes: one array of `[id, pos]` per attribute (the target of reference `id` is item `id`) -/
def parseAttrs (a : Array Json) : Option (List (List LRef)) :=
  a.toList.mapM fun e => do
    let xs ← asArr? e
    xs.toList.mapM fun x => do
      match ← asNatList? x with
      | [i, p] => pure { id := i, pos := p, tgt := i }
      | _ => none

def handle (j : Json) : Json :=
  match getStr? j "op" with
  | some "loop" =>
    match getNatList? j "refs", (getArr? j "deps").bind parseDeps with
    | some refs, some tbl =>
      let (p, res) := loop (tableProvider tbl) (refs.length + 1) refs []
      Json.mkObj [("pending", toJson p), ("seq", toJson res.reverse)]
    | _, _ => badOp
  | some "resolve" =>
    match getNatList? j "refs", (getArr? j "deps").bind parseDeps, (getArr? j "lists").bind parseAttrs with
    | some refs, some tbl, some attrs =>
      let (p, res) := loop (tableProvider tbl) (refs.length + 1) refs []
      let seq := res.reverse
      Json.mkObj [("pending", toJson p), ("seq", toJson seq),
                  ("lists", toJson (attrs.map fun L => (attrAfter L seq).map (·.tgt)))]
    | _, _, _ => badOp
  | some "list" =>
    match (getArr? j "seq").bind parseLRefs with
    | some seq => Json.mkObj [("list", toJson ((listAfter seq).map (·.tgt)))]
    | none => badOp
  | _ => badOp

def main : IO Unit := serve handle
