import TextxVerif.Wire
import TextxVerif.Peg.GapExt
import TextxVerif.Peg.WsParam
import TextxVerif.Peg.Setup
/-! Driver for C22 (gap extension on the Arpeggio mirror).

{"op":"gapext","nodes":[…as in Drivers/Peg.lean…],"top":n,"comments":n|null,"memo":b,"skipws":b,"ws":"…",
 "input":"…","toks":[[len|-1…]…],"fuel":n,
 "exts":[{"p":n,"ins":"…","toks":[[…]…]}…]}
→ {"orig":outcome,
   "exts":[{"input":"…", "ok":b, "modes":b, "compat":b, "rows":b, "out":outcome, "rel":b}…]}
outcome: {"ok":tree} | {"nomatch":pos} | {"err":"fuel"|"bad-model"}
`input` = `extendGap`; `ok` = `gapExtOkB` (all side conditions of C22_partial_ws); `modes` = `modesSkipB`;
`compat` = `tokCompatB`; `rows` = both `rowsOkB`; `rel` = the outcome on the extended input is the shifted
original outcome (what C22_partial_ws concludes).

{"op":"multi","reqs":[gapext…],"mods":[[{"flag":"noskipws"}|{"ws":"raw value"}…]…]}
→ {"outs":[…],"mods":[{"skipws":b|null,"ws":"…"|null} | {"rejected":true}…]}
`mods`: the rule modifiers of one rule as written in the grammar → `Peg.ruleMods` (mirror of
`visit_rule_param` / `visit_rule_params`): the whitespace mode the compiled rule must carry.
Optional fields of `multi` (set-up of the parser, `Peg/Setup.lean`):
 "files":[{"name":"main","defines":["Model",…],"imports":["base",…]}…]  (main file first)
   → "comment_owner": name of the file whose Comment rule is the comments model | null   (`Peg.commentOwner`)
 "hist":[cfg…],"cfg":cfg   with cfg = {"skipws":b?,"ws":"…"?,"memoization":b?,"debug":b?}
   → "pcfg":{"skipws":b,"ws":"…","memo":b}   (`Peg.parserCfgAfter`: the meta-models of `hist` are created first)
-/
open Lean Wire Peg

def parseKind : String → Option Kind
  | "str" => some .str | "re" => some .re | "eof" => some .eof | "seq" => some .seq
  | "choice" => some .choice | "opt" => some .opt | "star" => some .star | "plus" => some .plus
  | "unord" => some .unord | "and" => some .andP | "not" => some .notP | _ => none

def optField (j : Json) (k : String) (f : Json → Option α) : Option (Option α) :=
  match getObj? j k with
  | none => some none
  | some Json.null => some none
  | some v => (f v).map some

def parseNode (j : Json) : Option Node := do
  let k ← parseKind (← getStr? j "k")
  let kids := (getNatList? j "kids").getD []
  let tok := (getNat? j "tok").getD 0
  let ws ← optField j "ws" (fun v => (asStr? v).map String.toList)
  let skipws ← optField j "skipws" asBool?
  let sep ← optField j "sep" asNat?
  pure { kind := k, kids := kids, tok := tok, ws := ws, skipws := skipws,
         root := (getBool? j "root").getD false, rule := (getStr? j "rule").getD "",
         suppress := (getBool? j "sup").getD false, sep := sep, eolterm := (getBool? j "eol").getD false }

def parseRow (j : Json) : Option (Array (Option Nat)) := do
  let a ← asArr? j
  a.mapM fun e => match (fromJson? e : Except String Int) with
    | .ok i => some (if i < 0 then none else some i.toNat)
    | .error _ => none

partial def valToJson : Val → Json
  | .none => Json.null
  | .term n p l => Json.arr #["t", toJson n, toJson p, toJson l]
  | .nt n ks => Json.arr #["n", toJson n, Json.arr (ks.map valToJson).toArray]
  | .list vs => Json.arr #["l", Json.arr (vs.map valToJson).toArray]

def outToJson : Outcome → Json
  | .tree v => Json.mkObj [("ok", valToJson v)]
  | .noMatch p => Json.mkObj [("nomatch", toJson p)]
  | .fuel => fuelOut
  | .bad => Json.mkObj [("err", "bad-model")]

/-- the conclusion of `C22_partial_ws`, decided on two outcomes -/
def outRelB (p k : Nat) : Outcome → Outcome → Bool
  | .tree v, .tree v' => valToJson (v.shift (sh p k)) == valToJson v'
  | .noMatch a, .noMatch a' => a' == sh p k a || (a == p && a' == p)
  | .fuel, .fuel => true
  | .bad, .bad => true
  | _, _ => false

def handle1 (j : Json) : Json :=
  match getStr? j "op" with
  | some "gapext" =>
    let r : Option Json := do
      let nodes ← (← getArr? j "nodes").mapM parseNode
      let top ← getNat? j "top"
      let comments ← optField j "comments" asNat?
      let memo ← getBool? j "memo"
      let skipws ← getBool? j "skipws"
      let ws ← getStr? j "ws"
      let input ← getStr? j "input"
      let toks ← (← getArr? j "toks").mapM parseRow
      let fuel ← getNat? j "fuel"
      let g : Grammar := Grammar.mk nodes comments memo input.toList.toArray toks
      let o := run g top skipws ws.toList fuel
      let exts ← (← getArr? j "exts").mapM fun e => do
        let p ← getNat? e "p"
        let ins ← getStr? e "ins"
        let toks' ← (← getArr? e "toks").mapM parseRow
        let g' := g.ext p ins.toList toks'
        let k := ins.toList.length
        -- the extended input is longer: give it the fuel the harness computed for the longest variant
        let o' := run g' top skipws ws.toList fuel
        pure <| Json.mkObj [
          ("input", Json.str (String.ofList g'.input.toList)),
          ("ok", Json.bool (gapExtOkB g p ins.toList toks' skipws ws.toList)),
          ("modes", Json.bool (modesSkipB g ins.toList)),
          ("compat", Json.bool (tokCompatB g g' p k)),
          ("rows", Json.bool (rowsOkB g && rowsOkB g')),
          ("out", outToJson o'),
          ("rel", Json.bool (outRelB p k o o'))]
      pure <| Json.mkObj [("orig", outToJson o), ("exts", Json.arr exts)]
    r.getD badOp
  | _ => badOp

def parseParamSrc (j : Json) : Option ParamSrc :=
  match getStr? j "flag", getStr? j "ws" with
  | some f, none => some (.flag f)
  | none, some raw => some (.ws raw.toList)
  | _, _ => none

def modsToJson : Option RuleMods → Json
  | none => Json.mkObj [("rejected", Json.bool true)]
  | some m => Json.mkObj [
      ("skipws", match m.skipws with | some b => Json.bool b | none => Json.null),
      ("ws", match m.ws with | some w => Json.str (String.ofList w) | none => Json.null)]

def handleMods (j : Json) : Option Json := do
  let ps ← (← asArr? j).mapM parseParamSrc
  pure (modsToJson (ruleMods ps.toList {}))

def parseStrList (j : Json) (k : String) : Option (List String) := do
  let a ← getArr? j k
  (a.mapM asStr?).map Array.toList

def parseGFile (j : Json) : Option GFile := do
  pure { name := ← getStr? j "name", defines := ← parseStrList j "defines", imports := ← parseStrList j "imports" }

def parseMMCfg (j : Json) : Option MMCfg := do
  let skipws ← optField j "skipws" asBool?
  let ws ← optField j "ws" (fun v => (asStr? v).map String.toList)
  let memo ← optField j "memoization" asBool?
  let debug ← optField j "debug" asBool?
  pure { skipws := skipws.getD true, ws := ws, memoization := memo.getD false, debug := debug.getD false }

/-- the optional set-up fields of a `multi` request; `none`: present but undecodable -/
def handleSetup (j : Json) : Option (List (String × Json)) := do
  let a ← match getObj? j "files" with
    | none => pure []
    | some fs => do
      let files ← (← asArr? fs).mapM parseGFile
      let main ← files[0]?
      pure [("comment_owner", match commentOwner files.toList main with | some n => Json.str n | none => Json.null)]
  let b ← match getObj? j "cfg" with
    | none => pure []
    | some c => do
      let cfg ← parseMMCfg c
      let hist ← (← getArr? j "hist").mapM parseMMCfg
      let pc := parserCfgAfter hist.toList cfg
      pure [("pcfg", Json.mkObj [("skipws", Json.bool pc.skipws), ("ws", Json.str (String.ofList pc.ws)),
                                 ("memo", Json.bool pc.memo)])]
  pure (a ++ b)

/-- {"op":"multi","reqs":[gapext requests],"mods":[…]} → {"outs":[…],"mods":[…]} -/
def handle (j : Json) : Json :=
  match getStr? j "op" with
  | some "multi" =>
    match getArr? j "reqs", getArr? j "mods", handleSetup j with
    | some reqs, some mods, some extra =>
      match mods.mapM handleMods with
      | some ms => Json.mkObj ([("outs", Json.arr (reqs.map handle1)), ("mods", Json.arr ms)] ++ extra)
      | none => badOp
    | _, _, _ => badOp
  | _ => handle1 j

def main : IO Unit := serve handle
