import TextxVerif.Wire
import TextxVerif.RuleTypes
import TextxVerif.RuleTypesTree
/-! Driver for the rule-kind model (C03).
request:
  {"op":"check","rules":[{"attrs":bool,"body":B}…],"trees":[T…]}
    B = "l" | {"r":n} | {"s":[B…]} | {"c":[B…]} | {"o":[B…]}
    T = {"t":matched text,"v":text of the converted value} | {"n":rule,"k":[T…]} | {"a":attr,"k":[T…]}
answer:
  {"ok":bool,"kinds":["match"|"abstract"|"common"…],"inh":[[n…]…],
   "isinst":[[o,[R…]]…]   (for every rule o with assignments: the rules R with isInstance o R),
   "vals":[V…],            V = {"p":text} | {"o":rule,"a":[[attr,[V…]]…]}
   "wf":[bool…]}           per tree: `treeOK` — the children of every abstract rule's node derive from the rule's body
  {"err":"bad-op"} for an undecodable request, {"err":"not-wf"} for a dangling reference
-/
open Lean Wire RuleTypes

partial def parseBody (j : Json) : Option Body :=
  match j with
  | .str "l" => some .lit
  | _ =>
    match getNat? j "r" with
    | some r => some (.ref r)
    | none =>
      let sub (key : String) : Option (List Body) := do
        let a ← getArr? j key
        a.toList.mapM parseBody
      match sub "s" with
      | some xs => some (.seq xs)
      | none =>
        match sub "c" with
        | some xs => some (.choice xs)
        | none =>
          match sub "o" with
          | some xs => some (.other xs)
          | none => none

def parseRule (j : Json) : Option Rule := do
  let a ← getBool? j "attrs"
  let b ← (← getObj? j "body") |> parseBody
  pure ⟨a, b⟩

partial def parsePT (j : Json) : Option PT :=
  match getStr? j "t" with
  | some t => do
    let v ← getStr? j "v"
    pure (.term t v)
  | none => do
    let ks ← (← getArr? j "k").toList.mapM parsePT
    match getNat? j "n" with
    | some r => pure (.nt r ks)
    | none =>
      let a ← getStr? j "a"
      pure (.asgn a ks)

partial def valJson : Val → Json
  | .prim t => Json.mkObj [("p", t)]
  | .obj r attrs =>
    Json.mkObj [("o", toJson r),
      ("a", Json.arr (attrs.map fun (a, vs) => Json.arr #[Json.str a, Json.arr (vs.map valJson).toArray]).toArray)]

def kindName : Kind → String
  | .mtch => "match"
  | .abstr => "abstract"
  | .common => "common"

def handle (j : Json) : Json :=
  match getStr? j "op" with
  | some "check" =>
    match (getArr? j "rules").bind (fun a => a.toList.mapM parseRule),
          (getArr? j "trees").bind (fun a => a.toList.mapM parsePT) with
    | some g, some trees =>
      if wf g then
        let res := determineAll g
        let n := g.length
        let idx := List.range n
        -- tabulate the kinds and the inheritance lists once (the model functions are pure)
        let kTab := (idx.map res.1).toArray
        let k : Kinds := fun r => kTab.getD r .mtch
        let inhTab := (idx.map (inhBy g k)).toArray
        let inh : Nat → List Nat := fun r => inhTab.getD r []
        let objRules := idx.filter fun o => (g.getD o ⟨false, .lit⟩).hasAttrs
        Json.mkObj [
          ("ok", toJson res.2),
          ("kinds", toJson (idx.map fun r => kindName (k r))),
          ("inh", toJson inhTab),
          ("isinst", Json.arr (objRules.map fun o =>
              Json.arr #[toJson o, toJson (idx.filter fun R => (dfs inh o (n + 1) R []).1)]).toArray),
          ("vals", Json.arr (trees.map fun t => valJson (proc k t)).toArray),
          ("wf", toJson (trees.map fun t => treeOK g k t))]
      else Json.mkObj [("err", "not-wf")]
    | _, _ => badOp
  | _ => badOp

def main : IO Unit := serve handle
