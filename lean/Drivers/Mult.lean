import TextxVerif.Wire
import TextxVerif.Mult
import TextxVerif.MultRef
/-! Driver for the multiplicity / assignment-store model (C02).

Body   B ::= {"k":"leaf"} | {"k":"asgn","a":n,"op":"="|"?="|"*="|"+="} | {"k":"seq","xs":[B]}
           | {"k":"alt","xs":[B]} | {"k":"opt","x":B} | {"k":"rep","plus":bool,"x":B} | {"k":"un","xs":[B]}
Value  W ::= {"t":bool,"v":json}          (t = Python truthiness of the value)
Kid    K ::= {"r":n,"t":bool,"v":json}   (child of a list assignment node: r = identity of the parsing
                                            expression that made it, v = its converted value)
Event  E ::= {"a":n,"op":"="|"?=","vs":[W]}            (exactly one value)
           | {"a":n,"op":"*="|"+=","sep":n|null,"kids":[K]}   (the raw node: all children, sep = identity of the
                                            separator match of the repeat modifiers; the model skips the
                                            children made by it — `Mult.storeKids`)
           | {"a":n,"op":"*="|"+=","vs":[W]}            (short form: no separator, every child a value)

ops:
  {"op":"mult","body":B,"attrs":[n…]}
      → {"rej":null|"bool-multi"|"bool-rep","mults":[str…],"counts":[str…],"wf":bool}
  {"op":"obj","body":B,"attrs":[n…],"trace":[E…]}
      → the same plus {"obj":O},  O ::= {"accepts":bool,"store":{"ok":[S…]}|{"err":"multAssign"|"crash"}}
        S ::= {"none":true} | {"scalar":json} | {"list":[json…]}
        plus "lists":[[json…]…] — per list assignment node of the trace the values the model keeps
  {"op":"case","rules":[{"params":bool,"body":B,"attrs":[n…]}…],"objs":[{"rule":i,"trace":[E…]}…]}
      → {"rules":[static output per rule],"objs":[O…]}
      params = the rule carries rule modifiers; body = the body as the body visitors return it; the model
      works on the root expression `visit_textx_rule` makes of the two (`Mult.Rule.root`) and also returns
      it: "wrapped":bool
      an object may carry "refs":[{"n":n,"refs":[{"d":n,"p":n,"v":json}…]}…] — per reference list of the object the
      references in the order process_node recorded them (d = resolution steps answered Postponed first,
      p = text position, v = value; n = the largest d); O then has "reflists":[[json…]…] = the list after
      the resolution (`Mult.Ref.resolveAll (scheduleOf n refs)`)
-/
open Lean Wire Mult

abbrev W := Bool × Json

def parseOp (s : String) : Option Op :=
  match s with
  | "=" => some .plain | "?=" => some .bool | "*=" => some .star | "+=" => some .plus | _ => none

partial def parseBody (j : Json) : Option Body := do
  let k ← getStr? j "k"
  match k with
  | "leaf" => pure .leaf
  | "asgn" => pure (.asgn (← getNat? j "a") (← parseOp (← getStr? j "op")))
  | "seq" => pure (.seq (← (← getArr? j "xs").toList.mapM parseBody))
  | "alt" => pure (.choice (← (← getArr? j "xs").toList.mapM parseBody))
  | "un" => pure (.unordered (← (← getArr? j "xs").toList.mapM parseBody))
  | "opt" => pure (.opt (← parseBody (← getObj? j "x")))
  | "rep" => pure (.rep (← getBool? j "plus") (← parseBody (← getObj? j "x")))
  | _ => none

def parseW (j : Json) : Option W := do
  pure (← getBool? j "t", ← getObj? j "v")

def parseKid (j : Json) : Option (Kid W) := do
  pure { rule := ← getNat? j "r", val := (← getBool? j "t", ← getObj? j "v") }

/-- `"sep"` must be present for the raw form: a number or null -/
def parseSep (j : Json) : Option (Option Nat) :=
  match getObj? j "sep" with
  | some Json.null => some none
  | some x => (asNat? x).map some
  | none => none

def parseEv (j : Json) : Option (Raw W) := do
  let a ← getNat? j "a"
  let op ← parseOp (← getStr? j "op")
  match op with
  | .plain | .bool =>
    match (← (← getArr? j "vs").toList.mapM parseW) with
    | [v] => pure (if op == .plain then .plain a v else .bool a v)
    | _ => none
  | .star | .plus =>
    match getArr? j "kids" with
    | some ks => pure (.list a (op == .plus) (← parseSep j) (← ks.toList.mapM parseKid))
    | none =>
      let vs ← (← getArr? j "vs").toList.mapM parseW
      pure (.list a (op == .plus) none (vs.map fun v => { rule := 0, val := v }))

def multStr : M → String
  | .opt => "0..1" | .one => "1" | .zeroMore => "0..*" | .oneMore => "1..*"

def cntStr : Cnt → String
  | .zero => "zero" | .one => "one" | .many => "many"

def staticOut (b : Body) (attrs : List Nat) : List (String × Json) :=
  let rej : Json :=
    if (visit (asgns b)).rej then "bool-multi" else if (infer b).rej then "bool-rep" else Json.null
  [("rej", rej),
   ("mults", toJson (attrs.map fun a => multStr (multOf b a))),
   ("counts", toJson (attrs.map fun a => cntStr (count a b))),
   ("wf", toJson b.wf)]

def slotJson : Slot W → Json
  | .none => Json.mkObj [("none", true)]
  | .scalar v => Json.mkObj [("scalar", v.2)]
  | .list vs => Json.mkObj [("list", toJson (vs.map (·.2)))]

def objOut (b : Body) (attrs : List Nat) (t : List (Raw W)) : Json :=
  let st : Json :=
    match peek (storeRaw (fun w : W => w.1) (initHeap (multOf b) (fun _ => Slot.none)) t) attrs with
    | .inr slots => Json.mkObj [("ok", toJson (slots.map slotJson))]
    | .inl .multAssign => Json.mkObj [("err", "multAssign")]
    | .inl .crash => Json.mkObj [("err", "crash")]
  let lists : List Json := t.filterMap fun e =>
    match e with
    | .list _ _ sep ks => some (toJson ((kidVals sep ks).map (·.2)))
    | _ => none
  Json.mkObj [("accepts", toJson (accepts b (t.map Raw.ev))), ("store", st), ("lists", toJson lists)]

def parseRule (j : Json) : Option (Body × List Nat) := do
  let r : Rule := { params := ← getBool? j "params", body := ← parseBody (← getObj? j "body") }
  pure (r.root, ← getNatList? j "attrs")

/-- is the root the one-element sequence wrapped around the body? (never a sequence otherwise: the
body visitors reduce one-element sequences) -/
def wrapped (root : Body) : Bool :=
  match root with
  | .seq [_] => true
  | _ => false

def parseRef (j : Json) : Option (Nat × Nat × Json) := do
  pure (← getNat? j "d", ← getNat? j "p", ← getObj? j "v")

def parseRefList (j : Json) : Option Json := do
  let n ← getNat? j "n"
  let refs ← (← getArr? j "refs").toList.mapM parseRef
  if refs.any (fun r => r.1 > n) then none
  else pure (toJson (Mult.Ref.resolveAll (Mult.Ref.scheduleOf n refs)).vals)

def parseObj (rules : Array (Body × List Nat)) (j : Json) : Option Json := do
  let r ← getNat? j "rule"
  let (b, attrs) ← rules[r]?
  let t ← (← getArr? j "trace").toList.mapM parseEv
  match getObj? j "refs" with
  | none => pure (objOut b attrs t)
  | some _ =>
    let rl ← (← getArr? j "refs").toList.mapM parseRefList
    pure ((objOut b attrs t).setObjVal! "reflists" (toJson rl))

def handle (j : Json) : Json :=
  match getStr? j "op" with
  | some "mult" =>
    match (getObj? j "body").bind parseBody, getNatList? j "attrs" with
    | some b, some attrs => Json.mkObj (staticOut b attrs)
    | _, _ => badOp
  | some "obj" =>
    match (getObj? j "body").bind parseBody, getNatList? j "attrs",
          (getArr? j "trace").bind (fun a => a.toList.mapM parseEv) with
    | some b, some attrs, some t =>
      Json.mkObj (staticOut b attrs ++ [("obj", objOut b attrs t)])
    | _, _, _ => badOp
  | some "case" =>
    match (getArr? j "rules").bind (fun a => a.toList.mapM parseRule) with
    | some rules =>
      match (getArr? j "objs").bind (fun a => a.toList.mapM (parseObj rules.toArray)) with
      | some objs =>
        Json.mkObj [("rules", toJson (rules.map fun (b, attrs) =>
                      Json.mkObj (staticOut b attrs ++ [("wrapped", toJson (wrapped b))]))),
                    ("objs", toJson objs)]
      | none => badOp
    | none => badOp
  | _ => badOp

def main : IO Unit := serve handle
