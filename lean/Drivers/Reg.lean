import TextxVerif.Wire
import TextxVerif.Reg
/-! Driver for the registry machine (C26).
request  {"op":"run","eps":[[uid,name,pattern|null,mm]…],"geps":[[uid,lang,target]…],"ops":[op…]}
  mm  = "f" (factory) | "b" (factory returning a non-meta-model) | "n" (not callable) | k (instance k)
  op  = ["reg_lang",uid,name,pattern|null,mm] | ["lang",name] | ["lang_keys"] | ["clear_langs"]
      | ["mm",name,kw] | ["files",f] | ["file",f] | ["mms_file",f] | ["mm_file",f,kw]
      | ["reg_gen",uid,lang,target] | ["gen",lang,target,any] | ["gen_keys"] | ["clear_gens"]
answer   {"res":[r…]}
  r   = ["unit"] | ["desc",uid,name,pattern|null] | ["descs",[[uid,name,pattern]…]] | ["keys",[k…]]
      | ["mm",m] | ["mms",[m…]] | ["gen",uid] | ["gkeys",[[l,t]…]] | ["reg_error"] | ["type_error"]
  m   = ["given",uid] | ["made",serial,by,kw]
{"op":"glob","pat":p,"file":f} → {"match":bool}   (the fnmatch model alone, classes included)
-/
open Lean Wire Reg

def parseMM (j : Json) : Option MMSrc :=
  match asStr? j with
  | some "f" => some .factory
  | some "b" => some .badFactory
  | some "n" => some .notCallable
  | some _ => none
  | none => (asNat? j).map .inst

def parsePat (j : Json) : Option (Option String) :=
  if j.isNull then some none else (asStr? j).map some

def parseLang (xs : List Json) : Option LangDesc :=
  match xs with
  | [u, n, p, m] => do
      pure { uid := ← asNat? u, name := ← asStr? n, pattern := ← parsePat p, mm := ← parseMM m }
  | _ => none

def parseGen (xs : List Json) : Option GenDesc :=
  match xs with
  | [u, l, t] => do pure { uid := ← asNat? u, language := ← asStr? l, target := ← asStr? t }
  | _ => none

def parseOp (j : Json) : Option Op := do
  let xs ← asArr? j
  match xs.toList with
  | tag :: args =>
    match ← asStr? tag, args with
    | "reg_lang", args => (parseLang args).map .regLang
    | "lang", [n] => (asStr? n).map .lang
    | "lang_keys", [] => some .langKeys
    | "clear_langs", [] => some .clearLangs
    | "mm", [n, k] => do pure (.mmLang (← asStr? n) (← asNat? k))
    | "files", [f] => (asStr? f).map .langsForFile
    | "file", [f] => (asStr? f).map .langForFile
    | "mms_file", [f] => (asStr? f).map .mmsForFile
    | "mm_file", [f, k] => do pure (.mmForFile (← asStr? f) (← asNat? k))
    | "reg_gen", args => (parseGen args).map .regGen
    | "gen", [l, t, a] => do pure (.gen (← asStr? l) (← asStr? t) (← asBool? a))
    | "gen_keys", [] => some .genKeys
    | "clear_gens", [] => some .clearGens
    | _, _ => none
  | [] => none

def patJson : Option String → Json
  | none => Json.null
  | some p => toJson p

def descJson (d : LangDesc) : List Json := [toJson d.uid, toJson d.name, patJson d.pattern]

def mmJson : MM → Json
  | .given u => Json.arr #["given", toJson u]
  | .made s b k => Json.arr #["made", toJson s, toJson b, toJson k]

def resJson : Res → Json
  | .unit => Json.arr #["unit"]
  | .desc d => Json.arr (("desc" : Json) :: descJson d).toArray
  | .descs ds => Json.arr #["descs", Json.arr (ds.map (fun d => Json.arr (descJson d).toArray)).toArray]
  | .keys ks => Json.arr #["keys", toJson ks]
  | .mm m => Json.arr #["mm", mmJson m]
  | .mms ms => Json.arr #["mms", Json.arr (ms.map mmJson).toArray]
  | .gen g => Json.arr #["gen", toJson g.uid]
  | .gkeys ks => Json.arr #["gkeys", Json.arr (ks.map (fun p => Json.arr #[toJson p.1, toJson p.2])).toArray]
  | .regError => Json.arr #["reg_error"]
  | .typeError => Json.arr #["type_error"]

def handle (j : Json) : Json :=
  match getStr? j "op" with
  | some "run" =>
    let eps := (getArr? j "eps").bind fun a => a.toList.mapM fun e => (asArr? e).bind fun xs => parseLang xs.toList
    let geps := (getArr? j "geps").bind fun a => a.toList.mapM fun e => (asArr? e).bind fun xs => parseGen xs.toList
    let ops := (getArr? j "ops").bind fun a => a.toList.mapM parseOp
    match eps, geps, ops with
    | some eps, some geps, some ops =>
      let r := run (asciiEnv eps geps) St.init ops
      Json.mkObj [("res", Json.arr (r.2.map resJson).toArray)]
    | _, _, _ => badOp
  | some "glob" =>
    match getStr? j "pat", getStr? j "file" with
    | some p, some f => Json.mkObj [("match", toJson (fnMatch p.toList f.toList))]
    | _, _ => badOp
  | _ => badOp

def main : IO Unit := serve handle
