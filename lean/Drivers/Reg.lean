import TextxVerif.Wire
import TextxVerif.Reg
/-! Driver for the registry machine (C26).
request  {"op":"run","eps":[[uid,name,pattern|null,mm]…],"geps":[[uid,lang,target]…],"ops":[op…]}
  mm  = "f" (factory) | "b" (factory returning a non-meta-model) | "n" (not callable) | k (instance k)
  op  = ["reg_lang",uid,name,pattern|null,mm] | ["lang",name] | ["lang_keys"] | ["clear_langs"]
      | ["mm",name,kw] | ["files",f] | ["file",f] | ["mms_file",f] | ["mm_file",f,kw]
      | ["reg_gen",uid,lang,target] | ["gen",lang,target,any] | ["gen_keys"] | ["clear_gens"]
answer   {"res":[r…],"live":[uid…],"glive":[uid…],"hits":[[j,i]…],"um":[[i,uid|null]…],"mms":[[i,[uid…]]…],"own":[[i,uid|null]…]}
  `res` is the machine (`Reg.run`); the other fields are the *history-level* notions the C26 theorems are
  stated in, computed without the machine: `live` / `gLive` after the history; `hits` = pairs of request
  positions for which `C26_cache_hit_until` / `C26_cache_hit_file` say "if call j answered a meta-model,
  the argument-less call i answers the same object" (`sparesAll` over the calls in between); `um` = for
  every `mm_file` call the one live language accepting the file (`UniqueMatch`, `C26_mm_for_file`);
  `mms` = for every `mms_file` call the live languages accepting the file (`C26_mms_for_file`);
  `own` = for every `mm` call the live language of that name up to case (`C26_cache_not_stale`, `C26_cache_fresh`)
  r   = ["unit"] | ["desc",uid,name,pattern|null] | ["descs",[[uid,name,pattern]…]] | ["keys",[k…]]
      | ["mm",m] | ["mms",[m…]] | ["gen",uid] | ["gkeys",[[l,t]…]] | ["reg_error"] | ["type_error"]
  m   = ["given",uid] | ["made",serial,by,kw]
{"op":"glob","pat":p,"file":f} → {"match":bool}   (the fnmatch model alone, classes included)
-/
open Lean Wire Reg

def parseMM (j : Json) : Option MMSrc :=
  match asStr? j with
  | some "f" => some .factory
  | some "b" => some .badFactory
  | some "n" => some .notCallable
  | some _ => none
  | none => (asNat? j).map .inst

def parsePat (j : Json) : Option (Option String) :=
  if j.isNull then some none else (asStr? j).map some

def parseLang (xs : List Json) : Option LangDesc :=
  match xs with
  | [u, n, p, m] => do
      pure { uid := ← asNat? u, name := ← asStr? n, pattern := ← parsePat p, mm := ← parseMM m }
  | _ => none

def parseGen (xs : List Json) : Option GenDesc :=
  match xs with
  | [u, l, t] => do pure { uid := ← asNat? u, language := ← asStr? l, target := ← asStr? t }
  | _ => none

def parseOp (j : Json) : Option Op := do
  let xs ← asArr? j
  match xs.toList with
  | tag :: args =>
    match ← asStr? tag, args with
    | "reg_lang", args => (parseLang args).map .regLang
    | "lang", [n] => (asStr? n).map .lang
    | "lang_keys", [] => some .langKeys
    | "clear_langs", [] => some .clearLangs
    | "mm", [n, k] => do pure (.mmLang (← asStr? n) (← asNat? k))
    | "files", [f] => (asStr? f).map .langsForFile
    | "file", [f] => (asStr? f).map .langForFile
    | "mms_file", [f] => (asStr? f).map .mmsForFile
    | "mm_file", [f, k] => do pure (.mmForFile (← asStr? f) (← asNat? k))
    | "reg_gen", args => (parseGen args).map .regGen
    | "gen", [l, t, a] => do pure (.gen (← asStr? l) (← asStr? t) (← asBool? a))
    | "gen_keys", [] => some .genKeys
    | "clear_gens", [] => some .clearGens
    | _, _ => none
  | [] => none

def patJson : Option String → Json
  | none => Json.null
  | some p => toJson p

def descJson (d : LangDesc) : List Json := [toJson d.uid, toJson d.name, patJson d.pattern]

def mmJson : MM → Json
  | .given u => Json.arr #["given", toJson u]
  | .made s b k => Json.arr #["made", toJson s, toJson b, toJson k]

def resJson : Res → Json
  | .unit => Json.arr #["unit"]
  | .desc d => Json.arr (("desc" : Json) :: descJson d).toArray
  | .descs ds => Json.arr #["descs", Json.arr (ds.map (fun d => Json.arr (descJson d).toArray)).toArray]
  | .keys ks => Json.arr #["keys", toJson ks]
  | .mm m => Json.arr #["mm", mmJson m]
  | .mms ms => Json.arr #["mms", Json.arr (ms.map mmJson).toArray]
  | .gen g => Json.arr #["gen", toJson g.uid]
  | .gkeys ks => Json.arr #["gkeys", Json.arr (ks.map (fun p => Json.arr #[toJson p.1, toJson p.2])).toArray]
  | .regError => Json.arr #["reg_error"]
  | .typeError => Json.arr #["type_error"]

/-! history-level predictions (functions of the history alone; no `step`) -/

/-- the live languages before each call -/
def livesBefore (E : Env) (ops : List Op) : List (List LangDesc) :=
  (ops.foldl (fun (acc : List (List LangDesc) × List LangDesc) op =>
    (acc.1 ++ [acc.2], liveStep E acc.2 op)) ([], E.eps)).1

/-- the `d` with `UniqueMatch E l f d`, if any -/
def uniqueOf (E : Env) (l : List LangDesc) (f : String) : Option LangDesc :=
  l.find? fun d => patMatches E f d && l.all fun d' => !patMatches E f d' || d' == d

/-- folded name and kwargs of a single-language meta-model request -/
def keyOf (E : Env) (l : List LangDesc) : Op → Option (String × Nat)
  | .mmLang n kw => some (E.lower n, kw)
  | .mmForFile f kw => (uniqueOf E l f).map fun d => (E.lower d.name, kw)
  | _ => none

def hitPairs (E : Env) (ops : List Op) : List (Nat × Nat) :=
  let lv := livesBefore E ops
  (List.range ops.length).filterMap fun i =>
    match keyOf E (lv.getD i []) (ops.getD i .langKeys) with
    | some (k, 0) =>
      match (List.range i).reverse.find? (fun j =>
          match keyOf E (lv.getD j []) (ops.getD j .langKeys) with
          | some (k', _) => k' == k
          | none => false) with
      | some j =>
        if sparesAll E k (lv.getD j []) ((ops.drop (j + 1)).take (i - j - 1)) then some (j, i) else none
      | none => none
    | _ => none

def predictions (E : Env) (ops : List Op) : List (String × Json) :=
  let lv := livesBefore E ops
  let at_ := (List.range ops.length).zip (ops.zip lv)
  let um := at_.filterMap fun (i, op, l) =>
    match op with
    | .mmForFile f _ =>
      some (Json.arr #[toJson i, match uniqueOf E l f with | some d => toJson d.uid | none => Json.null])
    | _ => none
  let mms := at_.filterMap fun (i, op, l) =>
    match op with
    | .mmsForFile f => some (Json.arr #[toJson i, toJson ((l.filter (patMatches E f)).map (·.uid))])
    | _ => none
  let own := at_.filterMap fun (i, op, l) =>
    match op with
    | .mmLang n _ =>
      some (Json.arr #[toJson i, match l.find? (fun d => E.lower d.name == E.lower n) with
                                 | some d => toJson d.uid | none => Json.null])
    | _ => none
  [("own", Json.arr own.toArray), ("live", toJson ((live E ops).map (·.uid))), ("glive", toJson ((gLive E ops).map (·.uid))),
   ("hits", Json.arr ((hitPairs E ops).map fun p => Json.arr #[toJson p.1, toJson p.2]).toArray),
   ("um", Json.arr um.toArray), ("mms", Json.arr mms.toArray)]

def handle (j : Json) : Json :=
  match getStr? j "op" with
  | some "run" =>
    let eps := (getArr? j "eps").bind fun a => a.toList.mapM fun e => (asArr? e).bind fun xs => parseLang xs.toList
    let geps := (getArr? j "geps").bind fun a => a.toList.mapM fun e => (asArr? e).bind fun xs => parseGen xs.toList
    let ops := (getArr? j "ops").bind fun a => a.toList.mapM parseOp
    match eps, geps, ops with
    | some eps, some geps, some ops =>
      let r := run (asciiEnv eps geps) St.init ops
      Json.mkObj (("res", Json.arr (r.2.map resJson).toArray) :: predictions (asciiEnv eps geps) ops)
    | _, _, _ => badOp
  | some "glob" =>
    match getStr? j "pat", getStr? j "file" with
    | some p, some f => Json.mkObj [("match", toJson (fnMatch p.toList f.toList))]
    | _, _ => badOp
  | _ => badOp

def main : IO Unit := serve handle
