import TextxVerif.Wire
import TextxVerif.Repo
import TextxVerif.RepoEntry
/-! Driver for the model-repository machine (C17, C18).
op:
  {"op":"history","glob":bool,"perRef":bool,"builtins":[[name…]…],
   "steps":[{"main":f,"files":[FILE…]
             ,"kind":"file"|"str"|"preload"          (optional, default "file")
             ,"text":FILE                            (kind str: the model without file name)
             ,"calls":[[f…]…]                        (kind preload: the registered patterns, expanded)
            }…]}
  FILE = {"stmts":[[f…]…],"defs":[n…],"refs":[n…],"syn":bool,"objf":bool,"modf":bool}
  → {"steps":[{"res":tag,"reads":[f…],"ret":i,"all":[[f,i]…],"next":n,
               "locs":[[i,file,[[f,j]…]]…],"tgt":[[i,[["e",j,n]|["b",k,n]…]]…],
               "unres":[[f,n]…]}…]}
  "unres" = `Repo.unresolved`: the references of the texts parsed in this step that have no visible
  definition (`Repo.visible`, the subject of C18_semantic_cause / C18_repair_succeeds) for a load starting
  from the dict before the step.
  Every step is `Repo.Op.run` (the step function of the histories of C17_history_wf) with fuel #files + 1.
  file = `Repo.loadMain` (model_from_file; model_from_str with file_name: the read of the main file
  is the parse of the string), str = `Repo.loadStr` (file numbers ≥ #files are the invented names
  anonymous0, anonymous1, …; "ret" meaningless unless ok), preload = `Repo.preload` on the dict of
  the global repository, or of a fresh repository when glob is false ("ret" meaningless).
-/
open Lean Wire Repo

structure FileSpec where
  stmts : List (List File)
  defs : List Repo.Name
  refs : List Repo.Name
  syn : Bool
  objf : Bool
  modf : Bool

def parseFile (j : Json) : Option FileSpec := do
  let st ← getArr? j "stmts"
  let stmts ← st.toList.mapM asNatList?
  pure { stmts, defs := ← getNatList? j "defs", refs := ← getNatList? j "refs",
         syn := ← getBool? j "syn", objf := ← getBool? j "objf", modf := ← getBool? j "modf" }

def mkSpec (glob perRef : Bool) (builtins : List (List Repo.Name)) (fs : Array FileSpec)
    (text : FileSpec := { stmts := [], defs := [], refs := [], syn := false, objf := false, modf := false }) : Spec :=
  -- every number beyond the files is an invented name: the model given as a string
  let get (f : File) : FileSpec := fs.getD f text
  { calls := fun f => mkCalls (if perRef then (get f).refs.length else 1) (get f).stmts
    defs := fun f => (get f).defs
    refs := fun f => (get f).refs
    syntaxErr := fun f => (get f).syn
    objFault := fun f => (get f).objf
    modFault := fun f => (get f).modf
    builtins := builtins
    glob := glob }

def resTag : Res → String
  | .ok => "ok" | .fuel => "fuel"
  | .fail .syntax => "syntax" | .fail .io => "io" | .fail .semantic => "semantic"
  | .fail .objproc => "objproc" | .fail .modproc => "modproc"

def dictJson (d : Dict) : Json := toJson (d.map fun e => [e.1, e.2])

def tgtJson : Target → Json
  | .elem i n => Json.arr #["e", toJson i, toJson n]
  | .builtin k n => Json.arr #["b", toJson k, toJson n]

def stepJson (S : Spec) (before : St) (st : St) (r : Res) (ret : Inst) : Json :=
  let insts := List.range st.next
  let newReads := (st.reads.take (st.reads.length - before.reads.length)).reverse
  let b : St := if S.glob then before else { before with all := [] }
  Json.mkObj [
    ("unres", toJson ((unresolved S b newReads).map fun e => [e.1, e.2])),
    ("res", resTag r),
    ("reads", toJson ((st.reads.take (st.reads.length - before.reads.length)).reverse)),
    ("ret", toJson ret),
    ("all", dictJson st.all),
    ("next", toJson st.next),
    ("locs", Json.arr (insts.map fun i => Json.arr #[toJson i, toJson (st.fileOf i), dictJson (st.loc i)]).toArray),
    ("tgt", Json.arr (insts.map fun i => Json.arr #[toJson i, Json.arr ((st.tgt i).map tgtJson).toArray]).toArray)]

inductive StepKind
  | file (main : File)
  | str (text : FileSpec)
  | preload (calls : List (List File))

def parseStep (j : Json) : Option (StepKind × Array FileSpec) := do
  let fa ← getArr? j "files"
  let fs ← fa.toList.mapM parseFile
  let n := fs.length
  if fs.any (fun f => f.stmts.any (·.any (· ≥ n))) then none
  let kind ← match j.getObjVal? "kind" with
    | .ok k => k.getStr?.toOption
    | .error _ => some "file"
  match kind with
  | "file" =>
    let main ← getNat? j "main"
    if main ≥ n then none
    pure (.file main, fs.toArray)
  | "str" =>
    let t ← (j.getObjVal? "text").toOption
    let text ← parseFile t
    if text.stmts.any (·.any (· ≥ n)) then none
    pure (.str text, fs.toArray)
  | "preload" =>
    let ca ← getArr? j "calls"
    let calls ← ca.toList.mapM asNatList?
    if calls.any (·.any (· ≥ n)) then none
    pure (.preload calls, fs.toArray)
  | _ => none

def runSteps (glob perRef : Bool) (builtins : List (List Repo.Name)) :
    St → List (StepKind × Array FileSpec) → List Json → List Json
  | _, [], acc => acc.reverse
  | st, (kind, fs) :: rest, acc =>
    -- the files as they are at this load; a model given as a string is every number beyond the files
    let (S, op) : Spec × Op := match kind with
      | .file main => (mkSpec glob perRef builtins fs, Op.file main)
      | .str text => (mkSpec glob perRef builtins fs text, Op.str fs.size)
      | .preload calls => (mkSpec glob perRef builtins fs, Op.preload (mkCalls 1 calls))
    let (st', r, ret) := op.run S (fs.size + 1) st
    runSteps glob perRef builtins st' rest (stepJson S st st' r ret :: acc)

def handle (j : Json) : Json :=
  match getStr? j "op" with
  | some "history" =>
    match getBool? j "glob", getBool? j "perRef",
          (getArr? j "builtins").bind (·.toList.mapM asNatList?),
          (getArr? j "steps").bind (·.toList.mapM parseStep) with
    | some glob, some perRef, some builtins, some steps =>
      Json.mkObj [("steps", Json.arr (runSteps glob perRef builtins St.init steps []).toArray)]
    | _, _, _, _ => badOp
  | _ => badOp

def main : IO Unit := serve handle
