import TextxVerif.Wire
import TextxVerif.Repo
/-! Driver for the model-repository machine (C17, C18).
op:
  {"op":"history","glob":bool,"perRef":bool,"builtins":[[name…]…],
   "steps":[{"main":f,"files":[{"stmts":[[f…]…],"defs":[n…],"refs":[n…],"syn":bool,"objf":bool,"modf":bool}…]}…]}
  → {"steps":[{"res":tag,"reads":[f…],"ret":i,"all":[[f,i]…],"next":n,
               "locs":[[i,file,[[f,j]…]]…],"tgt":[[i,[["e",j,n]|["b",k,n]…]]…]}…]}
-/
open Lean Wire Repo

structure FileSpec where
  stmts : List (List File)
  defs : List Repo.Name
  refs : List Repo.Name
  syn : Bool
  objf : Bool
  modf : Bool

def parseFile (j : Json) : Option FileSpec := do
  let st ← getArr? j "stmts"
  let stmts ← st.toList.mapM asNatList?
  pure { stmts, defs := ← getNatList? j "defs", refs := ← getNatList? j "refs",
         syn := ← getBool? j "syn", objf := ← getBool? j "objf", modf := ← getBool? j "modf" }

def mkSpec (glob perRef : Bool) (builtins : List (List Repo.Name)) (fs : Array FileSpec) : Spec :=
  let get (f : File) : FileSpec := fs.getD f { stmts := [], defs := [], refs := [], syn := false, objf := false, modf := false }
  { calls := fun f => mkCalls (if perRef then (get f).refs.length else 1) (get f).stmts
    defs := fun f => (get f).defs
    refs := fun f => (get f).refs
    syntaxErr := fun f => (get f).syn
    objFault := fun f => (get f).objf
    modFault := fun f => (get f).modf
    builtins := builtins
    glob := glob }

def resTag : Res → String
  | .ok => "ok" | .fuel => "fuel"
  | .fail .syntax => "syntax" | .fail .io => "io" | .fail .semantic => "semantic"
  | .fail .objproc => "objproc" | .fail .modproc => "modproc"

def dictJson (d : Dict) : Json := toJson (d.map fun e => [e.1, e.2])

def tgtJson : Target → Json
  | .elem i n => Json.arr #["e", toJson i, toJson n]
  | .builtin k n => Json.arr #["b", toJson k, toJson n]

def stepJson (before : St) (st : St) (r : Res) (ret : Inst) : Json :=
  let insts := List.range st.next
  Json.mkObj [
    ("res", resTag r),
    ("reads", toJson ((st.reads.take (st.reads.length - before.reads.length)).reverse)),
    ("ret", toJson ret),
    ("all", dictJson st.all),
    ("next", toJson st.next),
    ("locs", Json.arr (insts.map fun i => Json.arr #[toJson i, toJson (st.fileOf i), dictJson (st.loc i)]).toArray),
    ("tgt", Json.arr (insts.map fun i => Json.arr #[toJson i, Json.arr ((st.tgt i).map tgtJson).toArray]).toArray)]

def parseStep (j : Json) : Option (File × Array FileSpec) := do
  let main ← getNat? j "main"
  let fa ← getArr? j "files"
  let fs ← fa.toList.mapM parseFile
  let n := fs.length
  if main ≥ n then none
  if fs.any (fun f => f.stmts.any (·.any (· ≥ n))) then none
  pure (main, fs.toArray)

def runSteps (glob perRef : Bool) (builtins : List (List Repo.Name)) :
    St → List (File × Array FileSpec) → List Json → List Json
  | _, [], acc => acc.reverse
  | st, (main, fs) :: rest, acc =>
    let S := mkSpec glob perRef builtins fs
    let (st', r, ret) := loadMain S (fs.size + 1) st main
    runSteps glob perRef builtins st' rest (stepJson st st' r ret :: acc)

def handle (j : Json) : Json :=
  match getStr? j "op" with
  | some "history" =>
    match getBool? j "glob", getBool? j "perRef",
          (getArr? j "builtins").bind (·.toList.mapM asNatList?),
          (getArr? j "steps").bind (·.toList.mapM parseStep) with
    | some glob, some perRef, some builtins, some steps =>
      Json.mkObj [("steps", Json.arr (runSteps glob perRef builtins St.init steps []).toArray)]
    | _, _, _, _ => badOp
  | _ => badOp

def main : IO Unit := serve handle
