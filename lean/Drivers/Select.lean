import TextxVerif.Wire
import TextxVerif.Select
import TextxVerif.Gen.ProviderOrder
/-! Driver for provider selection (C32).
op:
  {"op":"select","cls":s,"attr":s,"occs":[[attr, null|rrel]…],"i":n,"reg":[[key,{"p":n}|{"s":rrel}]…]}
    → {"prov":["custom",n] | ["rrel",s] | ["default"]}
  `occs` = the assignments of the rule, `i` = the one the reference was created at.
  {"op":"calls","provs":[{"p":n} | {"expr":rrel,"split":null|s}…],
   "steps":[{"reg":null | [[key,{"s":rrel}|{"o":i}]…],
             "refs":[{"cls":s,"attr":s,"g":null|rrel,"name":s,"split":null|s}…]}…]}
    → {"calls":[[["user",n] | ["find",rrel,delim,[part…]] | ["default"]…]…]}
  a whole history of one meta-model: `reg` = `register_scope_providers` (null: not called before this
  model), `{"o":i}` = the i-th provider object of `provs` (one object may be bound to several keys),
  `split` of a reference = `split` parameter of its match rule.
  {"op":"resolve", …the fields of "select"…, "name":s, "found":bool, "postpone":[n…], "passes":k,
   "builtins":[[name, conforms:bool]…]}
    → {"prov":…, "calls":[["custom",n] | ["rrel",s] | ["default"]…], "result":["bound",origin] | ["unknown"] | ["delayed"]}
  one reference through the passes of `resolve_one_step` in a meta-model created with `builtins`:
  `found` = the model holds an object of that name every provider finds; custom providers listed in
  `postpone` answer `Postponed()` in the first pass; origin = "custom:n" | "rrel:expr" | "default" | "builtin:name".
  RREL trees are represented by their source text (`parse = id`).
-/
open Lean Wire Select

def parseReg (a : Array Json) : Option (List (String × RegVal Nat)) :=
  a.toList.mapM fun e => do
    let xs ← asArr? e
    if xs.size ≠ 2 then none
    let k ← asStr? (← xs[0]?)
    let v ← xs[1]?
    match getNat? v "p", getStr? v "s" with
    | some n, none => pure (k, RegVal.prov n)
    | none, some s => pure (k, RegVal.str s)
    | _, _ => none

def parseOccs (a : Array Json) : Option (List (Occ String)) :=
  a.toList.mapM fun e => do
    let xs ← asArr? e
    if xs.size ≠ 2 then none
    let attr ← asStr? (← xs[0]?)
    let r ← xs[1]?
    if r.isNull then pure { attr := attr, rrel := none }
    else pure { attr := attr, rrel := some (← asStr? r) }

def provJson : Provider Nat String → Json
  | .custom n => Json.arr #["custom", toJson n]
  | .rrel s => Json.arr #["rrel", toJson s]
  | .default => Json.arr #["default"]

/-- user-supplied provider objects of a `calls` request -/
inductive UserProv where
  | callable (tag : Nat)
  | rrelObj (o : RrelObj String)

def optStr? (j : Json) (k : String) : Option (Option String) :=
  match j.getObjVal? k with
  | .ok v => if v.isNull then some none else (asStr? v).map some
  | .error _ => none

def parseProvs (a : Array Json) : Option (List UserProv) :=
  a.toList.mapM fun e =>
    match getNat? e "p", getStr? e "expr", optStr? e "split" with
    | some n, none, none => some (.callable n)
    | none, some t, some sp => some (.rrelObj ⟨t, sp⟩)
    | _, _, _ => none

/-- registration dictionary of a `calls` request: provider objects are indices into `provs` -/
def parseReg2 (nprovs : Nat) (a : Array Json) : Option (List (String × RegVal Nat)) :=
  a.toList.mapM fun e => do
    let xs ← asArr? e
    if xs.size ≠ 2 then none
    let k ← asStr? (← xs[0]?)
    let v ← xs[1]?
    match getNat? v "o", getStr? v "s" with
    | some i, none => if i < nprovs then pure (k, RegVal.prov i) else none
    | none, some s => pure (k, RegVal.str s)
    | _, _ => none

def parseRef (e : Json) : Option (Ref String) := do
  pure { cls := ← getStr? e "cls", attr := ← getStr? e "attr", g := ← optStr? e "g", name := ← getStr? e "name",
         ruleSplit := ← optStr? e "split" }

def parseStep (nprovs : Nat) (e : Json) : Option (Step Nat String) := do
  let refs ← (← getArr? e "refs").toList.mapM parseRef
  let r ← getObj? e "reg"
  if r.isNull then pure { reg := none, refs := refs }
  else pure { reg := some (← parseReg2 nprovs (← asArr? r)), refs := refs }

def callJson (provs : List UserProv) : Call Nat String → Json
  | .user i =>
    match provs[i]? with
    | some (.callable n) => Json.arr #["user", toJson n]
    | _ => badOp
  | .find t delim parts => Json.arr #["find", toJson t, toJson delim, toJson parts]
  | .dflt => Json.arr #["default"]

def handleCalls (j : Json) : Json :=
  match (getArr? j "provs").bind parseProvs with
  | none => badOp
  | some provs =>
    match (getArr? j "steps").bind (fun a => a.toList.mapM (parseStep provs.length)) with
    | none => badOp
    | some steps =>
      let view : Nat → Option (RrelObj String) := fun i =>
        match provs[i]? with
        | some (.rrelObj o) => some o
        | _ => none
      let calls := run Gen.providerOrder view id [] steps
      Json.mkObj [("calls", Json.arr (calls.map (fun cs => Json.arr (cs.map (callJson provs)).toArray)).toArray)]

def parseBuiltins (a : Array Json) : Option (List (String × (String × Bool))) :=
  a.toList.mapM fun e => do
    let xs ← asArr? e
    if xs.size ≠ 2 then none
    let k ← asStr? (← xs[0]?)
    let c ← asBool? (← xs[1]?)
    pure (k, ("builtin:" ++ k, c))

def callProvJson : Call Nat String → Json
  | .user n => Json.arr #["custom", toJson n]
  | .find t _ _ => Json.arr #["rrel", toJson t]
  | .dflt => Json.arr #["default"]

def handleResolve (j : Json) : Json :=
  match getStr? j "cls", getStr? j "attr", (getArr? j "occs").bind parseOccs, getNat? j "i",
      (getArr? j "reg").bind parseReg with
  | some cls, some attr, some occs, some i, some raw =>
    match occs[i]?, getStr? j "name", getBool? j "found", getNatList? j "postpone", getNat? j "passes",
        (getArr? j "builtins").bind parseBuiltins with
    | some o, some name, some found, some postpone, some passes, some builtins =>
      if o.attr ≠ attr then badOp
      else
        let g := refRrel (visit true occs) i attr
        let d : Dict Nat String := register id raw
        let env : Env (String × Bool) := { builtins := builtins, conforms := fun b => b.2 }
        let ask (pass : Nat) : Call Nat String → Answer (String × Bool) := fun c =>
          if !found then .nothing
          else match c with
            | .user n => if postpone.contains n && pass == 0 then .postponed else .found (s!"custom:{n}", true)
            | .find t _ _ => .found ("rrel:" ++ t, true)
            | .dflt => .found ("default", true)
        let (calls, res) := resolvePasses Gen.providerOrder (fun _ => none) d env ⟨cls, attr, g, name, none⟩
          ((List.range passes).map ask)
        let resJ := match res with
          | .bound b => Json.arr #["bound", toJson b.1]
          | .unknown => Json.arr #["unknown"]
          | .delayed => Json.arr #["delayed"]
        Json.mkObj [("prov", provJson (select Gen.providerOrder d cls attr g)),
          ("calls", Json.arr (calls.map callProvJson).toArray), ("result", resJ)]
    | _, _, _, _, _, _ => badOp
  | _, _, _, _, _ => badOp

def handle (j : Json) : Json :=
  match getStr? j "op" with
  | some "resolve" => handleResolve j
  | some "select" =>
    match getStr? j "cls", getStr? j "attr", (getArr? j "occs").bind parseOccs, getNat? j "i",
        (getArr? j "reg").bind parseReg with
    | some cls, some attr, some occs, some i, some raw =>
      match occs[i]? with
      | some o =>
        if o.attr ≠ attr then badOp
        else
          -- the RREL of the reference is read from the two stores the visitor fills (= `occRrel`,
          -- `C32_visit_repaired`)
          Json.mkObj [("prov", provJson (select Gen.providerOrder (register id raw) cls attr
            (refRrel (visit true occs) i attr)))]
      | none => badOp
    | _, _, _, _, _ => badOp
  | some "calls" => handleCalls j
  | _ => badOp

def main : IO Unit := serve handle
