import TextxVerif.Wire
import TextxVerif.Select
import TextxVerif.Gen.ProviderOrder
/-! Driver for provider selection (C32).
op:
  {"op":"select","cls":s,"attr":s,"occs":[[attr, null|rrel]…],"i":n,"reg":[[key,{"p":n}|{"s":rrel}]…]}
    → {"prov":["custom",n] | ["rrel",s] | ["default"]}
  `occs` = the assignments of the rule, `i` = the one the reference was created at.
  RREL trees are represented by their source text (`parse = id`).
-/
open Lean Wire Select

def parseReg (a : Array Json) : Option (List (String × RegVal Nat)) :=
  a.toList.mapM fun e => do
    let xs ← asArr? e
    if xs.size ≠ 2 then none
    let k ← asStr? (← xs[0]?)
    let v ← xs[1]?
    match getNat? v "p", getStr? v "s" with
    | some n, none => pure (k, RegVal.prov n)
    | none, some s => pure (k, RegVal.str s)
    | _, _ => none

def parseOccs (a : Array Json) : Option (List (Occ String)) :=
  a.toList.mapM fun e => do
    let xs ← asArr? e
    if xs.size ≠ 2 then none
    let attr ← asStr? (← xs[0]?)
    let r ← xs[1]?
    if r.isNull then pure { attr := attr, rrel := none }
    else pure { attr := attr, rrel := some (← asStr? r) }

def provJson : Provider Nat String → Json
  | .custom n => Json.arr #["custom", toJson n]
  | .rrel s => Json.arr #["rrel", toJson s]
  | .default => Json.arr #["default"]

def handle (j : Json) : Json :=
  match getStr? j "op" with
  | some "select" =>
    match getStr? j "cls", getStr? j "attr", (getArr? j "occs").bind parseOccs, getNat? j "i",
        (getArr? j "reg").bind parseReg with
    | some cls, some attr, some occs, some i, some raw =>
      match occs[i]? with
      | some o =>
        if o.attr ≠ attr then badOp
        else
          Json.mkObj [("prov", provJson (select Gen.providerOrder (register id raw) cls attr (occRrel occs i)))]
      | none => badOp
    | _, _, _, _, _ => badOp
  | _ => badOp

def main : IO Unit := serve handle
