import TextxVerif.Wire
import TextxVerif.LinkLoc
import TextxVerif.LinkLocSpec
import TextxVerif.PosDict
/-! Driver for the error-location / editor-support models (C28, C34).
ops:
  {"op":"linecol","text":s,"pos":n}                       → {"line":l,"col":c}
  {"op":"error_loc","files":[{"name":s|null,"text":s,"refs":[[id,pos,posEnd]…],"nm":n|null}…],
     "ans":[[id,[A…]]…]}  with A = "P" | "U" | ["N",root] | ["R",file|null,s,e]
       (answer of the provider on the 1st, 2nd, … call for reference id; "P" beyond the list)
                                                           → {"err":{"kind","file","line","col"}}
                                                           | {"ok":[[[ref,start,end,file,ds,de]…]…]}   (one list per model)
                                                           | {"crash":true}
     an "unresolvable" error carries in addition the declarative specification (LinkLocSpec.lean):
       "spec": {"rounds":K+1,"file","line","col","asked":[id…]} | null
  {"op":"posdict","tree":{"id","s","e","kids":[…]}}        → {"dict":[[s,e,id]…]}
  {"op":"tools","files":…,"ans":…,"trees":[tree…]}         → the `error_loc` answer plus "dicts":[[[s,e,id]…]…], "geo":[bool…] (`PosDict.geo` of every tree)
-/
open Lean Wire

def optStr? (j : Json) : Option (Option String) :=
  match j with
  | .null => some none
  | .str s => some (some s)
  | _ => none

def optNat? (j : Json) : Option (Option Nat) :=
  match j with
  | .null => some none
  | _ => (asNat? j).map some

def parseRefs (a : Array Json) : Option (List LinkLoc.RefSpec) :=
  a.toList.mapM fun e => do
    match ← asNatList? e with
    | [i, p, q] => pure ⟨i, p, q⟩
    | _ => none

def parseFile (j : Json) : Option LinkLoc.FileSpec := do
  let name ← optStr? (← getObj? j "name")
  let text ← getStr? j "text"
  let refs ← parseRefs (← getArr? j "refs")
  let nm ← optNat? (← getObj? j "nm")
  pure ⟨name, text.toList, refs, nm⟩

def parseAnswer (j : Json) : Option LinkLoc.Answer :=
  match j with
  | .str "P" => some .postponed
  | .str "U" => some .unknown
  | .arr a =>
    match a.toList with
    | [.str "N", r] => (asNat? r).map .notUnique
    | [.str "R", f, s, e] => do
      let f ← optStr? f
      let s ← asNat? s
      let e ← asNat? e
      pure (.resolved ⟨f, s, e⟩)
    | _ => none
  | _ => none

def parseAns (a : Array Json) : Option (List (Nat × List LinkLoc.Answer)) :=
  a.toList.mapM fun e => do
    let xs ← asArr? e
    let id ← asNat? (← xs[0]?)
    let as ← (← asArr? (← xs[1]?)).toList.mapM parseAnswer
    pure (id, as)

def ansOf (tbl : List (Nat × List LinkLoc.Answer)) (k id : Nat) : LinkLoc.Answer :=
  match tbl.find? (·.1 = id) with
  | some (_, as) => as.getD k .postponed
  | none => .postponed

def kindStr : LinkLoc.Kind → String
  | .syntax => "syntax" | .unknown => "unknown" | .unresolvable => "unresolvable" | .notUnique => "notunique"

def optStrJson : Option String → Json
  | none => Json.null
  | some s => Json.str s

def entryJson (e : LinkLoc.Entry) : Json :=
  Json.arr #[toJson e.ref, toJson e.refStart, toJson e.refEnd, optStrJson e.defFile, toJson e.defStart, toJson e.defEnd]

partial def parseTree (j : Json) : Option PosDict.ONode := do
  let id ← getNat? j "id"
  let s ← getNat? j "s"
  let e ← getNat? j "e"
  let kids ← (← getArr? j "kids").toList.mapM parseTree
  pure (.mk id s e kids)

def dictJson (t : PosDict.ONode) : Json :=
  Json.arr ((PosDict.posRuleDict t).map (fun it => Json.arr #[toJson it.1.1, toJson it.1.2, toJson it.2])).toArray

/-- the declarative specification of the "unresolvable" outcome: computed from the reference
lists and the answers alone (`giveUpRound`, `firstPending`, `lineColSpec`, `askTrace`) -/
def specJson (files : List LinkLoc.FileSpec) (ans : Nat → Nat → LinkLoc.Answer) : Json :=
  match LinkLoc.giveUpRound files ans (LinkLoc.enoughFuel files) with
  | none => Json.null
  | some K =>
    match LinkLoc.firstPending files ans K with
    | none => Json.null
    | some (f, r) =>
      let lc := LinkLoc.lineColSpec f.text r.pos
      Json.mkObj [("rounds", toJson (K + 1)), ("file", optStrJson f.name), ("line", toJson lc.1),
                  ("col", toJson lc.2), ("asked", toJson (LinkLoc.askTrace files ans K))]

def runJson (files : List LinkLoc.FileSpec) (tbl : List (Nat × List LinkLoc.Answer)) : List (String × Json) :=
  match LinkLoc.run files (ansOf tbl) (LinkLoc.enoughFuel files) with
  | .err e => [("err", Json.mkObj [("kind", kindStr e.kind), ("file", optStrJson e.filename),
                                   ("line", toJson e.line), ("col", toJson e.col)])] ++
      (if e.kind = .unresolvable then [("spec", specJson files (ansOf tbl))] else [])
  | .ok ms => [("ok", Json.arr (ms.map (fun m => Json.arr (m.posList.map entryJson).toArray)).toArray)]
  | .crash => [("crash", true)]
  | .fuel => [("err", "fuel")]

def handle (j : Json) : Json :=
  match getStr? j "op" with
  | some "linecol" =>
    match getStr? j "text", getNat? j "pos" with
    | some t, some p =>
      let lc := LinkLoc.posToLineCol t.toList p
      Json.mkObj [("line", toJson lc.1), ("col", toJson lc.2)]
    | _, _ => badOp
  | some "error_loc" =>
    match (getArr? j "files").bind (fun a => a.toList.mapM parseFile), (getArr? j "ans").bind parseAns with
    | some files, some tbl => Json.mkObj (runJson files tbl)
    | _, _ => badOp
  | some "tools" =>
    match (getArr? j "files").bind (fun a => a.toList.mapM parseFile), (getArr? j "ans").bind parseAns,
          (getArr? j "trees").bind (fun a => a.toList.mapM parseTree) with
    | some files, some tbl, some trees =>
      Json.mkObj (runJson files tbl ++ [("dicts", Json.arr (trees.map dictJson).toArray),
        ("geo", Json.arr (trees.map (fun t => toJson (PosDict.geo t))).toArray)])
    | _, _, _ => badOp
  | some "posdict" =>
    match (getObj? j "tree").bind parseTree with
    | some t => Json.mkObj [("dict", dictJson t)]
    | none => badOp
  | _ => badOp

def main : IO Unit := serve handle
