import TextxVerif.Wire
import TextxVerif.Load.History
import TextxVerif.Load.SearchPath
/-! Driver for the load-history machine (C16).

{"op":"case",
 "nodes":[{"k","kids","tok","ws","skipws","root","rule","sup","sep","eol"}…],          pool wide node table
 "mms":[{"top","comments","memo","skipws","ws","debug","user":[rule…]} | null …],        slot k
 "inps":[{"input":"…","toks":[[len|-1…]…],"fuel":n}…],
 "fsys":[[dir,"name",["importURI"…]]…],                                                   model files (optional)
 "hists":[[{"new":k} | {"load":k,"files":[inp index…],"buildFail":b,"fin":"ok|resolve|init|objproc|modelproc","j":n}
                     | {"load":k,"main":file index,"sp":[dir…]|null,"inpOf":[inp index|null … per file],"buildFail",…}…]…]}
   a load given by `main` is a `model_from_file`: the files it parses are computed by `History.loadOrder`
   (imports looked up next to the importing file, then along the provider's search path `sp`)
→ {"runs":[{"outs":[null | {"parses":[…],"stores":[…],"phase":"…","i":n,"initSeq":[…],"order":[file index…],"found":b}…],
            "hid":[{"cache":n,"bp":[[6 lengths]|null…],"instr":[…],"attrs":[…],"gp":[[debug,memo]…],"owner":k|null}…],
            "walkOK":b}…]}
The machine run is `realWalk`: memo caches are cleared as Arpeggio does it, by walking the parser model
(`History.walkClear`); `walkOK` = the premise of `C16_walk_run` (walked repetitions have `Match` separators),
under which this machine is the machine `real` of the history theorems.
(every history is run from the state right after `import textx`; its first operations create the pool)
parse outcome: {"ok":tree} | {"nomatch":pos} | {"err":"fuel"|"bad-model"}; tree as in Drivers/Peg.lean.

The semantic phases are parameters of the model; the driver instantiates them from the request:
`buildFail` / `fin` say how the real load ended, the number of user-class objects a file allocates is
computed from its parse tree (non-terminals of rules that have a user class).
-/
open Lean Wire Peg History

def parseKind : String → Option Kind
  | "str" => some .str | "re" => some .re | "eof" => some .eof | "seq" => some .seq
  | "choice" => some .choice | "opt" => some .opt | "star" => some .star | "plus" => some .plus
  | "unord" => some .unord | "and" => some .andP | "not" => some .notP | _ => none

def optField (j : Json) (k : String) (f : Json → Option α) : Option (Option α) :=
  match getObj? j k with
  | none => some none
  | some Json.null => some none
  | some v => (f v).map some

def parseNode (j : Json) : Option Node := do
  let k ← parseKind (← getStr? j "k")
  let kids := (getNatList? j "kids").getD []
  let tok := (getNat? j "tok").getD 0
  let ws ← optField j "ws" (fun v => (asStr? v).map String.toList)
  let skipws ← optField j "skipws" asBool?
  let sep ← optField j "sep" asNat?
  pure { kind := k, kids := kids, tok := tok, ws := ws, skipws := skipws,
         root := (getBool? j "root").getD false, rule := (getStr? j "rule").getD "",
         suppress := (getBool? j "sup").getD false, sep := sep, eolterm := (getBool? j "eol").getD false }

def parseRow (j : Json) : Option (Array (Option Nat)) := do
  let a ← asArr? j
  a.mapM fun e => match (fromJson? e : Except String Int) with
    | .ok i => some (if i < 0 then none else some i.toNat)
    | .error _ => none

partial def valToJson : Val → Json
  | .none => Json.null
  | .term n p l => Json.arr #["t", toJson n, toJson p, toJson l]
  | .nt n ks => Json.arr #["n", toJson n, Json.arr (ks.map valToJson).toArray]
  | .list vs => Json.arr #["l", Json.arr (vs.map valToJson).toArray]

/-- non-terminals of the tree whose rule has a user class -/
partial def countUser (nodes : Array Node) (user : List String) : Val → Nat
  | .nt n ks =>
    let here := match nodes[n]? with
      | some nd => if user.contains nd.rule then 1 else 0
      | none => 0
    here + (ks.map (countUser nodes user)).sum
  | .list vs => (vs.map (countUser nodes user)).sum
  | _ => 0

/-- user-class objects a file allocates: `parse_tree_to_objgraph` is given `parse_tree[0]`, i.e. the
tree below the `Model := top EOF` wrapper (which carries the name of the first rule, too) -/
def userAllocs (nodes : Array Node) (user : List String) : Val → Nat
  | .nt _ (c :: _) => countUser nodes user c
  | _ => 0

def outcomeJson : Outcome → Json
  | .tree v => Json.mkObj [("ok", valToJson v)]
  | .noMatch p => Json.mkObj [("nomatch", toJson p)]
  | .fuel => fuelOut
  | .bad => Json.mkObj [("err", "bad-model")]

def phaseJson : Phase → List (String × Json)
  | .ok => [("phase", "ok")]
  | .skip => [("phase", "skip")]
  | .parse i => [("phase", "parse"), ("i", toJson i)]
  | .build i => [("phase", "build"), ("i", toJson i)]
  | .resolve => [("phase", "resolve")]
  | .init j => [("phase", "init"), ("i", toJson j)]
  | .objproc => [("phase", "objproc")]
  | .modelproc => [("phase", "modelproc")]

structure MMx where
  mm : MM
  user : List String

def parseMM (j : Json) : Option (Option MMx) :=
  match j with
  | Json.null => some none
  | _ => do
    let top ← getNat? j "top"
    let comments ← optField j "comments" asNat?
    let memo ← getBool? j "memo"
    let skipws ← getBool? j "skipws"
    let ws ← getStr? j "ws"
    let user ← getStrList? j "user"
    pure (some { mm := { top := top, comments := comments, memo := memo, skipws := skipws, ws := ws.toList,
                         debug := (getBool? j "debug").getD false }, user := user })

def parseInp (j : Json) : Option Inp := do
  let input ← getStr? j "input"
  let toks ← (← getArr? j "toks").mapM parseRow
  let fuel ← getNat? j "fuel"
  pure { input := input.toList.toArray, toks := toks, fuel := fuel }

/-- where the texts of a load come from: given, or `model_from_file(main)` through a provider -/
inductive Src
  | given (files : List Nat)
  | file (main : Nat) (sp : SPath) (inpOf : Array (Option Nat))

inductive ROp
  | new (k : Nat)
  | load (k : Nat) (src : Src) (buildFail : Bool) (fin : Fin)

def parseFileEnt (j : Json) : Option FileEnt := do
  let a ← asArr? j
  let d ← asNat? (← a[0]?)
  let n ← asStr? (← a[1]?)
  let imps ← (← asArr? (← a[2]?)).toList.mapM asStr?
  pure { dir := d, name := n, imps := imps }

def parseSrc (j : Json) : Option Src :=
  match getNat? j "main" with
  | some m => do
    let sp ← optField j "sp" (fun v => do (← asArr? v).toList.mapM asNat?)
    let io ← (← getArr? j "inpOf").mapM fun e => match e with
      | Json.null => some none
      | v => (asNat? v).map some
    pure (.file m sp io)
  | none => do pure (.given (← getNatList? j "files"))

def parseFin (s : String) (j : Nat) : Option Fin :=
  match s with
  | "ok" => some .ok | "resolve" => some .resolve | "init" => some (.init j)
  | "objproc" => some .objproc | "modelproc" => some .modelproc | _ => none

def parseOp (j : Json) : Option ROp :=
  match getNat? j "new" with
  | some k => some (.new k)
  | none => do
    let k ← getNat? j "load"
    let src ← parseSrc j
    let bf ← getBool? j "buildFail"
    let fin ← parseFin (← getStr? j "fin") ((getNat? j "j").getD 0)
    pure (.load k src bf fin)

def hidJson (nslots : Nat) (H : Hidden) : Json :=
  let slots := List.range nslots
  Json.mkObj [
    ("cache", toJson H.cache.length),
    ("bp", Json.arr (slots.map fun k => match H.blue k with
        | some b => toJson (b.conts.map fun a => (rd H a).length)
        | none => Json.null).toArray),
    ("instr", toJson (slots.map H.instr)),
    ("attrs", toJson (slots.map H.objAttrs)),
    ("gp", Json.arr (H.gp.map fun e => Json.arr #[toJson e.1, toJson e.2]).toArray),
    ("owner", match H.baseOwner with | some k => toJson k | none => Json.null)]

/-- expand the per-model counts into one entry per initialised object -/
def initSeq (counts : List Nat) (allocs : List Nat) : List Nat :=
  (counts.zip allocs).flatMap fun (c, a) => List.replicate a c

/-- run one history from the fresh state -/
def runHistory (nodes : Array Node) (mmxs : List (Option MMx)) (inps : Array Inp) (fsys : FSys) (ops : List ROp) : Option Json := do
  -- slots without configuration get an unusable dummy that is never created
  let W : World := { nodes := nodes, mms := mmxs.map fun x => match x with
    | some m => m.mm
    | none => { top := 0, comments := none, memo := false, skipws := true, ws := [] } }
  let userOf (k : Nat) : List String := match mmxs[k]? with
    | some (some m) => m.user
    | _ => []
  let nslots := mmxs.length
  let mut H : Hidden := History.empty
  let mut outs : Array Json := #[]
  let mut hids : Array Json := #[]
  for op in ops do
    match op with
    | .new k =>
      match mmxs[k]? with
      | some (some _) => H := create W k H
      | _ => none   -- creating a slot that has no configuration: undecodable request
      outs := outs.push Json.null
    | .load k src bf fin =>
      -- `model_from_file`: the provider decides which files are parsed (a file without token table: undecodable)
      let (fileIdx, extra) ← match src with
        | .given fi => some (fi, ([] : List (String × Json)))
        | .file m sp io =>
          let (ord, found, _) := loadOrder false fsys m sp
          let pick : Nat → Option Nat := fun f => (io[f]?).join
          (ord.mapM pick).map fun fi => (fi, [("order", toJson ord), ("found", toJson found)])
      let files ← fileIdx.mapM fun i => inps[i]?
      let sem : Sem :=
        { file := fun k r => { ok := !bf, dump := 0, allocs := userAllocs nodes (userOf k) r.tree,
                               stack := [], instances := [1], crossrefs := [] },
          final := fun _ _ _ => (fin, 0) }
      let (o, H') := load realWalk W sem k files H
      H := H'
      let allocs := o.parses.map fun p => match p with
        | .tree t => userAllocs nodes (userOf k) t
        | _ => 0
      outs := outs.push (Json.mkObj ([
        ("parses", Json.arr (o.parses.map outcomeJson).toArray),
        ("stores", toJson o.stores),
        ("initSeq", toJson (initSeq o.initCounts allocs))] ++ phaseJson o.phase ++ extra))
    hids := hids.push (hidJson nslots H)
  pure (Json.mkObj [("outs", Json.arr outs), ("hid", Json.arr hids), ("walkOK", toJson W.walkOK)])

/-- {"op":"case", nodes, mms, inps, "hists":[[op…]…]} → {"runs":[{"outs","hid"}…]}; every history starts
from the fresh state (its first operations create the pool) -/
def handle (j : Json) : Json :=
  match getStr? j "op" with
  | some "case" =>
    let r : Option Json := do
      let nodes ← (← getArr? j "nodes").mapM parseNode
      let mmxs ← (← getArr? j "mms").toList.mapM parseMM
      let inps ← (← getArr? j "inps").mapM parseInp
      let fsys ← match getArr? j "fsys" with
        | some a => a.mapM parseFileEnt
        | none => some #[]
      let hists ← (← getArr? j "hists").toList.mapM fun h => do (← asArr? h).toList.mapM parseOp
      let runs ← hists.mapM (runHistory nodes mmxs inps fsys)
      pure (Json.mkObj [("runs", Json.arr runs.toArray)])
    r.getD badOp
  | _ => badOp

def main : IO Unit := serve handle
