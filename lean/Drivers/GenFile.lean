import TextxVerif.Wire
import TextxVerif.Out.GenFile
import TextxVerif.Out.GenFileOps
/-! Driver for the gen_file / export crash model (C31).
op:
  {"op":"history","algo":"new"|"pinned",
   "runs":[{"path":n,"chunks":[c…],"overwrite":b,"crash":"none"|"open"|"close"|"replace"|["write",k,partly]}…]}
     → {"steps":[{"outcome":"done"|"skipped"|"failed","target":null|[["f",c]|["p",c]…],"tmp":b}…]}
  (state of the run's own target and temporary sibling after each run, starting from an empty directory)
  optional "paths":[n…] (histories over several output files): every step also carries
     "all":[{"target":…,"tmp":b}…] — the state of every listed output file after the run, in the order given
  "algo":"ops" steps the history with the operation-level program (`exportOps`, = "new" by `C31_ops_summary`)
  optional "ops":true: every step also carries "ops": null (skipped) | {"n":k,"last":op,"midSame":b,"lastSame":b} — the
     number of primitive operations of the export, the last one (["replace",src,dst] | ["remove",p], p = "out:n" |
     "tmp:n"), whether the run's output file is as before the run after each operation but the last, and after the last
-/
open Lean Wire GenFile

def parseCrash (j : Json) : Option Crash :=
  match asStr? j with
  | some "none" => some .none
  | some "open" => some .atOpen
  | some "close" => some .atClose
  | some "replace" => some .atReplace
  | some _ => none
  | none => do
    let xs ← asArr? j
    let tag ← asStr? (← xs[0]?)
    if tag != "write" then none
    let k ← asNat? (← xs[1]?)
    let p ← asBool? (← xs[2]?)
    pure (.atWrite k p)

def parseRun (j : Json) : Option Run := do
  let p ← getNat? j "path"
  let cs ← getNatList? j "chunks"
  let ov ← getBool? j "overwrite"
  let cr ← parseCrash (← getObj? j "crash")
  pure { path := p, chunks := cs, overwrite := ov, crash := cr }

def pieceJson : Piece → Json
  | .full c => Json.arr #["f", toJson c]
  | .part c => Json.arr #["p", toJson c]

def contentJson : Option Content → Json
  | some c => Json.arr (c.map pieceJson).toArray
  | none => Json.null

def outcomeStr : Outcome → String
  | .done => "done"
  | .skipped => "skipped"
  | .failed => "failed"

def pathStr : Path → String
  | .out n => s!"out:{n}"
  | .tmp n => s!"tmp:{n}"

def opJson : Op → Json
  | .openW t => Json.arr #["open", pathStr t]
  | .append t (.full _) => Json.arr #["w", pathStr t]
  | .append t (.part _) => Json.arr #["wp", pathStr t]
  | .replace s d => Json.arr #["replace", pathStr s, pathStr d]
  | .remove t => Json.arr #["remove", pathStr t]

/-- summary of one run's operation program: number of operations, the last one, whether every operation
before the last has an effect on the temporary sibling only ("midSame": the output file is untouched in
every intermediate state) and whether the output file is as before after the last ("lastSame") -/
def opsInfoJson : Option OpsInfo → Json
  | none => Json.null
  | some i => Json.mkObj [("n", toJson i.n),
      ("last", match i.last with | some o => opJson o | none => Json.null),
      ("midSame", Json.bool i.midOnly),
      ("lastSame", Json.bool i.lastSame)]

def handle (j : Json) : Json :=
  match getStr? j "op" with
  | some "history" =>
    let exp? : Option (FS → Path → List Nat → Crash → FS × Bool) :=
      match getStr? j "algo" with
      | some "new" => some exportNew
      | some "pinned" => some exportPinned
      | some "ops" => some exportOps
      | _ => none
    -- "ops" is optional; when the key is present it must be a boolean
    let wantOps? : Option Bool :=
      match j.getObjVal? "ops" with
      | .ok _ => getBool? j "ops"
      | .error _ => some false
    -- "paths" is optional; when the key is present it must decode
    let paths? : Option (List Nat) :=
      match j.getObjVal? "paths" with
      | .ok _ => getNatList? j "paths"
      | .error _ => some []
    match exp?, (getArr? j "runs").bind (fun a => a.toList.mapM parseRun), paths?, wantOps? with
    | some exp, some runs, some paths, some wantOps =>
      let infos : List (Option OpsInfo) :=
        if wantOps then opsTrace FS.empty runs else runs.map fun _ => none
      let steps := ((traceOn exp paths FS.empty runs).zip infos).map fun ((o, tgt, tmp, all), info) =>
        Json.mkObj ([("outcome", Json.str (outcomeStr o)), ("target", contentJson tgt), ("tmp", Json.bool tmp)] ++
          (if paths.isEmpty then [] else
            [("all", Json.arr (all.map fun (c, t) =>
              Json.mkObj [("target", contentJson c), ("tmp", Json.bool t)]).toArray)]) ++
          (if wantOps then [("ops", opsInfoJson info)] else []))
      Json.mkObj [("steps", Json.arr steps.toArray)]
    | _, _, _, _ => badOp
  | _ => badOp

def main : IO Unit := serve handle
