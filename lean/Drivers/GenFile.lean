import TextxVerif.Wire
import TextxVerif.Out.GenFile
/-! Driver for the gen_file / export crash model (C31).
op:
  {"op":"history","algo":"new"|"pinned",
   "runs":[{"path":n,"chunks":[c…],"overwrite":b,"crash":"none"|"open"|"close"|"replace"|["write",k,partly]}…]}
     → {"steps":[{"outcome":"done"|"skipped"|"failed","target":null|[["f",c]|["p",c]…],"tmp":b}…]}
  (state of the run's own target and temporary sibling after each run, starting from an empty directory)
  optional "paths":[n…] (histories over several output files): every step also carries
     "all":[{"target":…,"tmp":b}…] — the state of every listed output file after the run, in the order given
-/
open Lean Wire GenFile

def parseCrash (j : Json) : Option Crash :=
  match asStr? j with
  | some "none" => some .none
  | some "open" => some .atOpen
  | some "close" => some .atClose
  | some "replace" => some .atReplace
  | some _ => none
  | none => do
    let xs ← asArr? j
    let tag ← asStr? (← xs[0]?)
    if tag != "write" then none
    let k ← asNat? (← xs[1]?)
    let p ← asBool? (← xs[2]?)
    pure (.atWrite k p)

def parseRun (j : Json) : Option Run := do
  let p ← getNat? j "path"
  let cs ← getNatList? j "chunks"
  let ov ← getBool? j "overwrite"
  let cr ← parseCrash (← getObj? j "crash")
  pure { path := p, chunks := cs, overwrite := ov, crash := cr }

def pieceJson : Piece → Json
  | .full c => Json.arr #["f", toJson c]
  | .part c => Json.arr #["p", toJson c]

def contentJson : Option Content → Json
  | some c => Json.arr (c.map pieceJson).toArray
  | none => Json.null

def outcomeStr : Outcome → String
  | .done => "done"
  | .skipped => "skipped"
  | .failed => "failed"

def handle (j : Json) : Json :=
  match getStr? j "op" with
  | some "history" =>
    let exp? : Option (FS → Path → List Nat → Crash → FS × Bool) :=
      match getStr? j "algo" with
      | some "new" => some exportNew
      | some "pinned" => some exportPinned
      | _ => none
    -- "paths" is optional; when the key is present it must decode
    let paths? : Option (List Nat) :=
      match j.getObjVal? "paths" with
      | .ok _ => getNatList? j "paths"
      | .error _ => some []
    match exp?, (getArr? j "runs").bind (fun a => a.toList.mapM parseRun), paths? with
    | some exp, some runs, some paths =>
      let steps := (traceOn exp paths FS.empty runs).map fun (o, tgt, tmp, all) =>
        Json.mkObj ([("outcome", Json.str (outcomeStr o)), ("target", contentJson tgt), ("tmp", Json.bool tmp)] ++
          (if paths.isEmpty then [] else
            [("all", Json.arr (all.map fun (c, t) =>
              Json.mkObj [("target", contentJson c), ("tmp", Json.bool t)]).toArray)]))
      Json.mkObj [("steps", Json.arr steps.toArray)]
    | _, _, _ => badOp
  | _ => badOp

def main : IO Unit := serve handle
