import TextxVerif.Wire
import TextxVerif.Out.GenFile
/-! Driver for the gen_file / export crash model (C31).
op:
  {"op":"history","algo":"new"|"pinned",
   "runs":[{"path":n,"chunks":[c…],"overwrite":b,"crash":"none"|"open"|"close"|"replace"|["write",k,partly]}…]}
     → {"steps":[{"outcome":"done"|"skipped"|"failed","target":null|[["f",c]|["p",c]…],"tmp":b}…]}
  (state of the run's own target and temporary sibling after each run, starting from an empty directory)
-/
open Lean Wire GenFile

def parseCrash (j : Json) : Option Crash :=
  match asStr? j with
  | some "none" => some .none
  | some "open" => some .atOpen
  | some "close" => some .atClose
  | some "replace" => some .atReplace
  | some _ => none
  | none => do
    let xs ← asArr? j
    let tag ← asStr? (← xs[0]?)
    if tag != "write" then none
    let k ← asNat? (← xs[1]?)
    let p ← asBool? (← xs[2]?)
    pure (.atWrite k p)

def parseRun (j : Json) : Option Run := do
  let p ← getNat? j "path"
  let cs ← getNatList? j "chunks"
  let ov ← getBool? j "overwrite"
  let cr ← parseCrash (← getObj? j "crash")
  pure { path := p, chunks := cs, overwrite := ov, crash := cr }

def pieceJson : Piece → Json
  | .full c => Json.arr #["f", toJson c]
  | .part c => Json.arr #["p", toJson c]

def outcomeStr : Outcome → String
  | .done => "done"
  | .skipped => "skipped"
  | .failed => "failed"

def handle (j : Json) : Json :=
  match getStr? j "op" with
  | some "history" =>
    let exp? : Option (FS → Path → List Nat → Crash → FS × Bool) :=
      match getStr? j "algo" with
      | some "new" => some exportNew
      | some "pinned" => some exportPinned
      | _ => none
    match exp?, (getArr? j "runs").bind (fun a => a.toList.mapM parseRun) with
    | some exp, some runs =>
      let steps := (trace exp FS.empty runs).map fun (o, tgt, tmp) =>
        Json.mkObj [("outcome", outcomeStr o),
          ("target", match tgt with | some c => Json.arr (c.map pieceJson).toArray | none => Json.null),
          ("tmp", tmp)]
      Json.mkObj [("steps", Json.arr steps.toArray)]
    | _, _ => badOp
  | _ => badOp

def main : IO Unit := serve handle
