import TextxVerif.Wire
import TextxVerif.Out.GenFile
import TextxVerif.Out.GenFileOps
import TextxVerif.Out.GenFileFaults
/-! Driver for the gen_file / export crash model (C31).
op:
  {"op":"history","algo":"new"|"pinned",
   "runs":[{"path":n,"chunks":[c…],"overwrite":b,"crash":"none"|"open"|"close"|"replace"|["write",k,partly]}…]}
     → {"steps":[{"outcome":"done"|"skipped"|"failed","target":null|[["f",c]|["p",c]…],"tmp":b}…]}
  (state of the run's own target and temporary sibling after each run, starting from an empty directory)
  optional "paths":[n…] (histories over several output files): every step also carries
     "all":[{"target":…,"tmp":b}…] — the state of every listed output file after the run, in the order given
  "algo":"ops" steps the history with the operation-level program (`exportOps`, = "new" by `C31_ops_summary`)
  optional "ops":true: every step also carries "ops": null (skipped) | {"n":k,"last":op,"midSame":b,"lastSame":b} — the
     number of primitive operations of the export, the last one (["replace",src,dst] | ["remove",p], p = "out:n" |
     "tmp:n"), whether the run's output file is as before the run after each operation but the last, and after the last
  optional "persist":b (with "algo":"new"): every run's export is run under the failure *schedule* of the fault
     injection (`exportMode`: the named call fails; when b, every write and flush / close after it fails too) instead
     of the single crash point (= "new" by `C31_persistent`)
  optional "init":[{"path":n,"content":null|[c…],"tmp":b}…]: the directory the history starts from (default: empty) —
     output file n holds the complete pieces c… (a file that was there before: hand-made, the destination of a link,
     …), "tmp": a stale temporary sibling exists.  Paths no run is for may be listed (and observed through "paths").
-/
open Lean Wire GenFile

def parseCrash (j : Json) : Option Crash :=
  match asStr? j with
  | some "none" => some .none
  | some "open" => some .atOpen
  | some "close" => some .atClose
  | some "replace" => some .atReplace
  | some _ => none
  | none => do
    let xs ← asArr? j
    let tag ← asStr? (← xs[0]?)
    if tag != "write" then none
    let k ← asNat? (← xs[1]?)
    let p ← asBool? (← xs[2]?)
    pure (.atWrite k p)

def parseRun (j : Json) : Option Run := do
  let p ← getNat? j "path"
  let cs ← getNatList? j "chunks"
  let ov ← getBool? j "overwrite"
  let cr ← parseCrash (← getObj? j "crash")
  pure { path := p, chunks := cs, overwrite := ov, crash := cr }

def pieceJson : Piece → Json
  | .full c => Json.arr #["f", toJson c]
  | .part c => Json.arr #["p", toJson c]

def contentJson : Option Content → Json
  | some c => Json.arr (c.map pieceJson).toArray
  | none => Json.null

def outcomeStr : Outcome → String
  | .done => "done"
  | .skipped => "skipped"
  | .failed => "failed"

def pathStr : Path → String
  | .out n => s!"out:{n}"
  | .tmp n => s!"tmp:{n}"

def opJson : Op → Json
  | .openW t => Json.arr #["open", pathStr t]
  | .append t (.full _) => Json.arr #["w", pathStr t]
  | .append t (.part _) => Json.arr #["wp", pathStr t]
  | .replace s d => Json.arr #["replace", pathStr s, pathStr d]
  | .remove t => Json.arr #["remove", pathStr t]

/-- summary of one run's operation program: number of operations, the last one, whether every operation
before the last has an effect on the temporary sibling only ("midSame": the output file is untouched in
every intermediate state) and whether the output file is as before after the last ("lastSame") -/
def opsInfoJson : Option OpsInfo → Json
  | none => Json.null
  | some i => Json.mkObj [("n", toJson i.n),
      ("last", match i.last with | some o => opJson o | none => Json.null),
      ("midSame", Json.bool i.midOnly),
      ("lastSame", Json.bool i.lastSame)]

def parseInit (j : Json) : Option (Nat × Option Content × Bool) := do
  let p ← getNat? j "path"
  let c ← match j.getObjVal? "content" with
    | .ok Json.null => some none
    | .ok _ => (getNatList? j "content").map fun cs => some (fullContent cs)
    | .error _ => none
  let t ← getBool? j "tmp"
  pure (p, c, t)

def initFS (es : List (Nat × Option Content × Bool)) : FS :=
  es.foldl (fun fs (p, c, t) => (fs.set (.out p) c).set (.tmp p) (if t then some [.part 0] else none)) FS.empty

def handle (j : Json) : Json :=
  match getStr? j "op" with
  | some "history" =>
    let exp? : Option (FS → Path → List Nat → Crash → FS × Bool) :=
      match getStr? j "algo", j.getObjVal? "persist" with
      | some "new", .error _ => some exportNew
      | some "new", .ok _ => (getBool? j "persist").map exportMode
      | some _, .ok _ => none
      | some "pinned", _ => some exportPinned
      | some "ops", _ => some exportOps
      | _, _ => none
    -- "ops" is optional; when the key is present it must be a boolean
    let wantOps? : Option Bool :=
      match j.getObjVal? "ops" with
      | .ok _ => getBool? j "ops"
      | .error _ => some false
    -- "paths" is optional; when the key is present it must decode
    let paths? : Option (List Nat) :=
      match j.getObjVal? "paths" with
      | .ok _ => getNatList? j "paths"
      | .error _ => some []
    -- "init" is optional; when the key is present it must decode
    let init? : Option FS :=
      match j.getObjVal? "init" with
      | .ok _ => ((getArr? j "init").bind (fun a => a.toList.mapM parseInit)).map initFS
      | .error _ => some FS.empty
    match exp?, (getArr? j "runs").bind (fun a => a.toList.mapM parseRun), paths?, wantOps?, init? with
    | some exp, some runs, some paths, some wantOps, some fs0 =>
      let infos : List (Option OpsInfo) :=
        if wantOps then opsTrace fs0 runs else runs.map fun _ => none
      let steps := ((traceOn exp paths fs0 runs).zip infos).map fun ((o, tgt, tmp, all), info) =>
        Json.mkObj ([("outcome", Json.str (outcomeStr o)), ("target", contentJson tgt), ("tmp", Json.bool tmp)] ++
          (if paths.isEmpty then [] else
            [("all", Json.arr (all.map fun (c, t) =>
              Json.mkObj [("target", contentJson c), ("tmp", Json.bool t)]).toArray)]) ++
          (if wantOps then [("ops", opsInfoJson info)] else []))
      Json.mkObj [("steps", Json.arr steps.toArray)]
    | _, _, _, _, _ => badOp
  | _ => badOp

def main : IO Unit := serve handle
