import TextxVerif.Wire
import TextxVerif.BaseTypes
import TextxVerif.BaseTypesLine
import TextxVerif.Kwd
import TextxVerif.KwdSrc
import TextxVerif.Registry
/-! Driver for the regex engine, the base types (C04) and autokwd (C21).
Characters travel as code points.  `cc` = {"d":[cp…],"w":[cp…],"s":[cp…],"f":[[cp,cp]…]}: Python's classification
of the non-ASCII characters of the case (digits, other word characters, spaces, case-fold pairs).
ops:
  {"op":"match","re":AST|"name":N,"cc":…,"items":[[prev|-1,[cp…]]…]} → {"lens":[n|-1 …]}
  {"op":"tokens","type":T,"cc":…,"text":[cp…]}                        → {"ok":true,"vals":[V…]} | {"ok":false,"left":n}
        optional "items":[[ws cps, literal cps]…],"tail":[cp…] (how the harness composed the text) adds
          "hyp": lineHyp T items tail ∧ litLine items tail = text   (the hypotheses of C04_line_checked, decided by Lean)
          "kinds": litKind of every literal (0 none, 1 int literal, 2 float literal with '.' or exponent)
          "want": litVal T of every literal (what C04_line_checked says the line yields)
        optional "ints":["decimal"…] adds "strs": Py.strInt of each (Python's str(int))
        optional "hist":[[[key,name]…]…] (the register_obj_processors calls on the meta-model, in order) and "keys":[key…] add
          "inforce": for every key "builtin" | "user:NAME" | "none" = Registry.after hist key
  {"op":"proc","name":N,"text":[cp…]}                                 → {"val":V}
  {"op":"kwlike","cc":…,"lits":[[cp…]…],"icase":b}                     → {"kw":[b…]}
  {"op":"compile","cc":…,"lits":[[cp…]…],"autokwd":b,"icase":b}        → {"toks":[{"kind":"str","lit":…,"icase":b}|{"kind":"re","re":AST,"value":[cp…],"groups":n}…]}
  {"op":"parse","cc":…,"g":PE,"icase":b,"ws":[cp…],"ug":b,"text":[cp…]} → {"on":P,"off":P}, P = {"ok":b,"toks":[[pos,value,attr]…]} (autokwd on / off;
        ws = the whitespace set ([] for skipws=False), ug = use_regexp_group; attr = the value for the object graph)
  {"op":"compilesrc","cc":…,"names":N,"srcs":[[cp…]…],"icase":b}          → {"rows":[{"on":T,"off":T} | {"err":"invalid"|"surrogate"} …]}
        srcs = grammar string tokens *with their quotes* as written (escape sequences undecoded), T as in op compile;
        N = [[name cps, cp]…] = Python's Unicode name table for the `\N{name}` written in the case
  op parse also takes "names":N and PE nodes ["slit",[cp…]] (a literal as written, with quotes); a literal with an
        invalid escape sequence → {"gerr":"invalid"|"surrogate"} (the grammar is refused)
PE = ["lit",[cp…]] | ["slit",[cp…]] | ["id"] | ["int"] | ["rx",AST,AST|null] | ["seq",a,b] | ["choice",a,b] | ["star",a] | ["opt",a] | ["not",a]
   | ["empty"] | ["plus",a] | ["and",a] | ["sepplus",a,sep] | ["sepstar",a,sep]
V = {"b":bool} | {"s":[cp…]} | {"i":"decimal"} | {"f":[cp…]}
-/
open Lean Wire Re

def chr? (j : Json) : Option Char := do
  let n ← asNat? j
  if n.isValidChar then some (Char.ofNat n) else none

def chars? (j : Json) : Option (List Char) := do
  let a ← asArr? j
  a.toList.mapM chr?

def cps (l : List Char) : Json := toJson (l.map (·.toNat))

def cat? : String → Option Cat
  | "digit" => some .digit | "word" => some .word | "space" => some .space | _ => none

def item? (j : Json) : Option CItem := do
  let a ← asArr? j
  match ← asStr? (← a[0]?) with
  | "c" => pure (.chr (← chr? (← a[1]?)))
  | "r" => pure (.range (← chr? (← a[1]?)) (← chr? (← a[2]?)))
  | "k" => pure (.cat (← cat? (← asStr? (← a[1]?))) (← asBool? (← a[2]?)))
  | _ => none

def items? (j : Json) : Option (List CItem) := do
  (← asArr? j).toList.mapM item?

partial def re? (j : Json) : Option R := do
  let a ← asArr? j
  match ← asStr? (← a[0]?) with
  | "eps" => pure .eps
  | "chr" => pure (.chr (← chr? (← a[1]?)))
  | "chrI" => pure (.chrI (← chr? (← a[1]?)))
  | "cls" => pure (.cls (← asBool? (← a[1]?)) (← items? (← a[2]?)))
  | "seq" => pure (.seq (← re? (← a[1]?)) (← re? (← a[2]?)))
  | "alt" => pure (.alt (← re? (← a[1]?)) (← re? (← a[2]?)))
  | "star" => pure (.star (← asBool? (← a[1]?)) (← re? (← a[2]?)))
  | "wordB" => pure (.wordB (← asBool? (← a[1]?)))
  | "ahead" => pure (.ahead (← asBool? (← a[1]?)) (← re? (← a[2]?)))
  | "behind" => pure (.behind (← asBool? (← a[1]?)) (← asBool? (← a[2]?)) (← items? (← a[3]?)))
  | _ => none

def itemJ : CItem → Json
  | .chr c => toJson [Json.str "c", toJson c.toNat]
  | .range a b => toJson [Json.str "r", toJson a.toNat, toJson b.toNat]
  | .cat k n => toJson [Json.str "k", Json.str (match k with | .digit => "digit" | .word => "word" | .space => "space"), toJson n]

def reJ : R → Json
  | .eps => toJson [Json.str "eps"]
  | .chr c => toJson [Json.str "chr", toJson c.toNat]
  | .chrI c => toJson [Json.str "chrI", toJson c.toNat]
  | .cls n is => toJson [Json.str "cls", toJson n, toJson (is.map itemJ)]
  | .seq a b => toJson [Json.str "seq", reJ a, reJ b]
  | .alt a b => toJson [Json.str "alt", reJ a, reJ b]
  | .star g r => toJson [Json.str "star", toJson g, reJ r]
  | .wordB n => toJson [Json.str "wordB", toJson n]
  | .ahead n r => toJson [Json.str "ahead", toJson n, reJ r]
  | .behind n c is => toJson [Json.str "behind", toJson n, toJson c, toJson (is.map itemJ)]

def named? : String → Option R
  | "ID" => some Gen.Regexes.ID
  | "BOOL" => some Gen.Regexes.BOOL
  | "INT" => some Gen.Regexes.INT
  | "FLOAT" => some Gen.Regexes.FLOAT
  | "STRICTFLOAT" => some Gen.Regexes.STRICTFLOAT
  | "STRING" => some Gen.Regexes.STRING
  | "keyword" => some Gen.Regexes.keyword
  | "keywordI" => some Gen.Regexes.keywordI
  | _ => none

def type? : String → Option BaseTypes.BaseType
  | "INT" => some .INT | "FLOAT" => some .FLOAT | "STRICTFLOAT" => some .STRICTFLOAT
  | "BOOL" => some .BOOL | "STRING" => some .STRING | "NUMBER" => some .NUMBER | _ => none

def proc? : String → Option (List Char → Py.Val)
  | "INT" => some Gen.Procs.INT | "FLOAT" => some Gen.Procs.FLOAT | "STRICTFLOAT" => some Gen.Procs.STRICTFLOAT
  | "BOOL" => some Gen.Procs.BOOL | "STRING" => some Gen.Procs.STRING | _ => none

def cc? (j : Json) : Option CharClasses := do
  let c ← getObj? j "cc"
  let d ← chars? (← getObj? c "d")
  let w ← chars? (← getObj? c "w")
  let s ← chars? (← getObj? c "s")
  let f ← (← getArr? c "f").toList.mapM fun p => do
    let xs ← chars? p
    match xs with
    | [a, b] => pure (a, b)
    | _ => none
  pure (tableCC d w s f)

def valJ : Py.Val → Json
  | .bool b => Json.mkObj [("b", toJson b)]
  | .str s => Json.mkObj [("s", cps s)]
  | .int l => Json.mkObj [("i", Json.str (toString (Py.intOf l)))]
  | .float l => Json.mkObj [("f", cps l)]

def item2? (j : Json) : Option (Option Char × List Char) := do
  let a ← asArr? j
  let p ← (fromJson? (← a[0]?) : Except String Int).toOption
  let t ← chars? (← a[1]?)
  if p < 0 then pure (none, t)
  else if p.toNat.isValidChar then pure (some (Char.ofNat p.toNat), t) else none

def names? (j : Json) : Option Kwd.Names :=
  match getArr? j "names" with
  | none => some []
  | some a => a.toList.mapM fun p => do
      let xs ← asArr? p
      pure (← chars? (← xs[0]?), ← chr? (← xs[1]?))

instance : Inhabited (ExceptT Kwd.DecErr Option Kwd.PE) := ⟨(none : Option _)⟩

/-- `none` = undecodable request, `some (.error e)` = a literal of the grammar has an invalid escape sequence -/
partial def pe? (names : Kwd.Names) (j : Json) : ExceptT Kwd.DecErr Option Kwd.PE := do
  let a ← liftM (asArr? j)
  let nth (i : Nat) : ExceptT Kwd.DecErr Option Json := liftM a[i]?
  match ← liftM (asStr? (← nth 0)) with
  | "lit" => pure (.lit (← liftM (chars? (← nth 1))))
  | "slit" =>
    match Kwd.litOfSrc names (← liftM (chars? (← nth 1))) with
    | .ok l => pure (.lit l)
    | .error e => throw e
  | "id" => pure .ident
  | "int" => pure .int
  | "seq" => pure (.seq (← pe? names (← nth 1)) (← pe? names (← nth 2)))
  | "choice" => pure (.choice (← pe? names (← nth 1)) (← pe? names (← nth 2)))
  | "star" => pure (.star (← pe? names (← nth 1)))
  | "opt" => pure (.opt (← pe? names (← nth 1)))
  | "not" => pure (.notP (← pe? names (← nth 1)))
  | "empty" => pure .empty
  | "rx" =>
    let body ← nth 2
    if body.isNull then pure (.rx (← liftM (re? (← nth 1))) none)
    else pure (.rx (← liftM (re? (← nth 1))) (some (← liftM (re? body))))
  | "plus" => pure (Kwd.PE.plus (← pe? names (← nth 1)))
  | "and" => pure (Kwd.PE.andP (← pe? names (← nth 1)))
  | "sepplus" => pure (Kwd.PE.sepPlus (← pe? names (← nth 1)) (← pe? names (← nth 2)))
  | "sepstar" => pure (Kwd.PE.sepStar (← pe? names (← nth 1)) (← pe? names (← nth 2)))
  | _ => liftM (none : Option Kwd.PE)

def decErrJ : Kwd.DecErr → Json
  | .invalid => "invalid" | .surrogate => "surrogate" | .fuel => "fuel"

def tokJ (tok : Kwd.Tok) : Json :=
  match tok with
  | .str l i => Json.mkObj [("kind", "str"), ("lit", cps l), ("icase", toJson i)]
  | .re r v => Json.mkObj [("kind", "re"), ("re", reJ r), ("value", match v with | some l => cps l | none => Json.null),
      ("groups", toJson tok.groups)]
  | .reG pre body => Json.mkObj [("kind", "re"), ("re", reJ (.seq pre body)), ("value", Json.null),
      ("groups", toJson tok.groups)]

def lineItem? (j : Json) : Option (BaseTypes.Item (List Char)) := do
  let a ← asArr? j
  pure ⟨← chars? (← a[0]?), ← chars? (← a[1]?)⟩

def handle (j : Json) : Json :=
  match getStr? j "op" with
  | some "match" =>
    let r? := match getObj? j "re" with
      | some a => re? a
      | none => (getStr? j "name").bind named?
    match r?, cc? j, (getArr? j "items").bind (fun a => a.toList.mapM item2?) with
    | some r, some cc, some items =>
      let lens : List Int := items.map fun (p, t) =>
        match pyMatch cc r p t with
        | some n => (n : Int)
        | none => -1
      Json.mkObj [("lens", toJson lens)]
    | _, _, _ => badOp
  | some "tokens" =>
    match (getStr? j "type").bind type?, cc? j, (getObj? j "text").bind chars? with
    | some ty, some cc, some text =>
      let base : Option (List (String × Json)) :=
        match BaseTypes.tokens cc ty text with
        | .ok vals => some [("ok", toJson true), ("vals", toJson (vals.map valJ))]
        | .error n => some [("ok", toJson false), ("left", toJson n)]
      let line : Option (List (String × Json)) :=
        match getObj? j "items" with
        | none => some []
        | some its => do
          let items ← (← asArr? its).toList.mapM lineItem?
          let tail ← (getObj? j "tail").bind chars?
          pure [("hyp", toJson (BaseTypes.lineHyp ty items tail && BaseTypes.litLine id items tail == text)),
                ("kinds", toJson (items.map fun i => BaseTypes.litKind i.lit)),
                ("want", toJson (items.map fun i => valJ (BaseTypes.litVal ty i.lit)))]
      let ints : Option (List (String × Json)) :=
        match getObj? j "ints" with
        | none => some []
        | some a => do
          let zs ← (← asArr? a).toList.mapM fun x => do (← asStr? x).toInt?
          pure [("strs", toJson (zs.map fun z => cps (Py.strInt z)))]
      let reg : Option (List (String × Json)) :=
        match getObj? j "hist" with
        | none => some []
        | some h => do
          let hist ← (← asArr? h).toList.mapM fun r => do
            (← asArr? r).toList.mapM fun kv => do
              let a ← asArr? kv
              pure ((← asStr? (← a[0]?)), (← asStr? (← a[1]?)))
          let keys ← getStrList? j "keys"
          let d := BaseTypes.Registry.after hist
          pure [("inforce", toJson (keys.map fun k => match d k with
            | none => "none"
            | some .builtin => "builtin"
            | some (.user n) => "user:" ++ n))]
      match base, line, ints, reg with
      | some b, some l, some i, some r => Json.mkObj (b ++ l ++ i ++ r)
      | _, _, _, _ => badOp
    | _, _, _ => badOp
  | some "proc" =>
    match (getStr? j "name").bind proc?, (getObj? j "text").bind chars? with
    | some f, some text => Json.mkObj [("val", valJ (f text))]
    | _, _ => badOp
  | some "kwlike" =>
    match cc? j, (getArr? j "lits").bind (fun a => a.toList.mapM chars?), getBool? j "icase" with
    | some cc, some lits, some ic => Json.mkObj [("kw", toJson (lits.map (Kwd.isKeywordLike cc ic)))]
    | _, _, _ => badOp
  | some "compile" =>
    match cc? j, (getArr? j "lits").bind (fun a => a.toList.mapM chars?), getBool? j "autokwd", getBool? j "icase" with
    | some cc, some lits, some ak, some ic =>
      Json.mkObj [("toks", toJson (lits.map fun lit => tokJ (Kwd.compileLit cc ⟨ak, ic⟩ lit)))]
    | _, _, _, _ => badOp
  | some "compilesrc" =>
    match cc? j, names? j, (getArr? j "srcs").bind (fun a => a.toList.mapM chars?), getBool? j "icase" with
    | some cc, some names, some srcs, some ic =>
      Json.mkObj [("rows", toJson (srcs.map fun tok =>
        match Kwd.visitStrMatch cc names ⟨true, ic⟩ tok, Kwd.visitStrMatch cc names ⟨false, ic⟩ tok with
        | .ok on, .ok off => Json.mkObj [("on", tokJ on), ("off", tokJ off)]
        | .error e, _ | _, .error e => Json.mkObj [("err", decErrJ e)]))]
    | _, _, _, _ => badOp
  | some "parse" =>
    match cc? j, (names? j).bind (fun names => (getObj? j "g").bind (fun g => (pe? names g).run)), getBool? j "icase",
        (getObj? j "text").bind chars?, (getObj? j "ws").bind chars?, getBool? j "ug" with
    | some _, some (.error e), some _, some _, some _, some _ => Json.mkObj [("gerr", decErrJ e)]
    | some cc, some (.ok g), some ic, some text, some ws, some ug =>
      let run (ak : Bool) : Json :=
        match Kwd.parseText cc ⟨ak, ic⟩ ⟨ws, ug⟩ g text with
        | some toks => Json.mkObj [("ok", toJson true),
            ("toks", toJson (toks.map fun (p, v, a) => toJson [toJson p, cps v, cps a]))]
        | none => Json.mkObj [("ok", toJson false)]
      Json.mkObj [("on", run true), ("off", run false)]
    | _, _, _, _, _, _ => badOp
  | _ => badOp

def main : IO Unit := serve handle
