import TextxVerif.Wire
import TextxVerif.Obj.Nav
import TextxVerif.Obj.LineCol
import TextxVerif.Obj.Build
import TextxVerif.Obj.ClassTbl
import TextxVerif.PosDictObj
/-! Driver for the object-heap models (C05 navigation / parent links, C06 spans / locations).
ops:
  {"op":"nav","heap":[[cls,parent|null,[[cont,[id…]]…]]…],"q":[Q…]}   → {"a":[A…]}
      Q = ["children",root,cf,[sel ids],[fol ids]] → [id…]
        | ["oftype",root,cf,typ,[fol ids]]          → [id…]
        | ["model",x]                                → id
        | ["pot",typ,x]                              → id | null
  {"op":"navh","hist":[B…],"steps":[{"upto":k,"heap":[P…],"q":[Q…]}…]}  → {"steps":[{"a":[A…]} | {"err":"conform"}…]}
      navigation after a history of meta-model constructions (Obj/ClassTbl.lean):
      B = [[class object,[[attr name,many,cont]…]]…]   one construction: the classes it initialises, in rule order
      P = [class object,class name,parent|null,[[attr name,is list,[v…]]…]]   a Python object: instance dictionary only,
          v = 0 (None) | 1 (anything that is not a model object) | id+2
      each step is answered under the class table after the first `upto` constructions; Q / A as for "nav";
      "conform": an object lacks an attribute its class lists now / holds a list where a single value is expected or
      vice versa (Python would raise)
  {"op":"build","mm":[[cls,[[name,many,cont]…]]…],"tree":T,"truth":[[cls,"f"|"l"]…]}
      truth (optional) = user classes whose instances are not always truthy: "f" never truthy
      (`__bool__` → False), "l" container (`__len__` = number of items in its list-valued
      containment attributes); every other class: always truthy
      T = ["t",pos,len,sep,truthy] | ["n",K,[T…]],  K = ["obj",cls] | ["abs"] | ["mat",truthy] | ["asgn",attr,"optional|plain|many"]
      → {"root":id|-1,"objs":[[id,cls,parent|null,pos,end,[[name,cont,[id…]]…]]…],
         "geo":bool,"nodes":n,"posdict":[[s,e,id]…]}  | {"fail":true}
        (geo / nodes / posdict when the root is an object: `PosDict.geo`, number of nodes and `PosDict.posRuleDict` of
         `PosDict.toONode heap |heap| root`, the containment tree of the built model)
  {"op":"wf","tree":T,"len":n}                     → {"wf":bool,"pos":p,"end":e}
  {"op":"linecol","text":s,"pos":[p…]}             → {"lc":[[line,col]…]}
  {"op":"loc","heap":…,"text":s,"file":n|null,"xs":[id…]} → {"loc":[[line,col,nchar,file|null]|null…]}
  {"op":"locm","heap":…,"roots":[[root id,text,file|null]…],"xs":[id…]} → the same; several models in one heap, each
      root with the input of its own parser and its own file name (a root that is not listed: empty input, no file)
-/
open Lean Wire Obj

def optNat? (j : Json) : Option (Option Nat) :=
  if j.isNull then some none else (asNat? j).map some

def parseHObj (j : Json) : Option HObj := do
  let xs ← asArr? j
  let cls ← asNat? (← xs[0]?)
  let parent ← optNat? (← xs[1]?)
  let as ← asArr? (← xs[2]?)
  let attrs ← as.toList.mapM fun a => do
    let ys ← asArr? a
    let cont ← asBool? (← ys[0]?)
    let ids ← asNatList? (← ys[1]?)
    pure (({ name := 0, many := true, cont := cont } : MetaAttr), AVal.many (ids.map Val.obj))
  let pos := (xs[3]?.bind asNat?).getD 0
  let posEnd := (xs[4]?.bind asNat?).getD 0
  pure { cls := cls, parent := parent, pos := pos, posEnd := posEnd, attrs := attrs }

def parseHeap (j : Json) : Option (Array HObj) := do
  let xs ← asArr? j
  xs.mapM parseHObj

def heapOfArr (a : Array HObj) : Heap := a.toList

def memOf (ids : List Nat) (n : Nat) : Nat → Bool :=
  let arr := ids.foldl (fun (a : Array Bool) i => if i < a.size then a.set! i true else a) (Array.replicate n false)
  fun i => arr.getD i false

def natJ (n : Nat) : Json := toJson n

def answer (h : Heap) (n : Nat) (q : Json) : Option Json := do
  let xs ← asArr? q
  let kind ← asStr? (← xs[0]?)
  match kind with
  | "children" =>
    let root ← asNat? (← xs[1]?)
    let cf ← asBool? (← xs[2]?)
    let sel ← asNatList? (← xs[3]?)
    let fol ← asNatList? (← xs[4]?)
    pure (toJson (getChildren h (memOf sel n) (memOf fol n) cf (n + 1) root))
  | "oftype" =>
    let root ← asNat? (← xs[1]?)
    let cf ← asBool? (← xs[2]?)
    let typ ← asNat? (← xs[3]?)
    let fol ← asNatList? (← xs[4]?)
    pure (toJson (getChildrenOfType h typ (memOf fol n) cf (n + 1) root))
  | "model" =>
    let x ← asNat? (← xs[1]?)
    match getModel h (n + 1) x with
    | some r => pure (natJ r)
    | none => pure (Json.mkObj [("err", "fuel")])
  | "pot" =>
    let typ ← asNat? (← xs[1]?)
    let x ← asNat? (← xs[2]?)
    match getParentOfType h typ (n + 1) x with
    | some (some r) => pure (natJ r)
    | some none => pure Json.null
    | none => pure (Json.mkObj [("err", "fuel")])
  | _ => none

/-! navigation after a history of meta-model constructions -/

def parseMetaAttrs (j : Json) : Option (List MetaAttr) := do
  let as ← asArr? j
  as.toList.mapM fun a => do
    let zs ← asArr? a
    pure ({ name := ← asNat? (← zs[0]?), many := ← asBool? (← zs[1]?), cont := ← asBool? (← zs[2]?) } : MetaAttr)

def parseMMBuild (j : Json) : Option MMBuild := do
  let xs ← asArr? j
  xs.toList.mapM fun e => do
    let ys ← asArr? e
    pure (← asNat? (← ys[0]?), ← parseMetaAttrs (← ys[1]?))

def valOfCode (n : Nat) : Val :=
  if n = 0 then .none else if n = 1 then .prim true else .obj (n - 2)

def parsePObj (j : Json) : Option PObj := do
  let xs ← asArr? j
  let cls ← asNat? (← xs[0]?)
  let cname ← asNat? (← xs[1]?)
  let parent ← optNat? (← xs[2]?)
  let ds ← asArr? (← xs[3]?)
  let dict ← ds.toList.mapM fun d => do
    let ys ← asArr? d
    let name ← asNat? (← ys[0]?)
    let isList ← asBool? (← ys[1]?)
    let vs ← asNatList? (← ys[2]?)
    let vals := vs.map valOfCode
    if isList then pure (name, AVal.many vals)
    else match vals with
      | [v] => pure (name, AVal.one v)
      | _ => none
  pure { cls := cls, cname := cname, parent := parent, pos := 0, posEnd := 0, dict := dict }

def answerStep (hist : List MMBuild) (j : Json) : Option Json := do
  let upto ← getNat? j "upto"
  let ps ← (← getArr? j "heap").toList.mapM parsePObj
  let qs ← getArr? j "q"
  let t := tblAfter (hist.take upto)
  if !(PHeap.conforms t ps) then pure (Json.mkObj [("err", "conform")])
  else
    let h : Heap := (PHeap.view t ps).toArray.toList
    let as ← qs.toList.mapM (answer h ps.length)
    pure (Json.mkObj [("a", Json.arr as.toArray)])

def parseOp (s : String) : Option Op :=
  match s with
  | "optional" => some .optional
  | "plain" => some .plain
  | "many" => some .many
  | _ => none

def parseKind (j : Json) : Option Kind := do
  let xs ← asArr? j
  let k ← asStr? (← xs[0]?)
  match k with
  | "obj" => pure (.obj (← asNat? (← xs[1]?)))
  | "abs" => pure .abs
  | "mat" => pure (.mat (← asBool? (← xs[1]?)))
  | "asgn" => pure (.asgn (← asNat? (← xs[1]?)) (← parseOp (← asStr? (← xs[2]?))))
  | _ => none

partial def parsePT (j : Json) : Option PT := do
  let xs ← asArr? j
  let tag ← asStr? (← xs[0]?)
  match tag with
  | "t" =>
    pure (.term (← asNat? (← xs[1]?)) (← asNat? (← xs[2]?)) (← asBool? (← xs[3]?)) (← asBool? (← xs[4]?)))
  | "n" =>
    let k ← parseKind (← xs[1]?)
    let ks ← asArr? (← xs[2]?)
    let kids ← ks.toList.mapM parsePT
    pure (.nt k kids)
  | _ => none

def parseMM (j : Json) : Option (List (Nat × List MetaAttr)) := do
  let xs ← asArr? j
  xs.toList.mapM fun e => do
    let ys ← asArr? e
    let cls ← asNat? (← ys[0]?)
    let as ← asArr? (← ys[1]?)
    let attrs ← as.toList.mapM fun a => do
      let zs ← asArr? a
      pure ({ name := ← asNat? (← zs[0]?), many := ← asBool? (← zs[1]?), cont := ← asBool? (← zs[2]?) } : MetaAttr)
    pure (cls, attrs)

def mmOf (tbl : List (Nat × List MetaAttr)) (cls : Nat) : List MetaAttr :=
  match tbl.find? (·.1 = cls) with
  | some (_, as) => as
  | none => []

def parseTruth (j : Json) : Option (List (Nat × String)) := do
  let xs ← asArr? j
  xs.toList.mapM fun e => do
    let ys ← asArr? e
    let cls ← asNat? (← ys[0]?)
    let k ← asStr? (← ys[1]?)
    if k == "f" || k == "l" then pure (cls, k) else none

/-- `bool(obj)` for the user classes the harness generates -/
def truthOf (tbl : List (Nat × String)) (h : Heap) (x : Nat) : Bool :=
  match h.get x with
  | none => true
  | some o =>
    match tbl.find? (·.1 = o.cls) with
    | some (_, "f") => false
    | some (_, "l") => o.attrs.any fun (m, v) =>
        m.cont && m.many && (match v with | .many vs => !vs.isEmpty | .one _ => false)
    | _ => true

def valJ : Val → Json
  | .obj i => toJson i
  | _ => toJson (-1 : Int)

def objJ (id : Nat) (o : HObj) : Json :=
  Json.arr #[toJson id, toJson o.cls, (match o.parent with | some p => toJson p | none => Json.null),
             toJson o.pos, toJson o.posEnd,
             Json.arr (o.attrs.map fun (m, v) => Json.arr #[toJson m.name, toJson m.cont, toJson v.objIds]).toArray]

def locJ : Option Loc → Json
  | some l => Json.arr #[toJson l.line, toJson l.col, toJson l.nchar,
                         (match l.file with | some f => toJson f | none => Json.null)]
  | none => Json.null

def parseRoot (j : Json) : Option (Nat × List Char × Option Nat) := do
  let xs ← asArr? j
  let r ← asNat? (← xs[0]?)
  let s ← asStr? (← xs[1]?)
  let f ← optNat? (← xs[2]?)
  pure (r, s.toList, f)

def rootInput (tbl : List (Nat × List Char × Option Nat)) (r : Nat) : List Char :=
  match tbl.find? (·.1 = r) with
  | some (_, cs, _) => cs
  | none => []

def rootFile (tbl : List (Nat × List Char × Option Nat)) (r : Nat) : Option Nat :=
  match tbl.find? (·.1 = r) with
  | some (_, _, f) => f
  | none => none

def handle1 (j : Json) : Json :=
  match getStr? j "op" with
  | some "nav" =>
    match (getObj? j "heap").bind parseHeap, getArr? j "q" with
    | some arr, some qs =>
      let h := heapOfArr arr
      match qs.toList.mapM (answer h arr.size) with
      | some as => Json.mkObj [("a", Json.arr as.toArray)]
      | none => badOp
    | _, _ => badOp
  | some "navh" =>
    match (getArr? j "hist").bind (·.toList.mapM parseMMBuild), getArr? j "steps" with
    | some hist, some steps =>
      match steps.toList.mapM (answerStep hist) with
      | some outs => Json.mkObj [("steps", Json.arr outs.toArray)]
      | none => badOp
    | _, _ => badOp
  | some "build" =>
    match (getObj? j "mm").bind parseMM, (getObj? j "tree").bind parsePT,
          (match getObj? j "truth" with | some tj => parseTruth tj | none => some []) with
    | some tbl, some t, some truth =>
      match build (truthOf truth) (mmOf tbl) t with
      | some (v, s) =>
        let objs := s.heap.zipIdx.map fun (o, i) => objJ i o
        -- editor support (C34): the containment tree of the built model as an object tree, its geometry
        -- and the position map computed from it
        let tools : List (String × Json) := match v with
          | .obj r =>
            let t := PosDict.toONode s.heap s.heap.length r
            [("geo", toJson (PosDict.geo t)), ("nodes", toJson (PosDict.nodes t).length),
             ("posdict", Json.arr ((PosDict.posRuleDict t).map
               (fun it => Json.arr #[toJson it.1.1, toJson it.1.2, toJson it.2])).toArray)]
          | _ => []
        Json.mkObj ([("root", valJ v), ("objs", Json.arr objs.toArray), ("stack", toJson s.stack)] ++ tools)
      | none => Json.mkObj [("fail", true)]
    | _, _, _ => badOp
  | some "wf" =>
    match (getObj? j "tree").bind parsePT, getNat? j "len" with
    | some t, some n => Json.mkObj [("wf", t.wfB n), ("pos", toJson t.pos), ("end", toJson t.posEnd)]
    | _, _ => badOp
  | some "linecol" =>
    match getStr? j "text", getNatList? j "pos" with
    | some s, some ps =>
      let cs := s.toList
      Json.mkObj [("lc", Json.arr (ps.map fun p => let lc := posToLineCol cs p; Json.arr #[toJson lc.1, toJson lc.2]).toArray)]
    | _, _ => badOp
  | some "loc" =>
    match (getObj? j "heap").bind parseHeap, getStr? j "text", (getObj? j "file").bind optNat?, getNatList? j "xs" with
    | some arr, some s, some file, some xs =>
      let h := heapOfArr arr
      let cs := s.toList
      Json.mkObj [("loc", Json.arr (xs.map fun x => locJ (getLocation h (fun _ => cs) (fun _ => file) (arr.size + 1) x)).toArray)]
    | _, _, _, _ => badOp
  | some "locm" =>
    match (getObj? j "heap").bind parseHeap, (getArr? j "roots").bind (·.toList.mapM parseRoot), getNatList? j "xs" with
    | some arr, some tbl, some xs =>
      let h := heapOfArr arr
      Json.mkObj [("loc", Json.arr (xs.map fun x => locJ (getLocation h (rootInput tbl) (rootFile tbl) (arr.size + 1) x)).toArray)]
    | _, _, _ => badOp
  | _ => badOp

/-- {"op":"multi","reqs":[R…]} → {"outs":[answer of R…]} -/
def handle (j : Json) : Json :=
  match getStr? j "op" with
  | some "multi" =>
    match getArr? j "reqs" with
    | some rs => Json.mkObj [("outs", Json.arr (rs.map handle1))]
    | none => badOp
  | _ => handle1 j

def main : IO Unit := serve handle
