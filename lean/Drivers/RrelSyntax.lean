import TextxVerif.Wire
import TextxVerif.RrelSyntax
/-! Driver for the RREL printer / parser model (C12).  Text travels as arrays of
code points.  `word` / `digit`: the non-ASCII code points of the request that
Python's `re` classifies as `\w` / `\d` (ASCII is built in).

ops:
  {"op":"parse","s":[cp…],"word":[cp…],"digit":[cp…]}
      → {"ok":EXPR,"printed":[cp…],"reparsed":EXPR|null} | {"fail":true}
  {"op":"roundtrip","tree":EXPR,"word":[…],"digit":[…]}
      → {"printed":[cp…],"pinned":[cp…],"wf":bool,"depth":n,"parsed":EXPR|null}
EXPR = {"flags":[cp…],"seq":SEQ}   SEQ = [PATH…]   PATH = [ELEM…]
ELEM = ["parent",[cp…]] | ["nav",[cp…],bool,[cp…]|null] | ["br",SEQ] | ["star",SEQ] | ["dots",n]
-/
open Lean Wire RrelSyntax

def toStr (xs : List Nat) : Str := xs.map Char.ofNat
def ofStr (s : Str) : Json := toJson (s.map Char.toNat)

def mkCC (word digit : List Nat) : CC where
  isWord c := asciiCC.isWord c || (c.toNat ≥ 128 && word.contains c.toNat)
  isDigit c := asciiCC.isDigit c || (c.toNat ≥ 128 && digit.contains c.toNat)

mutual
partial def decElem (j : Json) : Option Elem := do
  let xs ← asArr? j
  let tag ← asStr? (← xs[0]?)
  match tag with
  | "parent" => pure (.parent (toStr (← asNatList? (← xs[1]?))))
  | "nav" =>
    let n ← asNatList? (← xs[1]?)
    let c ← asBool? (← xs[2]?)
    let fj ← xs[3]?
    let f ← if fj.isNull then pure none else (asNatList? fj).map fun l => some (toStr l)
    pure (.nav (toStr n) c f)
  | "br" => pure (.brackets (← decSeq (← xs[1]?)))
  | "star" => pure (.star (← decSeq (← xs[1]?)))
  | "dots" => pure (.dots (← asNat? (← xs[1]?)))
  | _ => none
partial def decPath (j : Json) : Option Path := do
  (← asArr? j).toList.mapM decElem
partial def decSeq (j : Json) : Option Seq := do
  (← asArr? j).toList.mapM decPath
end

def decExpr (j : Json) : Option Expr := do
  let fl ← getNatList? j "flags"
  let s ← decSeq (← getObj? j "seq")
  pure ⟨s, toStr fl⟩

mutual
partial def encElem : Elem → Json
  | .parent t => Json.arr #["parent", ofStr t]
  | .nav n c f => Json.arr #["nav", ofStr n, toJson c, match f with | some x => ofStr x | none => Json.null]
  | .brackets s => Json.arr #["br", encSeq s]
  | .star s => Json.arr #["star", encSeq s]
  | .dots n => Json.arr #["dots", toJson n]
partial def encSeq (s : Seq) : Json :=
  Json.arr (s.map fun p => Json.arr (p.map encElem).toArray).toArray
end

def encExpr (e : Expr) : Json := Json.mkObj [("flags", ofStr e.flags), ("seq", encSeq e.seq)]

def handle (j : Json) : Json :=
  match getNatList? j "word", getNatList? j "digit" with
  | some w, some d =>
    let cc := mkCC w d
    match getStr? j "op" with
    | some "parse" =>
      match getNatList? j "s" with
      | some s =>
        match parse cc (toStr s) with
        | some e =>
          let p := printExpr e
          Json.mkObj [("ok", encExpr e), ("printed", ofStr p),
            ("reparsed", match parse cc p with | some e' => encExpr e' | none => Json.null)]
        | none => Json.mkObj [("fail", true)]
      | none => badOp
    | some "roundtrip" =>
      match (getObj? j "tree").bind decExpr with
      | some e =>
        let p := printExpr e
        Json.mkObj [("printed", ofStr p), ("pinned", ofStr (printExprPinned e)),
          ("wf", toJson (wfExpr cc e)), ("depth", toJson (depthPaths e.seq)),
          ("parsed", match parse cc p with | some e' => encExpr e' | none => Json.null)]
      | none => badOp
    | _ => badOp
  | _, _ => badOp

def main : IO Unit := serve handle
