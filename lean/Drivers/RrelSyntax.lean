import TextxVerif.Wire
import TextxVerif.RrelSyntax
import TextxVerif.RrelCore
/-! Driver for the RREL printer / parser model (C12).  Text travels as arrays of
code points.  `word` / `digit`: the non-ASCII code points of the request that
Python's `re` classifies as `\w` / `\d` (ASCII is built in).

ops:
  {"op":"parse","s":[cp…],"word":[cp…],"digit":[cp…]}
      → {"ok":EXPR,"printed":[cp…],"reparsed":EXPR|null} | {"fail":true}
  {"op":"roundtrip","tree":EXPR,"word":[…],"digit":[…]}
      → {"printed":[cp…],"pinned":[cp…],"wf":bool,"depth":n,"parsed":EXPR|null}
EXPR = {"flags":[cp…],"seq":SEQ}   SEQ = [PATH…]   PATH = [ELEM…]
ELEM = ["parent",[cp…]] | ["nav",[cp…],bool,[cp…]|null] | ["br",SEQ] | ["star",SEQ] | ["dots",n]

Both ops take an optional field
  "ev":{"parent":[p|null…],"name":[s|null…],"conf":[[T…]…],"attrs":[[[attr,[tgt…]]…]…],"extra":[…],
        "queries":[{"o":n,"ns":[s…]}…],"fuel":n}
and then also answer
  "eval":[ANS…]|null   -- `evalExpr` of the expression (the tree / the parsed text) for every query; null: no core
  "eval2":[ANS…]|null  -- the same for the expression re-parsed from the printed form
  "core":n             -- number of guarded nodes of the core
  ANS = {"obj":n} | {"proxy":[n…]} | "none" | "postponed" | "fuel"
-/
open Lean Wire RrelSyntax

def toStr (xs : List Nat) : Str := xs.map Char.ofNat
def ofStr (s : Str) : Json := toJson (s.map Char.toNat)

def mkCC (word digit : List Nat) : CC where
  isWord c := asciiCC.isWord c || (c.toNat ≥ 128 && word.contains c.toNat)
  isDigit c := asciiCC.isDigit c || (c.toNat ≥ 128 && digit.contains c.toNat)

mutual
partial def decElem (j : Json) : Option Elem := do
  let xs ← asArr? j
  let tag ← asStr? (← xs[0]?)
  match tag with
  | "parent" => pure (.parent (toStr (← asNatList? (← xs[1]?))))
  | "nav" =>
    let n ← asNatList? (← xs[1]?)
    let c ← asBool? (← xs[2]?)
    let fj ← xs[3]?
    let f ← if fj.isNull then pure none else (asNatList? fj).map fun l => some (toStr l)
    pure (.nav (toStr n) c f)
  | "br" => pure (.brackets (← decSeq (← xs[1]?)))
  | "star" => pure (.star (← decSeq (← xs[1]?)))
  | "dots" => pure (.dots (← asNat? (← xs[1]?)))
  | _ => none
partial def decPath (j : Json) : Option Path := do
  (← asArr? j).toList.mapM decElem
partial def decSeq (j : Json) : Option Seq := do
  (← asArr? j).toList.mapM decPath
end

def decExpr (j : Json) : Option Expr := do
  let fl ← getNatList? j "flags"
  let s ← decSeq (← getObj? j "seq")
  pure ⟨s, toStr fl⟩

mutual
partial def encElem : Elem → Json
  | .parent t => Json.arr #["parent", ofStr t]
  | .nav n c f => Json.arr #["nav", ofStr n, toJson c, match f with | some x => ofStr x | none => Json.null]
  | .brackets s => Json.arr #["br", encSeq s]
  | .star s => Json.arr #["star", encSeq s]
  | .dots n => Json.arr #["dots", toJson n]
partial def encSeq (s : Seq) : Json :=
  Json.arr (s.map fun p => Json.arr (p.map encElem).toArray).toArray
end

def encExpr (e : Expr) : Json := Json.mkObj [("flags", ofStr e.flags), ("seq", encSeq e.seq)]

/-! ### evaluation (`evalExpr`: `toCore` + `Rrel.find` on a model sent with the request) -/

def optNat (j : Json) : Option (Option Nat) :=
  if j.isNull then some none else (asNat? j).map some

def optStr (j : Json) : Option (Option String) :=
  if j.isNull then some none else (asStr? j).map some

def parseAttrs (j : Json) : Option (List (String × List Nat)) := do
  (← asArr? j).toList.mapM fun e => do
    let xs ← asArr? e
    pure (← asStr? (← xs[0]?), ← asNatList? (← xs[1]?))

def mkHeap (par : Array (Option Nat)) (nm : Array (Option String)) (cf : Array (List String))
    (ats : Array (List (String × List Nat))) (extra : List Nat) : Rrel.Heap where
  parent o := (par[o]?).join
  name o := (nm[o]?).join
  conf o T := match cf[o]? with | some l => l.contains T | none => false
  attr o a :=
    match ats[o]? with
    | none => some []
    | some l => match l.find? (·.1 == a) with
      | some (_, ts) => some ts
      | none => some []
  extra := extra
  depth := par.size

structure EvReq where
  H : Rrel.Heap
  queries : List (Nat × List String)
  fuel : Nat

def parseEv (j : Json) : Option EvReq := do
  let par ← (← getArr? j "parent").mapM optNat
  let nm ← (← getArr? j "name").mapM optStr
  let cf ← (← getArr? j "conf").mapM (fun x => (fromJson? x : Except String (List String)).toOption)
  let ats ← (← getArr? j "attrs").mapM parseAttrs
  let extra ← getNatList? j "extra"
  guard (par.size == nm.size && nm.size == cf.size && cf.size == ats.size)
  let qs ← (← getArr? j "queries").toList.mapM fun q => do
    let o ← getNat? q "o"
    guard (o < par.size)
    pure (o, ← getStrList? q "ns")
  pure ⟨mkHeap par nm cf ats extra, qs, ← getNat? j "fuel"⟩

def ansJson : Answer → Json
  | .obj o => Json.mkObj [("obj", toJson o)]
  | .proxy p => Json.mkObj [("proxy", toJson p)]
  | .unknown => "none"
  | .postponed => "postponed"
  | .fuel => "fuel"

def evalAll (ev : EvReq) (e : Expr) : Option (List Answer) :=
  ev.queries.mapM fun (o, ns) => evalExpr ev.H ev.fuel e o ns none

def evalJson : Option (List Answer) → Json
  | some l => Json.arr (l.map ansJson).toArray
  | none => Json.null

/-- the fields `eval`, `eval2`, `core` for the expression `e` and the re-parsed `e'` -/
def evFields (ev : Option EvReq) (e : Expr) (e' : Option Expr) : List (String × Json) :=
  match ev with
  | none => []
  | some ev =>
    let r := evalAll ev e
    let r2 : Json := match e' with
      | none => Json.null
      | some e' =>
        if toCore e' == toCore e && e'.flags == e.flags then evalJson r else evalJson (evalAll ev e')
    [("eval", evalJson r), ("eval2", r2),
     ("core", toJson (((toCore e).getD []).flatMap Rrel.E.ids).length)]

def handle (j : Json) : Json :=
  match getNatList? j "word", getNatList? j "digit" with
  | some w, some d =>
    let cc := mkCC w d
    let evj := getObj? j "ev"
    let ev := evj.bind parseEv
    if evj.isSome && ev.isNone then badOp else
    match getStr? j "op" with
    | some "parse" =>
      match getNatList? j "s" with
      | some s =>
        match parse cc (toStr s) with
        | some e =>
          let p := printExpr e
          let e' := parse cc p
          Json.mkObj ([("ok", encExpr e), ("printed", ofStr p),
            ("reparsed", match e' with | some e' => encExpr e' | none => Json.null)] ++ evFields ev e e')
        | none => Json.mkObj [("fail", true)]
      | none => badOp
    | some "roundtrip" =>
      match (getObj? j "tree").bind decExpr with
      | some e =>
        let p := printExpr e
        let e' := parse cc p
        Json.mkObj ([("printed", ofStr p), ("pinned", ofStr (printExprPinned e)),
          ("wf", toJson (wfExpr cc e)), ("depth", toJson (depthPaths e.seq)),
          ("parsed", match e' with | some e' => encExpr e' | none => Json.null)] ++ evFields ev e e')
      | none => badOp
    | _ => badOp
  | _, _ => badOp

def main : IO Unit := serve handle
