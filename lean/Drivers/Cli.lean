import TextxVerif.Wire
import TextxVerif.Out.Cli
import TextxVerif.Out.CliClick
/-! Driver for the CLI model (C30).
ops (env = "mode", "files", "gens"):
  {"op":"generate","args":[tok…],"mode":{"k":"pattern"|"language"|"grammar","lang":s,"registered":b},
   "files":[[tok,{"lang":s|null,"res":"ok"|"nofile"|["err",line,col]}]…],
   "gens":[[lang, null | [[name,mandatory]…]]…]}
      → {"exit":n,"calls":[{"file":s|null,"kwargs":[[k,true|s]…]}…],"fail":null|kind}
  {"op":"check","order":[tok…], env…} → {"exit":n,"msgs":[["ok",f] | ["error",kind]…]}
optional "argv":[tok…] (the command line as typed, after the command name): the answer also carries
  "click": what `Cli.clickStrip` makes of it (the tuple click hands to the command body)
kind = "registration" | "exception" | ["located",file,line,col] | ["args","missing"|"undeclared",name]
-/
open Lean Wire Cli

def str (s : Str) : Json := Json.str (String.ofList s)

def parseParams (j : Json) : Option (Option (List Param)) :=
  if j.isNull then some none
  else do
    let a ← asArr? j
    let ps ← a.toList.mapM fun e => do
      let xs ← asArr? e
      let n ← asStr? (← xs[0]?)
      let m ← asBool? (← xs[1]?)
      pure ({ name := n.toList, mandatory := m } : Param)
    pure (some ps)

def parseRes (j : Json) : Option FileRes :=
  match asStr? j with
  | some "ok" => some .ok
  | some "nofile" => some .noFile
  | some _ => none
  | none => do
    let xs ← asArr? j
    let tag ← asStr? (← xs[0]?)
    if tag != "err" then none
    let l ← asNat? (← xs[1]?)
    let c ← asNat? (← xs[2]?)
    pure (.loadErr l c)

def parseEnv (j : Json) : Option Env := do
  let m ← getObj? j "mode"
  let mode ← match getStr? m "k" with
    | some "pattern" => some Mode.byPattern
    | some "grammar" => some Mode.byGrammar
    | some "language" => do
      let l ← getStr? m "lang"
      let r ← getBool? m "registered"
      pure (Mode.byLanguage l.toList r)
    | _ => none
  let fs ← getArr? j "files"
  let files ← fs.toList.mapM fun e => do
    let xs ← asArr? e
    let tok ← asStr? (← xs[0]?)
    let info ← xs[1]?
    let langJ ← getObj? info "lang"
    let lang ← if langJ.isNull then some none else (asStr? langJ).map (fun s => some s.toList)
    let res ← parseRes (← getObj? info "res")
    pure (tok.toList, ({ lang := lang, res := res } : FileInfo))
  let gs ← getArr? j "gens"
  let gens ← gs.toList.mapM fun e => do
    let xs ← asArr? e
    let l ← asStr? (← xs[0]?)
    let d ← parseParams (← xs[1]?)
    pure (l.toList, d)
  pure { mode := mode, files := files, gens := gens }

def failJson : Fail → Json
  | .registration => "registration"
  | .exception => "exception"
  | .located f l c => Json.arr #["located", str f, toJson l, toJson c]
  | .args (.missing n) => Json.arr #["args", "missing", str n]
  | .args (.undeclared n) => Json.arr #["args", "undeclared", str n]

def valJson : Val → Json
  | .flag => Json.bool true
  | .str s => str s

def callJson (c : Call) : Json :=
  Json.mkObj [("file", match c.file with | some f => str f | none => Json.null),
    ("kwargs", Json.arr (c.kwargs.map (fun kv => Json.arr #[str kv.1, valJson kv.2])).toArray)]

/-- optional "argv": when the key is present it must decode -/
def clickField (j : Json) : Option (List (String × Json)) :=
  match j.getObjVal? "argv" with
  | .ok _ => (getStrList? j "argv").map fun argv =>
      [("click", Json.arr ((clickStrip (argv.map String.toList)).map str).toArray)]
  | .error _ => some []

def handle (j : Json) : Json :=
  match getStr? j "op" with
  | some "generate" =>
    match parseEnv j, getStrList? j "args", clickField j with
    | some env, some args, some click =>
      let r := runGenerate env (args.map String.toList)
      Json.mkObj ([("exit", toJson r.exit), ("calls", Json.arr (r.calls.map callJson).toArray),
        ("fail", match r.fail with | some f => failJson f | none => Json.null)] ++ click)
    | _, _, _ => badOp
  | some "check" =>
    match parseEnv j, getStrList? j "order", clickField j with
    | some env, some order, some click =>
      let r := runCheck env (order.map String.toList)
      let msg : Msg → Json
        | .ok f => Json.arr #["ok", str f]
        | .error f => Json.arr #["error", failJson f]
      Json.mkObj ([("exit", toJson r.exit), ("msgs", Json.arr (r.msgs.map msg).toArray)] ++ click)
    | _, _, _ => badOp
  | _ => badOp

def main : IO Unit := serve handle
