"""C12 — printed RREL expressions re-parse to equivalent expressions.

Implementation side: `textx.scoping.rrel` — RREL trees are built from the
`RREL*` classes (or parsed from text), printed with `str()`, parsed again with
`rrel.parse`, dumped structurally (classes, names, flags, derived `importURI` /
`use_proxy`) and evaluated with `rrel.find` on a fixed sample model.

Model side (`Drivers/RrelSyntax.lean`): the printer and the recursive-descent
parser of `TextxVerif/RrelSyntax.lean`; compared are the exact printed string
and the parse result (tree or failure) of every string that occurs.

Case formats
  {"kind":"tree","tree":{"flags":"mp","seq":SEQ}}        SEQ=[PATH…] PATH=[ELEM…]
       ELEM = ["parent",T] | ["nav",name,consume,fixed|null] | ["br",SEQ] | ["star",SEQ] | ["dots",n]
  {"kind":"text","s":"+p:a.(b)*"}
"""
import re

from harness.core import Check, use_repo

ID_RE = re.compile(r"[^\d\W]\w*")
SQ_RE = re.compile(r"'((\\')|[^'])*'")
DQ_RE = re.compile(r'"((\\")|[^"])*"')

NAMES = ["a", "b", "c1", "_x", "name", "packages", "classes", "attrs", "parent", "parentx", "p", "m", "é", "名", "x٣", "T"]
TYPES = ["Package", "Class", "Model", "Attr", "T", "parent", "_t1", "Ü"]
FIXED = ["x", "", "p1", "c1", "a b", "it's", 'say "hi"', "a\\'b", 'a\\"b', "\\'", "\\\\'", "a\\b", "~", "),(", "a.b*", "\n", " ",
         "é'", "\\'\\\"", "a\\", "\\", "it's\\", "'\\"]  # the last four end with a backslash (known finding)
FLAGS = ["", "m", "p", "mp", "pm", "mm", "pp", "mpm", "ppm"]
BAD_NAMES = ["", "1a", "a-b", "a b", "a.b", "٣x", "a*", "pa(", "~a", "'"]
BAD_FIXED = ["'\"", "a'b\"c", "'", "x'y\\\"\""]


# ---------------------------------------------------------------------------
# tree helpers (case JSON level)
# ---------------------------------------------------------------------------
def elems_of(seq):
    for p in seq:
        for e in p:
            yield e
            if e[0] in ("br", "star"):
                yield from elems_of(e[1])


def size_of(seq):
    return sum(1 for _ in elems_of(seq))


def depth_of(seq):
    d = 0
    for p in seq:
        for e in p:
            if e[0] in ("br", "star"):
                d = max(d, 1 + depth_of(e[1]))
    return d


def parse_cost(seq):
    """rough number of terminal attempts of the (memo-less, backtracking) Arpeggio parser: the last item of every
    `(X sep)* X` is parsed twice, brackets without `*` twice more"""
    total = 0
    for i, p in enumerate(seq):
        c = 0
        for j, e in enumerate(p):
            if e[0] == "br":
                ce = 2 * parse_cost(e[1]) + 1
            elif e[0] == "star":
                ce = parse_cost(e[1]) + 1
            else:
                ce = 1
            c += ce * (2 if j == len(p) - 1 else 1)
        total += c * (2 if i == len(seq) - 1 else 1)
    return total


MAX_COST = 150


def parse_cost_text(s):
    """same estimate for a text: 8 ** (deepest bracket nesting) * length"""
    return (8 ** paren_depth(s)) * max(1, len(s)) // 8


def is_ident(s):
    return isinstance(s, str) and ID_RE.fullmatch(s) is not None


def lexable(s):
    """the lexer can produce this fixed name (under one of the two quotes)"""
    return SQ_RE.fullmatch("'" + s + "'") is not None or DQ_RE.fullmatch('"' + s + '"') is not None


def quote_ok(q, s):
    return q not in s.replace("\\" + q, "") and not s.endswith("\\")


def printable(s):
    return quote_ok("'", s) or quote_ok('"', s)


def wf_seq(seq, fixed_ok):
    if not isinstance(seq, list) or not seq:
        return False
    for p in seq:
        if not isinstance(p, list) or not p:
            return False
        for i, e in enumerate(p):
            k = e[0]
            if k == "parent":
                if not is_ident(e[1]):
                    return False
            elif k == "nav":
                if not is_ident(e[1]):
                    return False
                if e[3] is not None and (e[2] or not fixed_ok(e[3])):
                    return False
            elif k in ("br", "star"):
                if not wf_seq(e[1], fixed_ok):
                    return False
            elif k == "dots":
                if i != 0 or e[1] < 1:
                    return False
            else:
                return False
    return True


def wf_tree(tree, fixed_ok=lexable):
    """`tree` is an RREL expression: what the grammar and the constructors can produce."""
    return all(c in "mp" for c in tree["flags"]) and wf_seq(tree["seq"], fixed_ok)


def fixed_names(seq):
    return [e[3] for e in elems_of(seq) if e[0] == "nav" and e[3] is not None]


def map_fixed(seq, fn):
    out = []
    for p in seq:
        q = []
        for e in p:
            if e[0] == "nav" and e[3] is not None:
                q.append(["nav", e[1], e[2], fn(e[3])])
            elif e[0] in ("br", "star"):
                q.append([e[0], map_fixed(e[1], fn)])
            else:
                q.append(e)
        out.append(q)
    return out


# ---------------------------------------------------------------------------
# implementation side
# ---------------------------------------------------------------------------
def rrel_mod():
    use_repo()
    from textx.scoping import rrel

    return rrel


def build(tree):
    R = rrel_mod()

    def elem(e):
        k = e[0]
        if k == "parent":
            return R.RRELParent(e[1])
        if k == "nav":
            return R.RRELNavigation(e[1], e[2], e[3])
        if k == "br":
            return R.RRELBrackets(seq(e[1]))
        if k == "star":
            return R.RRELZeroOrMore(R.RRELBrackets(seq(e[1])))
        if k == "dots":
            return R.RRELDots(e[1])
        raise ValueError(k)

    def seq(s):
        return R.RRELSequence([R.RRELPath([elem(e) for e in p]) for p in s])

    return R.RRELExpression(seq(tree["seq"]), tree["flags"])


def dump(n):
    """structure and flags of an RREL tree of the implementation"""
    R = rrel_mod()

    def d(n):
        if isinstance(n, R.RRELParent):
            return ["parent", n.type]
        if isinstance(n, R.RRELNavigation):
            return ["nav", n.name, bool(n.consume_name), n.fixed_name]
        if isinstance(n, R.RRELBrackets):
            return ["br", dseq(n.seq)]
        if isinstance(n, R.RRELZeroOrMore):
            inner = n.path_element
            if isinstance(inner, R.RRELBrackets):
                return ["star", dseq(inner.seq)]
            return ["star?", d(inner)]
        if isinstance(n, R.RRELDots):
            return ["dots", n.num]
        return ["?", type(n).__name__, repr(n)[:40]]

    def dseq(s):
        if not isinstance(s, R.RRELSequence):
            return ["?seq", type(s).__name__]
        out = []
        for p in s.paths:
            if not isinstance(p, R.RRELPath):
                out.append(["?path", type(p).__name__])
            else:
                out.append([d(e) for e in p.path_elements])
        return out

    if not isinstance(n, R.RRELExpression):
        return {"?": type(n).__name__}
    return {"flags": n.flags, "seq": dseq(n.seq), "importURI": bool(n.importURI), "use_proxy": bool(n.use_proxy)}


SAMPLE_GRAMMAR = r"""
Model: packages*=Package;
Package: 'package' name=ID '{' (packages+=Package | classes+=Class)* '}';
Class: 'class' name=ID '{' attrs*=Attr '}';
Attr: 'attr' name=ID;
"""
SAMPLE_TEXT = """
package p1 { class c1 { attr a attr b } package p2 { class c1 { attr x } class c2 { attr a } } }
package x { class p1 { attr c1 } }
"""
LOOKUPS = ["p1.c1", "c1", "p1.p2.c2.a", "a", "x", "p1.p2", "c1.a", ""]
_SAMPLE = {}


def sample():
    if not _SAMPLE:
        use_repo()
        from textx import metamodel_from_str

        mm = metamodel_from_str(SAMPLE_GRAMMAR)
        m = mm.model_from_str(SAMPLE_TEXT)
        p1 = m.packages[0]
        _SAMPLE["objs"] = [m, p1.classes[0].attrs[0], p1.packages[0].classes[1]]
    return _SAMPLE["objs"]


def evaluate(tree_obj):
    """`rrel.find` of the expression on the sample model for every start object / name."""
    R = rrel_mod()
    from textx.scoping import Postponed

    def label(o):
        names = []
        while o is not None and hasattr(o, "parent"):
            names.append(f"{type(o).__name__}:{getattr(o, 'name', '?')}")
            o = o.parent
        return "/".join(reversed(names)) or "root"

    out = []
    for o in sample():
        for name in LOOKUPS:
            try:
                r = R.find(o, name, tree_obj, use_proxy=tree_obj.use_proxy)
                if r is None:
                    out.append(None)
                elif isinstance(r, Postponed):
                    out.append("postponed")
                elif isinstance(r, R.ReferenceProxy):
                    out.append(["proxy"] + [label(x) for x in r._tx_path])
                else:
                    out.append(label(r))
            except RecursionError:
                out.append("exc:RecursionError")
            except Exception as e:  # noqa: BLE001 - the observation is the exception class
                out.append("exc:" + type(e).__name__)
    return out


EVAL_ATTRS = ["packages", "classes", "attrs", "parent"]
EVAL_TYPES = ["Model", "Package", "Class", "Attr"]
EVAL_FUEL = 100000
_HEAP = {}


def sample_heap():
    """the sample model as the Lean evaluation model sees it (`Rrel.Heap`): objects numbered in containment
    preorder; attribute values as object lists (`parent` is an ordinary attribute of contained objects too —
    `~parent` navigates it); `name` holds a string and is left out: a consuming / fixed-name step over it
    finds nothing named in either world, a `~name` step yields a string (not modelled, such trees are not
    compared).  Returns the request part and the label of every object."""
    if not _HEAP:
        use_repo()
        from textx import textx_isinstance

        objs_q = sample()
        m = objs_q[0]
        mm = m._tx_metamodel
        objs = []

        def walk(o):
            objs.append(o)
            for a in ("packages", "classes", "attrs"):
                for c in getattr(o, a, None) or []:
                    walk(c)

        walk(m)
        num = {id(o): i for i, o in enumerate(objs)}

        def label(o):
            names = []
            while o is not None and hasattr(o, "parent"):
                names.append(f"{type(o).__name__}:{getattr(o, 'name', '?')}")
                o = o.parent
            return "/".join(reversed(names)) or "root"

        def lst(v):
            if v is None:
                return []
            return [num[id(x)] for x in (v if isinstance(v, list) else [v])]

        _HEAP["req"] = {
            "parent": [num[id(o.parent)] if hasattr(o, "parent") else None for o in objs],
            "name": [o.name if hasattr(o, "name") else None for o in objs],
            "conf": [[t for t in EVAL_TYPES if textx_isinstance(o, mm[t])] for o in objs],
            "attrs": [[[a, lst(getattr(o, a))] for a in EVAL_ATTRS if hasattr(o, a) and lst(getattr(o, a))] for o in objs],
            "extra": [],
            "queries": [{"o": num[id(o)], "ns": [x for x in name.split(".") if x]} for o in objs_q for name in LOOKUPS],
            "fuel": EVAL_FUEL,
        }
        _HEAP["labels"] = [label(o) for o in objs]
    return _HEAP["req"], _HEAP["labels"]


def eval_comparable(tree):
    """the evaluation model covers the tree: no `~name` step (navigation into a primitive attribute)"""
    return not any(e[0] == "nav" and e[1] == "name" and not e[2] and e[3] is None for e in elems_of(tree["seq"]))


def answers_as_labels(answers, labels):
    out = []
    for a in answers:
        if a == "none":
            out.append(None)
        elif isinstance(a, str):
            out.append(a)
        elif "obj" in a:
            out.append(labels[a["obj"]])
        else:
            out.append(["proxy"] + [labels[x] for x in a["proxy"]])
    return out


def cmp_eval(what, impl_eval, model_eval, labels):
    """`rrel.find` on the sample model against `evalExpr` (`toCore` + `Rrel.find`); a query the implementation
    answered with an exception (`parent(T)` for a class the meta-model does not have: KeyError) is outside the model"""
    if model_eval is None:
        return f"evaluation of {what}: the model has no core for an expression the implementation evaluates"
    got = answers_as_labels(model_eval, labels)
    if len(got) != len(impl_eval):
        return f"evaluation of {what}: {len(impl_eval)} answers of the implementation, {len(got)} of the model"
    for i, (a, b) in enumerate(zip(impl_eval, got)):
        if isinstance(a, str) and a.startswith("exc:"):
            continue
        if a != b:
            return (f"evaluation of {what}: query {i} (start {i // len(LOOKUPS)}, name {LOOKUPS[i % len(LOOKUPS)]!r}): "
                    f"implementation {a!r}, model {b!r}")
    return None


def parse_obs(R, s):
    try:
        t = R.parse(s)
    except RecursionError:
        return None, {"exc": "RecursionError"}
    except Exception as e:  # noqa: BLE001
        return None, {"exc": type(e).__name__}
    return t, {"ok": dump(t)}


def strip_derived(d):
    return {"flags": d.get("flags"), "seq": d.get("seq")}


def nonascii_classes(strings):
    word, digit = set(), set()
    for s in strings:
        for ch in s:
            if ord(ch) >= 128:
                if re.match(r"\w", ch):
                    word.add(ord(ch))
                if re.match(r"\d", ch):
                    digit.add(ord(ch))
    return sorted(word), sorted(digit)


def cps(s):
    return [ord(c) for c in s]


def tree_to_wire(tree):
    def seq(s):
        return [[elem(e) for e in p] for p in s]

    def elem(e):
        k = e[0]
        if k == "parent":
            return ["parent", cps(e[1])]
        if k == "nav":
            return ["nav", cps(e[1]), bool(e[2]), None if e[3] is None else cps(e[3])]
        if k in ("br", "star"):
            return [k, seq(e[1])]
        return ["dots", e[1]]

    return {"flags": cps(tree["flags"]), "seq": seq(tree["seq"])}


def tree_from_wire(w):
    def st(x):
        return "".join(chr(c) for c in x)

    def seq(s):
        return [[elem(e) for e in p] for p in s]

    def elem(e):
        k = e[0]
        if k == "parent":
            return ["parent", st(e[1])]
        if k == "nav":
            return ["nav", st(e[1]), e[2], None if e[3] is None else st(e[3])]
        if k in ("br", "star"):
            return [k, seq(e[1])]
        return ["dots", e[1]]

    return {"flags": st(w["flags"]), "seq": seq(w["seq"])}


def tree_strings(tree):
    out = [tree["flags"]]
    for e in elems_of(tree["seq"]):
        if e[0] == "parent":
            out.append(e[1])
        elif e[0] == "nav":
            out.append(e[1])
            if e[3] is not None:
                out.append(e[3])
    return out


# ---------------------------------------------------------------------------
# generators
# ---------------------------------------------------------------------------
LEAVES = [["parent", "T"], ["nav", "a", True, None], ["nav", "b", False, None], ["nav", "a", False, "x"]]
FIRST_ONLY = [["dots", 1], ["dots", 2]]


def enum_seqs(n):
    """all sequences with exactly n elements over LEAVES / dots (first position only) / brackets / star"""
    if n == 0:
        return []
    out = []
    # first path has k elements (k>=1), the remaining n-k go to the following paths
    for k in range(1, n + 1):
        firsts = enum_paths(k)
        if k == n:
            out.extend([[p] for p in firsts])
        else:
            rests = enum_seqs(n - k)
            for p in firsts:
                for r in rests:
                    out.append([p] + r)
    return out


_PATHS = {}


def enum_paths(n):
    """all paths of total size n"""
    if n in _PATHS:
        return _PATHS[n]
    out = []
    for k in range(1, n + 1):  # size of the first element
        for e in enum_elem(k, True):
            if k == n:
                out.append([e])
            else:
                for rest in enum_tail(n - k):
                    out.append([e] + rest)
    _PATHS[n] = out
    return out


def enum_tail(n):
    out = []
    for k in range(1, n + 1):
        for e in enum_elem(k, False):
            if k == n:
                out.append([e])
            else:
                for rest in enum_tail(n - k):
                    out.append([e] + rest)
    return out


def enum_elem(n, first):
    if n == 1:
        return list(LEAVES) + (list(FIRST_ONLY) if first else [])
    out = []
    for s in enum_seqs(n - 1):
        out.append(["br", s])
        out.append(["star", s])
    return out


class TreeGen:
    def __init__(self, rng):
        self.rng = rng

    def name(self):
        return self.rng.choice(NAMES)

    def fixed(self):
        r = self.rng
        if r.chance(0.6):
            return r.choice(FIXED)
        n = r.randint(0, 5)
        s = "".join(r.choice(["a", "'", '"', "\\", " ", "~", "b", "\\'", '\\"']) for _ in range(n))
        return s

    def elem(self, depth, first):
        r = self.rng
        k = r.weighted([("nav", 6), ("parent", 2), ("br", 2 if depth > 0 else 0), ("star", 3 if depth > 0 else 0),
                        ("dots", 3 if first else 0)])
        if k == "nav":
            mode = r.weighted([("consume", 4), ("tilde", 2), ("fixed", 3)])
            if mode == "consume":
                return ["nav", self.name(), True, None]
            if mode == "tilde":
                return ["nav", self.name(), False, None]
            return ["nav", self.name(), False, self.fixed()]
        if k == "parent":
            return ["parent", r.choice(TYPES)]
        if k == "dots":
            return ["dots", r.weighted([(1, 3), (2, 4), (3, 2), (5, 1)])]
        return [k, self.seq(depth - 1)]

    small = False

    def path(self, depth):
        n = self.rng.weighted([(1, 5), (2, 3)] if self.small else [(1, 4), (2, 4), (3, 2), (4, 1)])
        return [self.elem(depth, i == 0) for i in range(n)]

    def seq(self, depth):
        n = self.rng.weighted([(1, 6), (2, 2)] if self.small else [(1, 5), (2, 3), (3, 1)])
        return [self.path(depth) for _ in range(n)]

    def tree(self):
        while True:
            depth = self.rng.weighted([(0, 3), (1, 5), (2, 4), (3, 2)])
            self.small = depth >= 2
            s = self.seq(depth)
            if parse_cost(s) <= MAX_COST:  # the real parser is exponential in the nesting depth
                return {"flags": self.rng.choice(FLAGS), "seq": s}

    def break_tree(self, tree):
        """one deviation from well-formedness"""
        r = self.rng
        t = {"flags": tree["flags"], "seq": [[list(e) for e in p] for p in tree["seq"]]}
        what = r.choice(["name", "dotsmid", "dots0", "flags", "consumefixed", "badfixed", "emptyseq"])
        p = r.choice(t["seq"])
        if what == "name":
            i = r.below(len(p))
            if p[i][0] in ("nav", "parent"):
                p[i][1] = r.choice(BAD_NAMES)
        elif what == "dotsmid":
            p.append(["dots", r.randint(1, 2)])
        elif what == "dots0":
            p[0] = ["dots", 0]
        elif what == "flags":
            t["flags"] = r.choice(["x", "mx", ":", "M"])
        elif what == "consumefixed":
            p[0] = ["nav", self.name(), True, "x"]
        elif what == "badfixed":
            p[0] = ["nav", self.name(), False, r.choice(BAD_FIXED)]
        else:
            p.append(["br", []])
        return t


TEXTS = ["a.b.c", "^a", "^", "^*", "..", "..a.b*", "+p:a", "+mp:a,b", "+pm:^(a)", "'x'~a", "'a\\'~x,\"b\"~y", "'a\\'~x,'b'~y",
         "parent(T).a", "parent.x", "parentx", "parent", "parent(", "parent()", "parent(1)", "~a", " a . b ", "(a,b)*.c", "((a))*",
         "a**", "'a b'~x", "''~x", ". .a", "a.", "a,,b", "+:a", "+x:a", "+m :a", "+ m:a", "~ a", "' x'~ y", "parent (T)", "a*.b",
         "...a", "a..b", "a.^b", "a,^b", "a,..b", "(a", "a)", "()", "(^)", "(..)*", "(.)*.a", "a *", "a* . b", "\"it's\"~a",
         "'it\\'s'~a", "\"a\\\"\"~b", "'a\\\\'~b", "'a'b", "'a'~", "~'a'~b", "'a'~~b", "a\tb", "a\n.\nb", "1a", "a1._b", "é.名", "x٣",
         "٣x", "a.b,c.d,(e.f)*", "+mp:..a.(b,c)*.~d.'e'~f", "", " ", "+p:", "a b", "a,b)", "parent(T)*", "parent(T)**", "~a*",
         "'x'~a*", "((a))", "((a)).b,c", "((a)*)*", "(a)(b)", "a(b)", "parent(a.b)", "+pp:a", "+mmmp:a", "+p:+m:a", "a+b", "a:b"]


def paren_depth(s):
    d = m = 0
    for ch in s:
        if ch == "(":
            d += 1
            m = max(m, d)
        elif ch == ")":
            d = max(0, d - 1)
    return m


def mutate_text(rng, s):
    if not s:
        return rng.choice([" ", "a", "."])
    k = rng.choice(["ws", "ws", "drop", "dup", "swap", "ins", "ins"])
    i = rng.below(len(s) + (1 if k in ("ws", "ins") else 0))
    if k == "ws":
        return s[:i] + rng.choice([" ", "\t", "\n", "  ", "\r\n"]) + s[i:]
    if k == "drop":
        return s[:i] + s[i + 1:]
    if k == "dup":
        return s[:i] + s[i] + s[i:]
    if k == "swap" and len(s) > 1:
        i = rng.below(len(s) - 1)
        return s[:i] + s[i + 1] + s[i] + s[i + 2:]
    return s[:i] + rng.choice(list("().,*~'\"+:^\\pma1 _") + ["parent", "parent(", "..", "+p:", "+m:"]) + s[i:]


# ---------------------------------------------------------------------------
class Prop(Check):
    ID = "C12"
    LEAN_MODULE = "TextxVerif.Props.C12"
    THEOREMS = [
        "RrelSyntax.C12_roundtrip",
        "RrelSyntax.C12_eval",
        "RrelSyntax.C12_eval_find",
        "RrelSyntax.C12_parsed_eval_partial",
        "RrelSyntax.C12_core",
        "RrelSyntax.C12_parsed_core",
        "RrelSyntax.C12_roundtrip_seq",
        "RrelSyntax.C12_parse_range",
        "RrelSyntax.C12_parsed_partial",
        "RrelSyntax.C12_wf_in_range",
        "RrelSyntax.C12_print_injective",
        "RrelSyntax.C12_print_normal_form_partial",
        "RrelSyntax.C12_same_print_iff_partial",
        "RrelSyntax.C12_trailing_backslash_false",
        "RrelSyntax.C12_pinned_flags_false",
        "RrelSyntax.C12_pinned_quote_false",
    ]
    DRIVER = "Drivers/RrelSyntax.lean"
    QUICK_CASES = 800
    THOROUGH_CASES = 12000
    ENUM_QUICK = 3
    ENUM_THOROUGH = 4
    FLAGS_ALL_QUICK = 2
    FLAGS_ALL_THOROUGH = 3
    RULE = ("complete: every tree with <= 3 (quick) / <= 4 (thorough) elements over {parent(T), a, ~b, 'x'~a, leading . and .., "
            "brackets, star} (quick: the 3-element trees in three slices, slice = seed mod 3); flags '', m, p, mp on each tree "
            "with <= 2 (quick) / <= 3 (thorough) elements, in rotation on the larger ones; random: trees of depth <= 5 over 16 names (ASCII, Unicode, 'parent…'), "
            "23 + random fixed names with quotes / backslashes / whitespace, 9 flag strings; a stream of ill-formed trees; texts = "
            "hand-written list + printed trees with whitespace / character mutations.  non-trivial = a well-formed expression "
            "(built or parsed) with a flag, a fixed name, nesting or >= 2 elements whose printed form was parsed again")
    MODELLED = ("hand-modelled: rrel.py __repr__ methods (printElem…printExpr, _quote_fixed_name), the Arpeggio grammar "
                "rrel_standalone with whitespace skipping, the terminals' regular expressions (first match in backtracking order) "
                "and RRELVisitor (RrelSyntax.parse); tie X: exact printed string and parse result (tree / failure) of every "
                "string; evaluation: RrelSyntax.evalExpr (object tree -> core calculus RrelSyntax.toCore -> Rrel.find of C11, "
                "flags m/p) against rrel.find on the sample model for 3 start objects x 8 names, for the expression and for the "
                "re-parsed one (trees with a '~name' step — navigation into a string attribute — and queries that raise, "
                "parent(T) with T not in the meta-model, are not compared); "
                "character classes \\w \\d of non-ASCII characters are taken from Python's re per request; not exhibited: "
                "Arpeggio's error messages / positions, memoization, Python recursion limits")
    ASSUMPTIONS = [
        "Python's re returns the first match in backtracking priority order for the four terminal patterns (checked by correspondence)",
        "no punctuation character of the RREL notation is a \\w character (CC.Sane; true of Python's re)",
    ]

    # -- generation ---------------------------------------------------------
    slice = 0

    def gen(self, rng, n, tier):
        import os

        self.slice = int(os.environ.get("VERIF_SEED", "0") or 0) % 3
        cases = []
        nmax = self.ENUM_QUICK if tier == "quick" else self.ENUM_THOROUGH
        allflags = ("", "m", "p", "mp")
        quick = tier == "quick"
        flags_all = self.FLAGS_ALL_QUICK if quick else self.FLAGS_ALL_THOROUGH
        for k in range(1, nmax + 1):
            for i, s in enumerate(enum_seqs(k)):
                if quick and k > flags_all and i % 3 != self.slice:
                    continue  # quick: the largest size is covered in three slices (slice = seed mod 3)
                # all four flag combinations on the small trees, one flag per tree in rotation on the larger ones
                for fl in (allflags if k <= flags_all else (allflags[(i // 3) % 4],)):
                    cases.append({"kind": "tree", "tree": {"flags": fl, "seq": s}, "origin": "enum"})
        self.n_enum = len(cases)
        g = TreeGen(rng.fork("trees"))
        rt = rng.fork("texts")
        for t in TEXTS:
            cases.append({"kind": "text", "s": t, "origin": "list"})
        printed_pool = []
        while len(cases) < self.n_enum + len(TEXTS) + n:
            r = rng.below(100)
            if r < 55:
                t = g.tree()
                cases.append({"kind": "tree", "tree": t, "origin": "random"})
            elif r < 67:
                cases.append({"kind": "tree", "tree": g.break_tree(g.tree()), "origin": "illformed"})
            else:
                if not printed_pool or rt.chance(0.5):
                    t = g.tree()
                    if wf_tree(t, printable):
                        printed_pool.append(self.model_print(t))
                if not printed_pool:
                    continue
                s = rt.choice(printed_pool) if rt.chance(0.8) else rt.choice(TEXTS)
                for _ in range(rt.weighted([(0, 2), (1, 5), (2, 3), (4, 1)])):
                    s = mutate_text(rt, s)
                if paren_depth(s) > 2 and parse_cost_text(s) > MAX_COST:
                    continue  # exponential parse time
                cases.append({"kind": "text", "s": s, "origin": "mutated"})
        return cases

    @staticmethod
    def model_print(tree):
        """reference printer of the harness (used only to make texts)"""
        def q(s):
            for c in "'\"":
                if quote_ok(c, s):
                    return c + s + c
            return "'" + s + "'"

        def elem(e):
            k = e[0]
            if k == "parent":
                return f"parent({e[1]})"
            if k == "nav":
                if e[3] is not None:
                    return q(e[3]) + "~" + e[1]
                return e[1] if e[2] else "~" + e[1]
            if k == "br":
                return "(" + seq(e[1]) + ")"
            if k == "star":
                return "(" + seq(e[1]) + ")*"
            return "." * e[1]

        def path(p):
            if p and p[0][0] == "dots":
                return elem(p[0]) + ".".join(elem(e) for e in p[1:])
            return ".".join(elem(e) for e in p)

        def seq(s):
            return ",".join(path(p) for p in s)

        return ("+" + tree["flags"] + ":" if tree["flags"] else "") + seq(tree["seq"])

    # -- implementation -----------------------------------------------------
    def impl(self, case):
        R = rrel_mod()
        obs = {}
        if case["kind"] == "tree":
            try:
                t = build(case["tree"])
            except Exception as e:  # noqa: BLE001
                return {"build": {"exc": type(e).__name__}}
            obs["build"] = {"ok": dump(t)}
        else:
            t, po = parse_obs(R, case["s"])
            obs["parse"] = po
            if t is None:
                return obs
        try:
            printed = str(t)
        except Exception as e:  # noqa: BLE001
            obs["print"] = {"exc": type(e).__name__}
            return obs
        obs["print"] = {"ok": printed}
        t2, po2 = parse_obs(R, printed)
        obs["reparse"] = po2
        tree = self.subject(case, obs)
        if tree is not None and wf_tree(tree) and size_of(tree["seq"]) <= 8 and depth_of(tree["seq"]) <= 2:
            obs["eval"] = evaluate(t)
            if t2 is not None:
                obs["eval2"] = evaluate(t2)
        return obs

    @staticmethod
    def subject(case, obs):
        """the expression tree the property speaks about (JSON form) or None"""
        if case["kind"] == "tree":
            if "ok" in obs.get("build", {}):
                return strip_derived(obs["build"]["ok"])
            return None
        if "ok" in obs.get("parse", {}):
            return strip_derived(obs["parse"]["ok"])
        return None

    # -- model ---------------------------------------------------------------
    def model_req(self, case, obs):
        if case["kind"] == "tree":
            tree = case["tree"]
            try:
                wire = tree_to_wire(tree)
            except Exception:  # noqa: BLE001
                return None
            w, d = nonascii_classes(tree_strings(tree))
            return self._with_ev({"op": "roundtrip", "tree": wire, "word": w, "digit": d}, obs)
        w, d = nonascii_classes([case["s"]])
        return self._with_ev({"op": "parse", "s": cps(case["s"]), "word": w, "digit": d}, obs)

    @staticmethod
    def _with_ev(req, obs):
        """the implementation evaluated the expression on the sample model: the model evaluates it too
        (`evalExpr`: object tree -> core calculus -> `Rrel.find`, with the flags)"""
        if "eval" in obs:
            req["ev"] = sample_heap()[0]
        return req

    def _cmp_evals(self, case, obs, out):
        if "eval" not in obs:
            return None
        tree = self.subject(case, obs)
        if tree is None or not eval_comparable(tree):
            return None
        if "eval" not in out:
            return "the model did not evaluate the expression"
        labels = sample_heap()[1]
        d = cmp_eval("the expression", obs["eval"], out["eval"], labels)
        if d is None and "eval2" in obs:
            d = cmp_eval("the re-parsed expression", obs["eval2"], out["eval2"], labels)
        return d

    def compare(self, case, obs, out):
        if "err" in out:
            return f"model rejected the request: {out}"
        if case["kind"] == "tree":
            if "ok" not in obs.get("build", {}) or "ok" not in obs.get("print", {}):
                return None  # the constructors / printer refused an ill-formed tree: nothing to compare
            if strip_derived(obs["build"]["ok"]) != {"flags": case["tree"]["flags"], "seq": case["tree"]["seq"]}:
                return None  # constructor normalised the tree (ill-formed input)
            mp = "".join(chr(c) for c in out["printed"])
            if mp != obs["print"]["ok"]:
                return f"printed form: implementation {obs['print']['ok']!r}, model {mp!r}"
            want_wf = wf_tree(case["tree"], printable)
            if bool(out["wf"]) != want_wf:
                return f"well-formedness: model {out['wf']}, harness {want_wf}"
            return self._cmp_parse(obs["reparse"], out["parsed"], mp) or self._cmp_evals(case, obs, out)
        # text
        got = obs["parse"]
        if "ok" in out:
            d = self._cmp_parse(got, out["ok"], case["s"])
            if d:
                return d
            if "ok" in obs.get("print", {}):
                mp = "".join(chr(c) for c in out["printed"])
                if mp != obs["print"]["ok"]:
                    return f"printed form of the parsed text: implementation {obs['print']['ok']!r}, model {mp!r}"
                return self._cmp_parse(obs["reparse"], out["reparsed"], mp) or self._cmp_evals(case, obs, out)
            return None
        return self._cmp_parse(got, None, case["s"])

    @staticmethod
    def _cmp_parse(impl_obs, model_tree, text):
        if model_tree is None:
            if "ok" in impl_obs:
                return f"parse of {text!r}: implementation accepts, model rejects"
            return None
        if "ok" not in impl_obs:
            return f"parse of {text!r}: implementation raises {impl_obs.get('exc')}, model accepts"
        mt = tree_from_wire(model_tree)
        if strip_derived(impl_obs["ok"]) != mt:
            return f"parse of {text!r}: implementation {strip_derived(impl_obs['ok'])}, model {mt}"
        return None

    # -- oracle: the property statement on the implementation -----------------
    def oracle(self, case, obs):
        tree = self.subject(case, obs)
        if tree is None:
            if case["kind"] == "tree" and wf_tree(case["tree"]):
                return f"a well-formed expression tree could not be built: {obs.get('build')}"
            return None
        if case["kind"] == "tree":
            if tree != {"flags": case["tree"]["flags"], "seq": case["tree"]["seq"]}:
                if wf_tree(case["tree"]):
                    return f"the constructors changed a well-formed tree: {tree}"
                return None
        if not wf_tree(tree):
            if case["kind"] == "text":
                return f"the parser produced a tree outside the RREL expression language: {tree}"
            return None
        if "ok" not in obs.get("print", {}):
            return f"printing failed: {obs.get('print')}"
        printed = obs["print"]["ok"]
        rp = obs.get("reparse", {})
        if "ok" not in rp:
            return f"the printed form {printed!r} does not parse ({rp.get('exc')})"
        first = obs["build"]["ok"] if case["kind"] == "tree" else obs["parse"]["ok"]
        if rp["ok"]["seq"] != first["seq"]:
            return f"the printed form {printed!r} parses to a different structure: {rp['ok']['seq']} instead of {first['seq']}"
        for k in ("flags", "importURI", "use_proxy"):
            if rp["ok"][k] != first[k]:
                return f"the printed form {printed!r} parses with {k}={rp['ok'][k]!r} instead of {first[k]!r}"
        if "eval" in obs and obs.get("eval2") != obs["eval"]:
            return f"the expression re-parsed from {printed!r} evaluates differently on the sample model"
        return None

    def nontrivial(self, case, obs):
        tree = self.subject(case, obs)
        if tree is None or not wf_tree(tree) or "ok" not in obs.get("reparse", {}):
            return False
        return bool(tree["flags"]) or bool(fixed_names(tree["seq"])) or size_of(tree["seq"]) >= 2

    # -- known finding ---------------------------------------------------------
    def classify(self, case, obs, failure):
        """C12-KF1: a fixed name ending with a backslash has no context-free notation.  A failing
        input belongs to it iff such a name occurs and the same tree with the trailing backslashes
        removed satisfies the property."""
        if not str(failure).startswith("the printed form "):
            return None  # only round-trip failures of the implementation, never a model disagreement
        tree = self.subject(case, obs)
        if tree is None or not wf_tree(tree):
            return None
        if not any(f.endswith("\\") for f in fixed_names(tree["seq"])):
            return None
        t2 = {"flags": tree["flags"], "seq": map_fixed(tree["seq"], lambda f: f.rstrip("\\"))}
        c2 = {"kind": "tree", "tree": t2}
        o2 = self.impl(c2)
        if self.oracle(c2, o2) is None:
            return "C12-KF1"
        return None

    # -- shrinking ---------------------------------------------------------------
    def shrink(self, case):
        if case["kind"] == "text":
            s = case["s"]
            for i in range(len(s)):
                yield {"kind": "text", "s": s[:i] + s[i + 1:]}
            return
        tree = case["tree"]
        if tree["flags"]:
            yield {"kind": "tree", "tree": {"flags": "", "seq": tree["seq"]}}
            if len(tree["flags"]) > 1:
                yield {"kind": "tree", "tree": {"flags": tree["flags"][1:], "seq": tree["seq"]}}
                yield {"kind": "tree", "tree": {"flags": tree["flags"][:-1], "seq": tree["seq"]}}
        for s in self._shrink_seq(tree["seq"]):
            yield {"kind": "tree", "tree": {"flags": tree["flags"], "seq": s}}

    def _shrink_seq(self, seq):
        for i in range(len(seq)):
            if len(seq) > 1:
                yield seq[:i] + seq[i + 1:]
        for i, p in enumerate(seq):
            for j in range(len(p)):
                if len(p) > 1:
                    yield seq[:i] + [p[:j] + p[j + 1:]] + seq[i + 1:]
            for j, e in enumerate(p):
                if e[0] in ("br", "star"):
                    yield e[1]  # lift the content
                    if e[0] == "star":
                        yield seq[:i] + [p[:j] + [["br", e[1]]] + p[j + 1:]] + seq[i + 1:]
                    for s2 in self._shrink_seq(e[1]):
                        yield seq[:i] + [p[:j] + [[e[0], s2]] + p[j + 1:]] + seq[i + 1:]
                elif e[0] == "nav":
                    if e[3]:
                        for f2 in {e[3][1:], e[3][:-1], "x"} - {e[3]}:
                            yield seq[:i] + [p[:j] + [["nav", e[1], e[2], f2]] + p[j + 1:]] + seq[i + 1:]
                    if e[1] != "a":
                        yield seq[:i] + [p[:j] + [["nav", "a", e[2], e[3]]] + p[j + 1:]] + seq[i + 1:]
                elif e[0] == "parent" and e[1] != "T":
                    yield seq[:i] + [p[:j] + [["parent", "T"]] + p[j + 1:]] + seq[i + 1:]
                elif e[0] == "dots" and e[1] > 1:
                    yield seq[:i] + [p[:j] + [["dots", e[1] - 1]] + p[j + 1:]] + seq[i + 1:]

    def extra_search(self, rng, tier, broken):
        g = TreeGen(rng.fork("search"))
        out = []
        for _ in range(3000):
            t = g.tree()
            if wf_tree(t):
                out.append({"kind": "tree", "tree": t, "origin": "search"})
        return out

    def sample_view(self, case, obs):
        v = {"case": case, "printed": obs.get("print"), "reparse_ok": "ok" in obs.get("reparse", {})}
        return v

    def extra_evidence(self, cases, obs, model_outs):
        dist = {"tree_enum": 0, "tree_random": 0, "tree_illformed": 0, "text": 0, "corpus": 0}
        wf = parsed_ok = parsed_fail = 0
        maxdepth = maxsize = 0
        flags = {}
        fixed = 0
        for c, o in zip(cases, obs):
            org = c.get("origin", "")
            if org.startswith("corpus"):
                dist["corpus"] += 1
            elif c["kind"] == "text":
                dist["text"] += 1
            else:
                dist["tree_" + org] = dist.get("tree_" + org, 0) + 1
            if c["kind"] == "text" and isinstance(o, dict) and "parse" in o:
                if "ok" in o["parse"]:
                    parsed_ok += 1
                else:
                    parsed_fail += 1
            t = self.subject(c, o) if isinstance(o, dict) and "__crash__" not in o else None
            if t is not None and wf_tree(t):
                wf += 1
                maxdepth = max(maxdepth, depth_of(t["seq"]))
                maxsize = max(maxsize, size_of(t["seq"]))
                flags[t["flags"]] = flags.get(t["flags"], 0) + 1
                fixed += 1 if fixed_names(t["seq"]) else 0
        ev_cmp = ev_resolving = 0
        for c, o, m in zip(cases, obs, model_outs or []):
            if isinstance(o, dict) and "eval" in o and isinstance(m, dict) and m.get("eval") is not None:
                t = self.subject(c, o)
                if t is not None and eval_comparable(t):
                    ev_cmp += 1
                    ev_resolving += 1 if any(a not in ("none", "postponed", "fuel") for a in m["eval"]) else 0
        return {
            "evaluations_compared_with_rrel_find": ev_cmp,
            "of_these_resolving_some_query": ev_resolving,
            "distribution": dist,
            "well_formed_subjects": wf,
            "texts_accepted": parsed_ok,
            "texts_rejected": parsed_fail,
            "max_depth": maxdepth,
            "max_size": maxsize,
            "flags_seen": flags,
            "subjects_with_fixed_name": fixed,
            "exhaustive": f"{getattr(self, 'n_enum', 0)} cases of the enumerated sub-space (see rule)",
        }
