"""C33 — errors raised by processors carry the location of the processed text.

Implementation side: generated grammars and models (harness/procgen.py) in which
one chosen processor call fails: an object processor (own rule or the abstract
rule of the holding attribute; on the model root, inner objects, objects of
imported files) or a match processor (base types, regex / sequence / nested match
rules, regexps with
groups under `use_regexp_group`; n-th call), raising TextXError / TextXSemanticError without or with
processor-supplied location attributes, or ValueError / KeyError, with or without
`textxerror_wrap`, loaded from a string, a string with file name, or files.  The
observed error attributes are compared with `Proc.outcome` (Drivers/Proc.lean, op
proc_error) fed with the location of the processed text as the real objects report
it; the oracle computes the expected location from the generated text alone.
"""
import os

from harness import procgen as pg
from harness.core import Check, Rng, use_repo
from harness.procrun import Run

NAMED = "/nonexistent/dir/named.m"
SUPPLIED = {"line": 77, "col": 66, "nchar": 55, "filename": "supplied.x"}


def make_exc(spec):
    from textx.exceptions import TextXError, TextXSemanticError

    kw = {k: SUPPLIED[k] for k in spec.get("supplied", [])}
    if spec["exc"] == "textx":
        return TextXError("boom", **kw)
    if spec["exc"] == "semantic":
        return TextXSemanticError("boom", **kw)
    if spec["exc"] == "value":
        return ValueError("boom")
    return KeyError("boom")


class Prop(Check):
    ID = "C33"
    LEAN_MODULE = "TextxVerif.Props.C33"
    THEOREMS = [
        "Proc.C33_fill",
        "Proc.C33_keep_supplied",
        "Proc.C33_keep_supplied_field",
        "Proc.C33_wrap",
        "Proc.C33_unwrapped_other",
        "Proc.C33_located",
        "Proc.C33_pinned_nchar_false",
        "Proc.C33_site_text",
        "Proc.C33_fill_text",
        "Proc.C33_wrap_text",
        "Proc.C33_keep_supplied_text",
        "Proc.C33_start_identified",
        "Proc.C33_walk_cut",
        "Proc.C33_walk_first_raise",
        "Proc.C33_walk_first_raise_script_indep",
        "Proc.C33_walk_fails_iff",
        "Proc.C33_walk_no_raise",
        "Proc.C33_walk_fill_text",
        "Proc.C33_walk_wrap_text",
        "Proc.C33_walk_located",
        "Proc.C33_load_first_model",
        "Proc.C33_load_fill_text",
        "Proc.C33_match_first_raise",
        "Proc.C33_match_fails_iff",
        "Proc.C33_match_fill_text",
    ]
    DRIVER = "Drivers/Proc.lean"
    QUICK_CASES = 390
    THOROUGH_CASES = 12000
    RULE = ("generated models with one failing processor call: object processor (own / abstract rule; root, inner, "
            "imported-file objects) or match processor (base types, regex, sequence, nested match rules; regexps without "
            "group, with one group at / behind the start of the match and on a later line, with two groups, with "
            "non-capturing groups; a third of the match cases aims at a regexp value), metamodels with/without "
            "use_regexp_group, memoization, autokwd, ignore_case, textx_tools_support, raising "
            "TextXError/TextXSemanticError with a random subset of location attributes supplied, or ValueError/KeyError, "
            "with/without textxerror_wrap, from string / named string / files, text starting on any line and column; "
            "non-trivial = the failing call happened and the property's hypothesis holds (TextXError, or wrapped)")
    MODELLED = ("hand-modelled: metamodel.py TextXMetaModel.process enrichment (Proc.enrich), model.py textxerror_wrap "
                "(Proc.wrap), dispatch keyword arguments for object and match processors (Proc.given), model.py "
                "get_location (Proc.siteOf: Arpeggio pos_to_linecol = LinkLoc.posToLineCol on the text of the model's "
                "parser, _tx_position_end - _tx_position, the model's file), model.py call_obj_processors with a raising "
                "processor (Proc.walkE / loadE: the walk stops at the first raising call); tie X: op proc_error — object "
                "targets: model state at the first processor call of every walked model + registrations + texts + object "
                "spans + which (rule, object) raises -> the failing call, the calls made before it, and the error "
                "location; model.py process_match (Proc.matchE: post-order calls, each with the line/col of its own "
                "node); match targets: text + the match parse tree recorded by the generator + which node's processor "
                "raises -> the failing call, the calls of that tree made before it, and the error location; "
                "not exhibited: exceptions raised while a processor error is being handled")
    ASSUMPTIONS = ["exactly one processor call of the load fails", "processors raise fresh exception objects"]

    # ------------------------------------------------------------------ cases
    def gen(self, rng, n, tier):
        made = 0
        i = n_match = n_re = 0
        retry = False  # the dropped case was a match case: so is the next one
        while made < n:
            r = rng.fork(f"case{i}")
            i += 1
            want_match = r.chance(0.45) or retry
            case = pg.gen_case(r, multi=False if want_match else None, want_match=want_match, cap=12)
            # a third of the match cases aims at a value of a regexp match rule (rare among names, references,
            # numbers); a case without such a value is dropped and the next match case tries again
            want_re = want_match and 3 * n_re <= n_match
            if self.decorate(case, r, want_match, want_re=want_re):
                n_match += want_match
                n_re += want_re
                retry = False
                made += 1
                yield case
            else:
                retry = want_match

    def decorate(self, case, r, want_match, want_re=False):
        schema = case["schema"]
        case["layout"] = r.below(1 << 30)
        # metamodel configuration and regexp shapes (own stream: the rest of the case is drawn as before)
        g = Rng(f"c33-config:{case['layout']}")
        shaped = pg.apply_re_shapes(case, g)
        opts = schema["opts"]
        if g.chance(0.65 if shaped else 0.3):
            opts["use_regexp_group"] = True
        for name, p in (("memoization", 0.2), ("autokwd", 0.2), ("ignore_case", 0.15), ("textx_tools_support", 0.15)):
            if g.chance(p):
                opts[name] = True
        rend = pg.render(case, case["layout"])
        rules = [x["name"] for x in schema["rules"]] + [a["name"] for a in schema["abstracts"]]
        spec = {}
        if want_match:
            cands = [(k, rule, off, txt) for (k, rule, off, txt) in rend.matches]
            if not cands:
                return False
            k, rule, off, txt = r.choice(cands)
            # the values of regexp rules (with groups) are few among all matches (names, references, numbers)
            regex = {m["name"] for m in schema["matches"] if m["kind"] == "re"}
            special = [c for c in cands if c[1] in shaped]
            if want_re and not special:
                special = [c for c in cands if c[1] in regex]
                if not special:
                    return False
            if special and (want_re or g.chance(0.5)):
                k, rule, off, txt = g.choice(special)
            nth = [m for m in rend.matches if m[1] == rule].index((k, rule, off, txt))
            spec["target"] = {"kind": "match", "rule": rule, "n": nth}
            case["match_reg"] = list(dict.fromkeys([rule] + [m["name"] for m in schema["matches"] if r.chance(0.5)]
                                                   + [b for b in pg.BASES if r.chance(0.3)]))
            case["reg"] = [x for x in rules if r.chance(0.4)]
        else:
            uid = r.choice(sorted(rend.objs))
            o = rend.objs[uid]
            options = [o["rule"]]
            if o["parent"] is not None and o["decl"] != o["rule"]:
                options.append(o["decl"])
            rule = r.choice(options)
            spec["target"] = {"kind": "obj", "rule": rule, "uid": uid}
            case["reg"] = list(dict.fromkeys([rule] + [x for x in rules if r.chance(0.5)]))
            case["match_reg"] = [m["name"] for m in schema["matches"] if r.chance(0.3)]
        spec["exc"] = r.weighted([("textx", 4), ("semantic", 3), ("value", 3), ("key", 1)])
        spec["supplied"] = []
        if spec["exc"] in ("textx", "semantic") and r.chance(0.5):
            spec["supplied"] = [k for k in ("line", "col", "nchar", "filename") if r.chance(0.4)]
        spec["wrapped"] = r.chance(0.85) if spec["exc"] in ("value", "key") else r.chance(0.4)
        if len(case["files"]) > 1:
            case["from_file"] = True
        case["load"] = "file" if case.get("from_file") else r.weighted([("str", 3), ("str_named", 1)])
        case["spec"] = spec
        # keep the resolver busy in some cases, but never unresolvable
        for ref in self.case_refs(case):
            ref["wait"] = 0 if r.chance(0.7) else 1
        waits = sorted({ref["wait"] for ref in self.case_refs(case)})
        rank = {w: i for i, w in enumerate(waits)}
        for ref in self.case_refs(case):
            ref["wait"] = rank[ref["wait"]]
        return True

    @staticmethod
    def case_refs(case):
        for f in case["files"]:
            for o in pg.walk_objs(f["root"]):
                for v in o["vals"].values():
                    for x in (v if isinstance(v, list) else [v]):
                        if isinstance(x, dict) and "ref" in x:
                            yield x

    # ------------------------------------------------------------------ implementation
    def impl(self, case):
        use_repo()
        from textx.exceptions import TextXError

        spec = case["spec"]
        tgt = spec["target"]
        script, mscript = {}, {}
        if tgt["kind"] == "obj":
            script[(tgt["rule"], tgt["uid"])] = ["raise", spec]
        else:
            mscript[(tgt["rule"], tgt["n"])] = ["raise", spec]
        wrapped = [tgt["rule"]] if spec["wrapped"] else []
        run = Run(case, case["reg"], script, match_reg=case.get("match_reg", []), mscript=mscript, wrapped=wrapped)
        obs = {"raised": False}

        def hook(spec_, what):
            obs["raised"] = True
            if tgt["kind"] == "obj":
                from textx import get_model

                m = get_model(what)
                line, col = m._tx_parser.pos_to_linecol(what._tx_position)
                obs["site"] = {"file": self.norm(run, m._tx_filename), "line": line, "col": col,
                               "len": what._tx_position_end - what._tx_position}
                # what the location is computed from: text of the parser of every walked model, spans of
                # the objects (as the real objects report them)
                obs["srcs"] = {str(k): {"file": self.norm(run, mm_._tx_filename),
                                        "text": getattr(getattr(mm_, "_tx_parser", None), "input", None)}
                               for k, mm_ in run.models.items()}
                obs["spans"] = [[u, o._tx_position, o._tx_position_end] for u, o in sorted(run.real.items())
                                if hasattr(o, "_tx_position") and hasattr(o, "_tx_position_end")]
            else:
                obs["value"] = str(what)
            return make_exc(spec_)

        run.raise_hook = hook
        try:
            run.build()
            run.providers()
            run.processors()
            try:
                run.load(file_name_kw=NAMED if case["load"] == "str_named" else None)
                obs["outcome"] = "ok"
            except TextXError as e:
                obs["outcome"] = "textx"
                obs["err"] = {"cls": type(e).__name__, "filename": self.norm(run, e.filename), "line": e.line,
                              "col": e.col, "nchar": e.nchar}
            except Exception as e:  # noqa: BLE001
                obs["outcome"] = "other"
                obs["err"] = {"cls": type(e).__name__, "msg": str(e)[:200]}
            obs["calls"] = sum(1 for e in run.events if e[0] in ("proc", "match"))
            if tgt["kind"] == "match" and obs["raised"]:
                obs["mcalls"] = [e[1] for e in run.events if e[0] == "match"]
            if tgt["kind"] == "obj" and obs["raised"]:
                # model state at the first processor call of each walked model (in walk order), class table
                obs["procs"] = [[e[1], e[2]] for e in run.events if e[0] == "proc"]
                obs["pre"] = {str(k): v for k, v in run.pre.items()}
                obs["order"] = [int(k) for k in run.pre]
                obs["classes"] = list(run.classes)
                obs["kinds"] = [{"common": 0, "abstract": 1, "match": 2}[run.class_of(n)._tx_type] for n in run.classes]
        finally:
            run.cleanup()
        return obs

    @staticmethod
    def norm(run, fn):
        if fn is None:
            return None
        fn = str(fn)
        if run.tmp and fn.startswith(run.tmp + os.sep):
            return "TMP/" + fn[len(run.tmp) + 1:]
        return fn

    # ------------------------------------------------------------------ Lean side
    FILE_IDS = {"supplied.x": 99, NAMED: 50}

    def fid(self, fn):
        if fn is None:
            return None
        if fn in self.FILE_IDS:
            return self.FILE_IDS[fn]
        if fn.startswith("TMP/f") and fn.endswith(".m"):
            return 1 + int(fn[5:-2])
        return 77

    def expected_site(self, case):
        """location of the processed text, from the generated text alone:
        (file name, line, col, length, is-model-root)"""
        rend = pg.render(case, case["layout"])
        tgt = case["spec"]["target"]
        if tgt["kind"] == "obj":
            o = rend.objs[tgt["uid"]]
            k, start, length, root = o["file"], o["start"], o["end"] - o["start"], o["parent"] is None
        else:
            k, _rule, start, txt = [m for m in rend.matches if m[1] == tgt["rule"]][tgt["n"]]
            length, root = len(txt), False
        line, col = pg.line_col(rend.texts[k], start)
        if case["load"] == "file":
            fn = f"TMP/f{k}.m"
        elif case["load"] == "str_named":
            fn = NAMED
        else:
            fn = None
        return fn, line, col, length, root

    def model_req(self, case, obs):
        if not obs.get("raised"):
            return None
        spec = case["spec"]
        tgt = spec["target"]
        walk = mtree = None
        if tgt["kind"] == "obj":
            kind = "obj"
            walk = self.walk_req(case, obs)
        else:
            # the match node: text of the model file, the match parse tree the renderer recorded; which node's
            # processor fails and where that node starts is determined by the model of process_match
            kind = "mtch"
            mtree = self.mtree_req(case)
        if spec["exc"] in ("value", "key"):
            raised = "other"
        else:
            sup = spec["supplied"]
            raised = {"f": 99 if "filename" in sup else None, "l": 77 if "line" in sup else None,
                      "c": 66 if "col" in sup else None, "n": 55 if "nchar" in sup else None}
        req = {"op": "proc_error", "kind": kind, "wrapped": bool(spec["wrapped"]), "raised": raised}
        if walk is not None:
            req["walk"] = walk
        else:
            req["mtree"] = mtree
        return req

    def mnum(self, case, name):
        names = [m["name"] for m in case["schema"]["matches"]] + list(pg.BASES)
        return names.index(name) if name in names else 900  # 900: a string match (no rule, no processor)

    def mtree_info(self, case):
        """(file, tree index, trees of the file, target rule, target offset) of the failing match-processor call."""
        rend = pg.render(case, case["layout"])
        tgt = case["spec"]["target"]
        k, rule, start, _txt = [m for m in rend.matches if m[1] == tgt["rule"]][tgt["n"]]
        trees = [t for fk, t in rend.mtrees if fk == k]
        for i, t in enumerate(trees):
            if (rule, start) in self.mflat(t):
                return rend, k, i, trees, rule, start
        return rend, k, None, trees, rule, start

    @staticmethod
    def mflat(t):
        """calls of a match tree in post-order: (rule, offset)"""
        out = []
        for kid in t[2] or []:
            out.extend(Prop.mflat(kid))
        out.append((t[0], t[1]))
        return out

    def mtree_req(self, case):
        rend, k, i, trees, rule, start = self.mtree_info(case)
        fn, _line, _col, _length, _root = self.expected_site(case)

        def enc(t):
            head = [self.mnum(case, t[0]), t[1]]
            return head if t[2] is None else head + [[enc(x) for x in t[2]]]

        tree = enc(trees[i]) if i is not None else [900, 0]
        return {"tree": tree, "raise": [self.mnum(case, rule), start],
                "reg": sorted({self.mnum(case, r) for r in case.get("match_reg", [])}),
                "f": self.fid(fn), "text": rend.texts[k]}

    def walk_req(self, case, obs):
        """the walk up to the failing call, replayed by `Proc.loadE`: every walked model as it was at its first
        processor call, the registrations, which (rule, object) raises, and what `get_location` reads."""
        tgt = case["spec"]["target"]
        classes = list(obs["classes"])
        kinds = list(obs["kinds"])
        absn = {a["name"] for a in case["schema"]["abstracts"]}
        for r in case["reg"]:
            if r not in classes:
                classes.append(r)
                kinds.append(1 if r in absn else 0)
        order = obs["order"]
        reg = [classes.index(r) for r in case["reg"]]
        rend = pg.render(case, case["layout"])
        for k in order:  # (a parser that does not expose its input: the text that was loaded)
            if obs["srcs"][str(k)]["text"] is None:
                obs["srcs"][str(k)]["text"] = rend.texts[k]
        return {
            "kinds": kinds,
            "regs": [reg for _k in order],
            "models": [obs["pre"][str(k)] for k in order],
            "raise": [classes.index(tgt["rule"]), tgt["uid"]],
            "srcs": [{"f": self.fid(obs["srcs"][str(k)]["file"]), "text": obs["srcs"][str(k)]["text"]} for k in order],
            "spans": obs["spans"],
        }

    def compare(self, case, obs, out):
        if "err" in out:
            return f"Lean model rejects the request: {out}"
        if case["spec"]["target"]["kind"] == "obj":
            if "nofail" in out:
                return f"the processor raised on {case['spec']['target']}, in the model walk no call raises"
            classes = list(obs["classes"]) + [r for r in case["reg"] if r not in obs["classes"]]
            fail = out.get("fail")
            if fail is None:
                return f"model answer without the failing call: {out}"
            calls = [[classes.index(r), u] for r, u in obs["procs"]]
            if not calls or fail["call"] != calls[-1]:
                return f"failing call: implementation {calls[-1:]}, model {fail['call']}"
            if fail["before"] != calls[:-1]:
                return f"calls before the failing call: implementation {calls[:-1]}, model {fail['before']}"
        if case["spec"]["target"]["kind"] == "match":
            if "nofail" in out:
                return f"the match processor raised on {case['spec']['target']}, in the model no call of the tree raises"
            rend, _k, i, trees, rule, start = self.mtree_info(case)
            fail = out.get("fail")
            if fail is None or i is None:
                return f"model answer without the failing call: {out} (tree {i})"
            if fail["call"] != [self.mnum(case, rule), start]:
                return f"failing match-processor call: model {fail['call']}, target {[self.mnum(case, rule), start]}"
            reg = set(case.get("match_reg", []))
            earlier = sum(1 for t in trees[:i] for (r, _p) in self.mflat(t) if r in reg)
            seen = obs.get("mcalls", [])
            want = [r for (r, p) in self.mflat(trees[i]) if r in reg]
            want = want[:len(fail["before"])]
            if [self.mnum(case, r) for r in want] != [c[0] for c in fail["before"]]:
                return f"calls before the failing one: model {fail['before']}, tree {want}"
            if seen[:-1][earlier:] != want or seen[-1:] != [rule]:
                return (f"match-processor calls of the failing match: implementation {seen[earlier:]}, "
                        f"model {want + [rule]}")
        if "other" in out:
            got = obs["outcome"]
            return None if got == "other" else f"implementation outcome {got} {obs.get('err')}, model: the exception passes unchanged"
        if obs["outcome"] != "textx":
            return f"implementation outcome {obs['outcome']} {obs.get('err')}, model {out}"
        e, m = obs["err"], out["textx"]
        got = {"f": self.fid(e["filename"]), "l": e["line"], "c": e["col"], "n": e["nchar"]}
        if got != m:
            return f"error location: implementation {got}, model {m}"
        return None

    # ------------------------------------------------------------------ oracle
    def oracle(self, case, obs):
        spec = case["spec"]
        if not obs.get("raised"):
            if obs["outcome"] == "ok":
                return "the failing processor call never happened and loading succeeded (generator/harness)"
            return f"loading failed before the chosen processor call: {obs.get('err')}"
        applies = spec["exc"] in ("textx", "semantic") or spec["wrapped"]
        if not applies:
            # a foreign exception without textxerror_wrap: the property says nothing
            return None
        if obs["outcome"] != "textx":
            return f"loading did not fail with a TextXError: {obs['outcome']} {obs.get('err')}"
        fn, line, col, length, _root = self.expected_site(case)
        sup = spec["supplied"] if spec["exc"] in ("textx", "semantic") else []
        want = {
            "filename": SUPPLIED["filename"] if "filename" in sup else fn,
            "line": SUPPLIED["line"] if "line" in sup else line,
            "col": SUPPLIED["col"] if "col" in sup else col,
        }
        e = obs["err"]
        for k, v in want.items():
            if e[k] != v:
                return (f"error {k} = {e[k]!r}, the processed text is at {fn}:{line}:{col}"
                        f"{' (supplied by the processor: ' + repr(SUPPLIED[k]) + ')' if k in sup else ''}")
        if "nchar" in sup:
            if e["nchar"] != SUPPLIED["nchar"]:
                return f"error nchar = {e['nchar']!r}, the processor supplied {SUPPLIED['nchar']}"
        elif spec["target"]["kind"] == "obj" and e["nchar"] != length:
            return f"error nchar = {e['nchar']!r}, the processed object's text is {length} characters long"
        if spec["exc"] == "semantic" and e["cls"] != "TextXSemanticError":
            return f"the processor's TextXSemanticError arrived as {e['cls']}"
        return None

    def nontrivial(self, case, obs):
        spec = case["spec"]
        return bool(obs.get("raised")) and (spec["exc"] in ("textx", "semantic") or spec["wrapped"])

    def sample_view(self, case, obs):
        rend = pg.render(case, case.get("layout", 0))
        return {"grammar": rend.grammar, "texts": rend.texts, "spec": case["spec"], "load": case["load"], "impl": obs}

    def extra_evidence(self, cases, obs, outs):
        d = {}
        for c, o in zip(cases, obs):
            if not isinstance(o, dict) or "outcome" not in o:
                continue
            s = c["spec"]
            key = f"{s['target']['kind']}/{s['exc']}/{'wrapped' if s['wrapped'] else 'plain'}/{c['load']}"
            d[key] = d.get(key, 0) + 1
            if s["supplied"]:
                d["with-supplied-location"] = d.get("with-supplied-location", 0) + 1
            opts = c["schema"]["opts"]
            for name in ("use_regexp_group", "memoization", "autokwd", "ignore_case", "textx_tools_support"):
                if opts.get(name):
                    d["opt:" + name] = d.get("opt:" + name, 0) + 1
            if s["target"]["kind"] == "match":
                m = {x["name"]: x for x in c["schema"]["matches"]}.get(s["target"]["rule"])
                if m and m["kind"] == "re":
                    key = f"regexp-target/{m.get('shape', 'plain')}/{'group' if opts.get('use_regexp_group') else 'nogroup'}"
                    d[key] = d.get(key, 0) + 1
            if len(c["files"]) > 1 and s["target"]["kind"] == "obj":
                d["multi-file"] = d.get("multi-file", 0) + 1
        return {"distribution": d}

    # ------------------------------------------------------------------ shrinking / search
    def shrink(self, case):
        import copy

        from harness.props.c13 import Prop as C13

        spec = case["spec"]
        if spec["supplied"]:
            for k in spec["supplied"]:
                c = copy.deepcopy(case)
                c["spec"]["supplied"].remove(k)
                yield c
        for i, rule in enumerate(case["reg"]):
            if rule != spec["target"].get("rule"):
                c = copy.deepcopy(case)
                del c["reg"][i]
                yield c
        if spec["target"]["kind"] == "obj":
            from harness.props.c13 import case_objs

            keep, rule = spec["target"]["uid"], spec["target"]["rule"]
            helper = C13()
            n = 0
            for cand in helper.shrink(dict(case, script=[])):
                # the failing call must stay: same object, same registered rule, same holding attribute type
                if keep in case_objs(cand) and rule in cand["reg"] and (
                        pg.render(cand, cand["layout"]).objs[keep]["decl"] == pg.render(case, case["layout"]).objs[keep]["decl"]):
                    cand.pop("script", None)
                    n += 1
                    yield cand
                if n >= 40:
                    break

    def extra_search(self, rng, tier, broken):
        return list(self.gen(rng, 600 if tier == "quick" else 4000, tier))
