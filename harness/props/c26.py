"""C26 — the language and generator registries behave as case-insensitive maps.

A case is a *history*: the entry points of the environment (fake
`entry_points`, or the real ones of /venv when `real_eps`) and a list of calls
of the registration API (textx/registration.py:114-396).  The real module runs
the history from the import-time state; the Lean machine `Reg.run`
(Drivers/Reg.lean) runs the same history; results (values by object identity,
exception classes) are compared call by call.  The direct oracle `Ref` decides
the property from its statement with plain dictionaries over `casefold()`.

Op formats (shared with the driver):
 ["reg_lang",uid,name,pattern|None,mm]  mm = "f" | "b" | "n" | k (instance k)
 ["lang",name] ["lang_keys"] ["clear_langs"] ["mm",name,kw] ["files",f] ["file",f]
 ["mms_file",f] ["mm_file",f,kw] ["reg_gen",uid,lang,target] ["gen",lang,target,any]
 ["gen_keys"] ["clear_gens"]
case["alt"][i] = 1 selects the other spelling of the same call
(register_language(name, pattern=…) instead of a LanguageDesc;
generator_for_language_target instead of generator_description).

The argument of the *_for_file calls is a `file_name_or_pattern`: the universes
contain, for every pattern, the pattern text itself, a file name derived from it
and a near miss; patterns include fnmatch character classes (`[…]`, `[!…]`,
ranges, unclosed `[`, bracketed literal names), for which a pattern does not
accept its own text.
"""
import fnmatch

from harness.core import Check, use_repo

KW = {0: {}, 1: {"ignore_case": True}, 2: {"ignore_case": False, "autokwd": True}}
GRAMMAR = "M: 'm' INT;"


INTERACTIONS = {"dup-other-case", "entry-point-after-clear", "cache-hit", "cache-refresh", "kwargs-fresh", "any-fallback"}


def fold(s):
    return s.casefold()


def variants(base):
    out = [base, base.upper(), base.capitalize(), base[:1] + base[1:].upper()]
    res = []
    for v in out:
        if v not in res:
            res.append(v)
    return res


# --------------------------------------------------------------------------
# direct oracle: the property statement over plain dictionaries
# --------------------------------------------------------------------------
def pat_matches(pattern, f):
    return pattern is not None and (f == pattern or fnmatch.fnmatchcase(f, pattern))


def pat_tokens(p):
    """the units of an fnmatch pattern: '*', '?', ('lit', c), ('cls', negated, text)"""
    out, i, n = [], 0, len(p)
    while i < n:
        c = p[i]
        i += 1
        if c in "*?":
            out.append(c)
        elif c == "[":
            j = i
            if j < n and p[j] == "!":
                j += 1
            if j < n and p[j] == "]":
                j += 1
            while j < n and p[j] != "]":
                j += 1
            if j >= n:
                out.append(("lit", "["))
            else:
                body = p[i:j]
                neg = body.startswith("!")
                out.append(("cls", neg, body[1:] if neg else body))
                i = j + 1
        else:
            out.append(("lit", c))
    return out


def class_items(body):
    """members of a class text as (lo, hi) pairs, read left to right"""
    items, i = [], 0
    while i < len(body):
        if i + 2 < len(body) and body[i + 1] == "-":
            items.append((body[i], body[i + 2]))
            i += 3
        else:
            items.append((body[i], body[i]))
            i += 1
    return items


FILL = "xyab1c.d/"


def derive_file(p, rng, miss=False):
    """a text built from the pattern unit by unit (generation aid only: the oracle decides
    matching with fnmatch itself): `*` a short run, `?` a character, a class one of its
    members; `miss` replaces one single-character unit by a character it refuses"""
    toks = pat_tokens(p)
    singles = [i for i, t in enumerate(toks) if isinstance(t, tuple)]
    bad = rng.choice(singles) if (miss and singles) else -1
    out = []
    for i, t in enumerate(toks):
        if t == "*":
            out.append("".join(rng.choice(FILL) for _ in range(rng.weighted([(0, 2), (1, 4), (2, 2)]))))
        elif t == "?":
            out.append(rng.choice(FILL))
        elif t[0] == "lit":
            out.append(t[1] if i != bad else ("q" if t[1] != "q" else "w"))
        else:
            items = class_items(t[2])
            inside = lambda c: any(lo <= c <= hi for lo, hi in items)
            cand = sorted(set(FILL + "0129-]![^z" + "".join(lo + hi for lo, hi in items)))
            want = (not t[1]) != (i == bad)
            ok = [c for c in cand if inside(c) == want]
            out.append(rng.choice(ok) if ok else "q")
    return "".join(out)


class Ref:
    """Reference reading of the statement.  `check(op, res)` returns a failure
    text or None and advances the reference state by what the statement says
    the call does (not by what the implementation answered)."""

    def __init__(self, eps, geps):
        self.ok_env = True
        self.eps = {}
        for d in eps:
            if fold(d[1]) in self.eps:
                self.ok_env = False
            self.eps[fold(d[1])] = d
        self.geps = {}
        for g in geps:
            k = (fold(g[1]), fold(g[2]))
            if k in self.geps:
                self.ok_env = False
            self.geps[k] = g
        self.L = dict(self.eps)
        self.G = dict(self.geps)
        self.C = {}
        self.seen_serials = set()
        self.features = set()
        self.cleared = False
        self.spelling = {}  # key -> spelling used at registration

    # -- helpers
    def _matching(self, f):
        return [d for d in self.L.values() if pat_matches(d[2], f)]

    def _match_features(self, f, exp):
        for d in exp:
            if "[" in d[2]:
                self.features.add("class-pattern")
            if d[2] == f:
                self.features.add("pattern-as-query")
                if not fnmatch.fnmatchcase(f, d[2]):
                    self.features.add("pattern-not-self-matching")

    def _expect_mm(self, d, kw, res, what):
        """the call must (re)create the meta-model of language d with kwargs kw"""
        k = fold(d[1])
        kind = d[3]
        if kind == "b":
            if res != ["reg_error"]:
                return f"{what}: factory result is not a meta-model, expected TextXRegistrationError, got {res}"
            return None
        if kind == "n":
            if res[0] not in ("reg_error", "type_error", "other"):
                return f"{what}: language without callable meta-model answered {res}"
            return None
        if kind == "f":
            if res[0] != "mm" or res[1][0] != "made":
                return f"{what}: expected a meta-model made by the factory of language {d[1]!r}, got {res}"
            _, serial, by, got_kw = res[1]
            if by != d[0]:
                return f"{what}: meta-model made by descriptor {by}, the language registered under {k!r} is {d[0]}"
            if got_kw != kw:
                return f"{what}: factory received kwargs #{got_kw}, the call passed #{kw}"
            if serial in self.seen_serials:
                return f"{what}: expected a fresh meta-model instance, got one returned before (serial {serial})"
            self.seen_serials.add(serial)
            self.C[k] = res[1]
            if kw:
                self.features.add("kwargs-fresh")
            return None
        # instance
        if res != ["mm", ["given", kind]]:
            return f"{what}: expected the registered instance {kind}, got {res}"
        self.C[k] = res[1]
        return None

    def _mm(self, name, kw, res, what):
        k = fold(name)
        if kw == 0 and k in self.C:
            if res != ["mm", self.C[k]]:
                return f"{what}: cached meta-model {self.C[k]} not returned, got {res}"
            self.features.add("cache-hit")
            return None
        if k not in self.L:
            if res != ["reg_error"]:
                return f"{what}: language {k!r} is not registered, expected TextXRegistrationError, got {res}"
            return None
        if k in self.C:
            self.features.add("cache-refresh")
        return self._expect_mm(self.L[k], kw, res, what)

    def _desc_ok(self, got, d):
        return got[0] == d[0] and got[1] == d[1] and got[2] == d[2]

    def check(self, op, res):
        tag = op[0]
        what = tag + str(op[1:])
        if res and res[0] == "other":
            if not (tag in ("mm", "mms_file", "mm_file")):
                return f"{what}: raised {res[1]}"
        if tag == "reg_lang":
            k = fold(op[2])
            if k in self.L:
                if self.spelling.get(k, self.L[k][1]) != op[2]:
                    self.features.add("dup-other-case")
                if res != ["reg_error"]:
                    return f"{what}: {k!r} is already registered (as {self.L[k][1]!r}), duplicate not refused: {res}"
                return None
            self.L[k] = [op[1], op[2], op[3], op[4]]
            self.spelling[k] = op[2]
            if res != ["unit"]:
                return f"{what}: new language refused: {res}"
            return None
        if tag == "lang":
            k = fold(op[1])
            if k in self.L:
                d = self.L[k]
                if d[1] != op[1]:
                    self.features.add("lookup-other-case")
                if self.cleared and k in self.eps:
                    self.features.add("entry-point-after-clear")
                if res[0] != "desc" or not self._desc_ok(res[1:], d):
                    return f"{what}: expected the language registered as {d[1]!r} (descriptor {d[0]}), got {res}"
                return None
            if res != ["reg_error"]:
                return f"{what}: nothing registered under {k!r}, expected TextXRegistrationError, got {res}"
            return None
        if tag == "lang_keys":
            if res[0] != "keys":
                return f"{what}: {res}"
            got = [fold(x) for x in res[1]]
            if sorted(got) != sorted(self.L):
                return f"{what}: registered names are {sorted(self.L)}, got {sorted(res[1])}"
            return None
        if tag == "clear_langs":
            self.L = dict(self.eps)
            self.C = {}
            self.cleared = True
            self.spelling = {}
            if res != ["unit"]:
                return f"{what}: {res}"
            return None
        if tag == "mm":
            return self._mm(op[1], op[2], res, what)
        if tag == "files":
            exp = self._matching(op[1])
            if res[0] != "descs":
                return f"{what}: expected {sorted(d[0] for d in exp)}, got {res}"
            got = sorted(x[0] for x in res[1])
            if got != sorted(d[0] for d in exp):
                return f"{what}: languages whose pattern matches are {sorted(d[0] for d in exp)}, got {got}"
            if exp:
                self.features.add("file-match")
                self._match_features(op[1], exp)
            return None
        if tag == "file":
            exp = self._matching(op[1])
            if len(exp) == 1:
                if res[0] != "desc" or not self._desc_ok(res[1:], exp[0]):
                    return f"{what}: exactly one language matches ({exp[0][0]}), got {res}"
                self.features.add("file-match")
                self._match_features(op[1], exp)
                return None
            if res != ["reg_error"]:
                return f"{what}: {len(exp)} languages match, expected TextXRegistrationError, got {res}"
            return None
        if tag == "mm_file":
            exp = self._matching(op[1])
            if len(exp) != 1:
                if res != ["reg_error"]:
                    return f"{what}: {len(exp)} languages match, expected TextXRegistrationError, got {res}"
                return None
            return self._mm(exp[0][1], op[2], res, what)
        if tag == "mms_file":
            exp = self._matching(op[1])
            uncallable = [d for d in exp if d[3] in ("b", "n") and fold(d[1]) not in self.C]
            if uncallable:
                if res[0] not in ("reg_error", "type_error", "other"):
                    return f"{what}: language {uncallable[0][1]!r} has no usable meta-model, got {res}"
                return None
            if res[0] != "mms" or len(res[1]) != len(exp):
                return f"{what}: expected one meta-model per matching language ({len(exp)}), got {res}"
            rest = [list(m) for m in res[1]]
            for d in exp:
                k = fold(d[1])
                if k in self.C:
                    cand = [m for m in rest if m == self.C[k]]
                elif d[3] == "f":
                    cand = [m for m in rest if m[0] == "made" and m[2] == d[0]]
                else:
                    cand = [m for m in rest if m == ["given", d[3]]]
                if not cand:
                    return f"{what}: no meta-model for matching language {d[1]!r} in {res[1]}"
                m = cand[0]
                rest.remove(m)
                f = self._mm(d[1], 0, ["mm", m], what)
                if f:
                    return f
            return None
        if tag == "reg_gen":
            k = (fold(op[2]), fold(op[3]))
            if k in self.G:
                if (self.G[k][1], self.G[k][2]) != (op[2], op[3]):
                    self.features.add("dup-other-case")
                if res != ["reg_error"]:
                    return f"{what}: generator {k} already registered, duplicate not refused: {res}"
                return None
            self.G[k] = [op[1], op[2], op[3]]
            if res != ["unit"]:
                return f"{what}: new generator refused: {res}"
            return None
        if tag == "gen":
            k = (fold(op[1]), fold(op[2]))
            g = self.G.get(k)
            if g is None and op[3]:
                g = self.G.get(("any", k[1]))
                if g is not None:
                    self.features.add("any-fallback")
            if g is None:
                if res != ["reg_error"]:
                    return f"{what}: no generator for {k}, expected TextXRegistrationError, got {res}"
                return None
            if (g[1], g[2]) != (op[1], op[2]):
                self.features.add("lookup-other-case")
            if self.cleared_g and (fold(g[1]), fold(g[2])) in self.geps:
                self.features.add("entry-point-after-clear")
            if res != ["gen", g[0]]:
                return f"{what}: expected generator {g[0]}, got {res}"
            return None
        if tag == "gen_keys":
            if res[0] != "gkeys":
                return f"{what}: {res}"
            got = sorted((fold(a), fold(b)) for a, b in res[1])
            if got != sorted(self.G):
                return f"{what}: registered generators are {sorted(self.G)}, got {got}"
            return None
        if tag == "clear_gens":
            self.G = dict(self.geps)
            self.cleared_g = True
            if res != ["unit"]:
                return f"{what}: {res}"
            return None
        return f"unknown op {op}"

    cleared_g = False

    # -- reference transition without an observation (used by the generator's state exploration)
    def advance(self, op):
        """Apply the statement's effect of `op`; returns nothing.  Serial numbers are
        synthesised so that abstract states can be compared."""
        tag = op[0]
        if tag == "reg_lang":
            k = fold(op[2])
            if k not in self.L:
                self.L[k] = [op[1], op[2], op[3], op[4]]
        elif tag == "clear_langs":
            self.L = dict(self.eps)
            self.C = {}
        elif tag in ("mm", "mm_file", "mms_file"):
            if tag == "mm":
                targets = [(fold(op[1]), op[2])]
            else:
                m = self._matching(op[1])
                if tag == "mm_file":
                    targets = [(fold(m[0][1]), op[2])] if len(m) == 1 else []
                else:
                    targets = [(fold(d[1]), 0) for d in m]
            for k, kw in targets:
                if kw == 0 and k in self.C:
                    continue
                d = self.L.get(k)
                if d is None:
                    break
                if d[3] == "f":
                    self.C[k] = ["made", len(self.seen_serials), d[0], kw]
                    self.seen_serials.add(len(self.seen_serials))
                elif d[3] in ("b", "n"):
                    break
                else:
                    self.C[k] = ["given", d[3]]
        elif tag == "reg_gen":
            k = (fold(op[2]), fold(op[3]))
            if k not in self.G:
                self.G[k] = [op[1], op[2], op[3]]
        elif tag == "clear_gens":
            self.G = dict(self.geps)

    def key(self):
        """abstract state up to descriptor identity and serial numbers"""
        ls = tuple(sorted((k, d[2], str(d[3])) for k, d in self.L.items()))
        cs = tuple(sorted((k, m[0], m[-1]) for k, m in self.C.items()))
        gs = tuple(sorted((k, g[1], g[2]) for k, g in self.G.items()))
        return (ls, cs, gs)


# --------------------------------------------------------------------------
# universes
# --------------------------------------------------------------------------
# small universe (state exploration): a plain pattern, a class pattern (accepts y.b and z.c, not
# its own text), no pattern; queries: a file per pattern, a file nobody accepts, both pattern texts
PATTERNS = ["*.a", "*.[bc]", None]
FILES = ["x.a", "y.b", "z.d", "*.[bc]", "*.a"]
PLAIN_PATTERNS = ["*.a", "*.b", None, "x.*", "?.a", "x.a", "*", "", "*.A", "x*y.a", "??.b", "d/*.a", "*/x.b"]
# character classes: set, negated set, range, `]` / `-` as members, unclosed `[` (a literal),
# bracketed literal file names, empty range, negated empty range, `^` / `[` as first member
CLASS_PATTERNS = ["*.[ab]", "*.[ch]dr", "r[1].b", "x[0-9].a", "[!x]*.a", "?[!a-c].b", "[]x].a", "x[.a", "*.[a-",
                  "x[a-].b", "x[z-a].a", "x[!z-a].a", "[^x].a", "[[]x.a", "*.[!]", "x[!]].a", "[a-b-d].a",
                  # leading empty ranges followed by `!`: CPython reads a negated class
                  "[b-a!x].a", "x[b-a!-y-z].b"]
WIDE_PATTERNS = PLAIN_PATTERNS + CLASS_PATTERNS
WIDE_FILES = ["x.a", "y.b", "z.c", "*.a", "xy.a", "x.A", "xzzy.a", "", "x.", "ab.b", "x.a.b", "a.cdr", "r1.b", "x5.a",
              "[.a", "x[.a", "r[2].b", "-.a", "d.a",
              # directory parts (`*` crosses `/`, nothing is anchored to the base name) and dot files
              "d/x.a", "/t/d/x.a", "d/e/x.b", ".a", "d/.b"]
LANG_BASES = ["ab", "cd"]
WIDE_BASES = ["ab", "cd", "e-1", "f_g", "any", "textx"]
EP_SMALL = [[100, "Ep", "*.a", "f"]]
GEP_SMALL = [[200, "any", "dot"], [201, "Ep", "Java"]]


ODD_PATTERNS = ["", "*", "?", None, "a b", "*.*", "[", "]", "[]", "[!]", "[]]", "[!]]", "[a-", "[-]", "[!-]", "[*]", "[?]",
                "[b-a!x]", "[b-a!]", "[b-a!-x-z]", "[b-ad-c!x]", "[b-a!--a]", "**", "[a][b]", "[ ]"]


def lang_universe(bases, patterns, files, ep_names, kinds=("f", 51)):
    ops = []
    names = [v for b in bases for v in variants(b)[:3]]
    for n in names:
        for p in patterns:
            for m in kinds:
                ops.append(["reg_lang", 0, n, p, m])
    ops.append(["reg_lang", 0, bases[0], patterns[0], "b"])
    ops.append(["reg_lang", 0, bases[-1].upper(), patterns[0], "n"])
    look = names + [v for e in ep_names for v in variants(e)[:2]] + ["nope"]
    for n in look:
        ops.append(["lang", n])
        ops.append(["mm", n, 0])
        ops.append(["mm", n, 1])
    ops.append(["mm", names[0], 2])
    ops.append(["lang_keys"])
    ops.append(["clear_langs"])
    for f in files:
        ops += [["files", f], ["file", f], ["mms_file", f], ["mm_file", f, 0], ["mm_file", f, 1]]
    return ops


def gen_universe(langs, targets):
    ops = []
    for l in langs:
        for t in targets:
            ops.append(["reg_gen", 0, l, t])
            ops.append(["gen", l, t, False])
            ops.append(["gen", l, t, True])
    ops.append(["gen", "nope", targets[0], True])
    ops.append(["gen", "nope", "nope", True])
    ops.append(["gen_keys"])
    ops.append(["clear_gens"])
    return ops


LANG_OPS = lang_universe(LANG_BASES, PATTERNS, FILES, ["Ep"])
GEN_OPS = gen_universe(["ab", "AB", "any", "ANY", "ep"], ["dot", "DOT", "java"])
LANG_PROBES = [["lang_keys"], ["lang", "AB"], ["lang", "cd"], ["lang", "EP"], ["files", "x.a"], ["files", "y.b"],
               ["file", "x.a"], ["files", "*.[bc]"], ["file", "*.[bc]"], ["file", "*.a"],
               ["mm", "ab", 0], ["mm", "CD", 0], ["mm", "ep", 0], ["mm", "Ab", 0]]
GEN_PROBES = [["gen_keys"], ["gen", "AB", "Dot", False], ["gen", "ab", "JAVA", True], ["gen", "EP", "java", False],
              ["gen", "zz", "DOT", True]]


def finalize(eps, geps, ops, alt=None, **extra):
    """give every registration call its own descriptor identity"""
    out = []
    for i, op in enumerate(ops):
        op = list(op)
        if op[0] in ("reg_lang", "reg_gen"):
            op[1] = i + 1
        out.append(op)
    case = {"eps": eps, "geps": geps, "ops": out, "alt": list(alt) if alt else [0] * len(out)}
    case.update(extra)
    return case


def explore(eps, geps, universe, depth_cap, state_cap):
    """Breadth-first over distinct abstract states of the reference machine:
    returns [(path reaching a new state)], complete up to depth_cap / state_cap."""
    start = Ref(eps, geps)
    seen = {start.key(): []}
    frontier = [[]]
    levels = [[[]]]
    for _ in range(depth_cap):
        nxt = []
        for path in frontier:
            for op in universe:
                if op[0] in ("lang", "lang_keys", "files", "file", "gen", "gen_keys"):
                    continue  # pure lookups never change the abstract state
                r = Ref(eps, geps)
                for i, o in enumerate(path + [op]):
                    o = list(o)
                    if o[0] in ("reg_lang", "reg_gen"):
                        o[1] = i + 1
                    r.advance(o)
                k = r.key()
                if k not in seen:
                    seen[k] = path + [op]
                    nxt.append(path + [op])
                    if len(seen) >= state_cap:
                        break
            if len(seen) >= state_cap:
                break
        levels.append(nxt)
        frontier = nxt
        if not nxt or len(seen) >= state_cap:
            break
    return levels


_EXPLORED = {}


def explored(kind, depth_cap, state_cap):
    key = (kind, depth_cap, state_cap)
    if key not in _EXPLORED:
        if kind == "lang":
            _EXPLORED[key] = explore(EP_SMALL, [], LANG_OPS, depth_cap, state_cap)
        else:
            _EXPLORED[key] = explore([], GEP_SMALL, GEN_OPS, depth_cap, state_cap)
    return _EXPLORED[key]


# --------------------------------------------------------------------------
# the check
# --------------------------------------------------------------------------
class Prop(Check):
    ID = "C26"
    LEAN_MODULE = "TextxVerif.Props.C26"
    THEOREMS = [
        "Reg.C26_refines",
        "Reg.C26_lookup_iff",
        "Reg.C26_dup_refused",
        "Reg.C26_lookup_any_case",
        "Reg.C26_gen_lookup_iff",
        "Reg.C26_gen_dup_refused",
        "Reg.C26_entrypoints_survive_clear",
        "Reg.C26_gen_entrypoints_survive_clear",
        "Reg.C26_for_file_exact",
        "Reg.C26_language_for_file_unique",
        "Reg.C26_cache_hit_until",
        "Reg.C26_cache_hit",
        "Reg.C26_cache_hit_file",
        "Reg.C26_mm_for_file",
        "Reg.C26_mm_for_file_history",
        "Reg.C26_cache_fresh_file",
        "Reg.C26_mms_for_file",
        "Reg.C26_cache_fresh",
        "Reg.C26_cache_instance",
        "Reg.C26_cache_not_stale",
        "Reg.C26_glob_self",
        "Reg.C26_fnmatch_bracket_free",
        "Reg.C26_fnmatch_self_false",
        "Reg.C26_pattern_self",
        "Reg.C26_pattern_self_unique",
    ]
    DRIVER = "Drivers/Reg.lean"
    QUICK_CASES = 1200
    THOROUGH_CASES = 10000  # random + malformed histories; the state exploration is complete on top of it
    RULE = ("histories of registration-API calls over case variants of a few names, patterns and file names, from the "
            "import-time state: (i) every call of the universe applied in every distinct abstract registry state reached "
            "breadth-first (complete to the depth stated in `exhaustive`), each followed by a fixed probe suite; (ii) "
            "random histories of 4..24 calls over a wider universe; (iii) a malformed stream (duplicate entry points, "
            "non-callable / non-meta-model factories, empty names and patterns, degenerate classes).  Patterns include fnmatch "
            "character classes (set, negated, range, `]`/`-` members, unclosed `[`, bracketed literal names); every "
            "*_for_file query universe holds, per pattern in play, the pattern text itself (`file_name_or_pattern`), a file "
            "derived from it unit by unit, and a near miss.  non-trivial = the history exercises at "
            "least two of: duplicate refused under another spelling, lookup under another spelling, entry point found "
            "after a clear, cache hit, cache refresh, fresh instance for kwargs, file match, `any` fall-back")
    MODELLED = ("hand-modelled: registration.py:114-396 (Reg.step: lazy entry-point load, lower() keys, duplicate refusal, "
                "clear, metamodel cache with the kwargs rule, languages_for_file) and the abstract map specification "
                "(Reg.Spec); tie X: call-by-call results of the real module vs Reg.run; fnmatch modelled with character "
                "classes (Reg.fnMatch = fnmatch.translate of CPython 3.12; Reg.globMatch is its '['-free fragment); not exhibited: importlib.metadata (entry points are an Env parameter, the "
                "harness substitutes `registration.entry_points`), non-ASCII case mapping, exceptions raised inside user "
                "factories")
    ASSUMPTIONS = [
        "str.lower is idempotent; names are ASCII in the correspondence (theorems hold for any idempotent lower)",
        "installed packages register pairwise distinct (case-folded) language names and (language, target) pairs "
        "(Env.Ok); with clashing entry points the first API call raises and the registry stays partially loaded "
        "(mirrored by the model, outside the property)",
        "Reg.fnMatch mirrors fnmatch.translate of CPython 3.12 including its re-reading of '!' after leading empty "
        "ranges of a class (`[b-a!x]` = `[!x]`); the theorems are independent of the matcher (any Env.fnm)",
        "fnmatch.fnmatch is case-sensitive (POSIX normcase)",
    ]

    # ---------------------------------------------------------------- gen
    def gen(self, rng, n, tier):
        quick = tier == "quick"
        # quick: 55 % of the cases explore states; thorough: every call of the universe in every
        # distinct abstract state (the exploration closes: no new state after depth 6), n more on top
        budget_bfs = int(n * 0.55) if quick else 10 ** 9
        out = []
        # (i) state exploration
        depth_cap, state_cap = (2, 400) if quick else (12, 20000)
        self._exhaustive = {}
        for kind, universe, probes, eps, geps, share in (
            ("lang", LANG_OPS, LANG_PROBES, EP_SMALL, [], 0.75),
            ("gen", GEN_OPS, GEN_PROBES, [], GEP_SMALL, 0.25),
        ):
            levels = explored(kind, depth_cap, state_cap)
            b = int(budget_bfs * share)
            made = 0
            complete_depth = -1
            for depth, paths in enumerate(levels):
                need = len(paths) * len(universe)
                if made + need <= b:
                    for path in paths:
                        for op in universe:
                            out.append(finalize(eps, geps, path + [op] + probes, origin=f"bfs-{kind}-d{depth}"))
                    made += need
                    complete_depth = depth
                else:
                    # sample (state, op) pairs of the first incomplete level
                    pairs = [(p, o) for p in paths for o in universe]
                    for p, o in rng.sample(pairs, max(0, b - made)):
                        out.append(finalize(eps, geps, p + [o] + probes, origin=f"bfs-{kind}-d{depth}-sampled"))
                    made = b
                    break
            self._exhaustive[kind] = {
                "states_per_depth": [len(l) for l in levels],
                "universe": len(universe),
                "complete_to_state_depth": complete_depth,
                "closed": bool(levels) and len(levels[-1]) == 0 and complete_depth == len(levels) - 1,
                "cases": made,
            }
        # (iii) malformed stream (~8 %)
        nmal = max(8, n // 12)
        for _ in range(nmal):
            out.append(self.malformed(rng.fork("mal")))
        # (ii) random histories
        total = n if quick else len(out) + n
        while len(out) < total:
            out.append(self.random_history(rng.fork("hist")))
        return out

    def random_env(self, rng):
        eps, geps = [], []
        for i in range(rng.weighted([(0, 2), (1, 4), (2, 3), (3, 1)])):
            base = ["textx", "Ep", "flow-dsl"][i]
            eps.append([100 + i, rng.choice(variants(base)), rng.choice(PLAIN_PATTERNS[:7] + CLASS_PATTERNS[:6]), rng.weighted([("f", 5), (60 + i, 2), ("b", 1)])])
        pairs = [("any", "dot"), ("textX", "PlantUML"), ("Ep", "dot"), ("flow-dsl", "Java")]
        for i, (l, t) in enumerate(rng.sample(pairs, rng.randint(0, 3))):
            geps.append([200 + i, l, t])
        return eps, geps

    def random_history(self, rng, eps=None, geps=None, length=None, real=False):
        if eps is None:
            eps, geps = self.random_env(rng)
        bases = rng.sample(WIDE_BASES, rng.randint(2, 4)) + [e[1].lower() for e in eps]
        targets = rng.sample(["dot", "java", "PlantUML", "x-y"], rng.randint(1, 3)) + [g[2] for g in geps]
        glangs = bases[:2] + ["any"] + [g[1] for g in geps]
        patterns = rng.sample(PLAIN_PATTERNS, 2) + rng.sample(CLASS_PATTERNS, 2) + [e[2] for e in eps]
        # queries are derived from the patterns in play: the pattern text itself, a file built from
        # it, a near miss — plus unrelated names
        files = rng.sample(WIDE_FILES, 2)
        for p in patterns:
            if p is None:
                continue
            for f in (p, derive_file(p, rng), derive_file(p, rng, miss=True)):
                if rng.chance(0.6) and f not in files:
                    files.append(f)
        length = length or rng.randint(4, 24)
        ops, alt = [], []
        mode = rng.weighted([("mixed", 5), ("lang", 4), ("gen", 2)])

        def name():
            return rng.choice(variants(rng.choice(bases)))

        for _ in range(length):
            if mode == "mixed":
                g = rng.chance(0.3)
            else:
                g = mode == "gen"
            if g:
                tag = rng.weighted([("reg_gen", 5), ("gen", 8), ("gen_keys", 1), ("clear_gens", 1)])
            else:
                tag = rng.weighted([("reg_lang", 7), ("lang", 5), ("lang_keys", 1), ("clear_langs", 2), ("mm", 8),
                                    ("files", 3), ("file", 3), ("mms_file", 2), ("mm_file", 3)])
                if real and tag in ("mm", "mms_file", "mm_file"):
                    tag = rng.choice(["files", "lang", "file"])
            if tag == "reg_lang":
                op = [tag, 0, name(), rng.choice(patterns), rng.weighted([("f", 8), (rng.choice([51, 52]), 3), ("b", 1), ("n", 1)])]
            elif tag == "lang":
                op = [tag, name() if rng.chance(0.9) else "nope"]
            elif tag == "mm":
                op = [tag, name(), rng.weighted([(0, 5), (1, 3), (2, 2)])]
            elif tag in ("files", "file", "mms_file"):
                op = [tag, rng.choice(files)]
            elif tag == "mm_file":
                op = [tag, rng.choice(files), rng.weighted([(0, 5), (1, 3), (2, 2)])]
            elif tag == "reg_gen":
                op = [tag, 0, rng.choice(variants(rng.choice(glangs))), rng.choice(variants(rng.choice(targets)))]
            elif tag == "gen":
                op = [tag, rng.choice(variants(rng.choice(glangs + ["nope"]))), rng.choice(variants(rng.choice(targets))), rng.chance(0.5)]
            else:
                op = [tag]
            ops.append(op)
            alt.append(1 if rng.chance(0.4) else 0)
        extra = {"origin": "random"}
        if real:
            extra = {"origin": "real-entry-points", "real_eps": True}
        return finalize(eps, geps, ops, alt, **extra)

    def malformed(self, rng):
        kind = rng.weighted([("dup-eps", 3), ("dup-geps", 2), ("odd-names", 3), ("real", 3)])
        if kind == "real":
            return self.random_history(rng, eps=[], geps=[], real=True)
        eps, geps = self.random_env(rng)
        if kind == "dup-eps":
            eps = [[100, "Ep", "*.a", "f"], [101, "x1", "*.b", "f"], [102, rng.choice(["EP", "ep", "Ep"]), "*.c", "f"], [103, "x2", None, "f"]]
            c = self.random_history(rng, eps, geps, length=rng.randint(3, 10))
            c["origin"] = "malformed:dup-eps"
            return c
        if kind == "dup-geps":
            geps = [[200, "any", "dot"], [201, "q", "r"], [202, "ANY", "Dot"], [203, "s", "t"]]
            c = self.random_history(rng, eps, geps, length=rng.randint(3, 10))
            c["origin"] = "malformed:dup-geps"
            return c
        ops = []
        odd = ["", " ", "a b", "A B", "-", "_", "0", "a.b", "A.B", "*", "?"]
        for _ in range(rng.randint(3, 12)):
            t = rng.weighted([("reg_lang", 4), ("lang", 3), ("mm", 3), ("files", 2), ("file", 1), ("reg_gen", 2), ("gen", 2)])
            if t == "reg_lang":
                ops.append([t, 0, rng.choice(odd), rng.choice(ODD_PATTERNS), rng.choice(["f", "n", "b", 51])])
            elif t == "lang":
                ops.append([t, rng.choice(odd)])
            elif t == "mm":
                ops.append([t, rng.choice(odd), rng.below(3)])
            elif t in ("files", "file"):
                ops.append([t, rng.choice(odd + [p for p in ODD_PATTERNS if p is not None])])
            elif t == "reg_gen":
                ops.append([t, 0, rng.choice(odd), rng.choice(odd)])
            else:
                ops.append([t, rng.choice(odd), rng.choice(odd), rng.chance(0.5)])
        return finalize(eps, geps, ops, [rng.below(2) for _ in ops], origin="malformed:odd-names")

    # --------------------------------------------------------------- impl
    def impl(self, case):
        use_repo()
        import textx.registration as reg
        from textx import metamodel_from_str
        from textx.exceptions import TextXRegistrationError

        serial = [0]
        instances = {}

        def instance(k):
            if k not in instances:
                instances[k] = metamodel_from_str(GRAMMAR)
                instances[k]._c26 = ["given", k]
            return instances[k]

        def mm_value(kind, uid):
            if kind == "f":
                def factory(**kwargs):
                    mm = metamodel_from_str(GRAMMAR, **kwargs)
                    tag = [t for t, kw in KW.items() if kw == kwargs]
                    mm._c26 = ["made", serial[0], uid, tag[0] if tag else -1]
                    serial[0] += 1
                    return mm
                return factory
            if kind == "b":
                return lambda **kwargs: 42
            if kind == "n":
                return None
            return instance(kind)

        def make_lang(d):
            uid, name, pattern, kind = d
            kw = dict(pattern=pattern, description=f"uid:{uid}")
            if kind != "n":
                kw["metamodel"] = mm_value(kind, uid)
            return reg.LanguageDesc(name, **kw)

        def make_gen(g):
            uid, lang, target = g

            def gen_callable(*a, **k):
                return None

            gen_callable._c26_uid = uid
            return reg.GeneratorDesc(lang, target, description=f"uid:{uid}", generator=gen_callable)

        class Dist:
            name = "c26-project"
            version = "1.0"

        class EP:
            def __init__(self, obj):
                self.obj = obj
                self.dist = Dist()
                self.name = "ep"

            def load(self):
                return self.obj

        real = bool(case.get("real_eps"))
        real_uids = {}
        obs = {}
        saved = reg.entry_points
        if real:
            eps_list, geps_list = [], []
            for i, e in enumerate(saved(group="textx_languages")):
                o = e.load()
                real_uids[id(o)] = 900 + i
                eps_list.append([900 + i, o.name, o.pattern, "f"])
            for i, e in enumerate(saved(group="textx_generators")):
                o = e.load()
                real_uids[id(o)] = 950 + i
                real_uids[id(o.generator)] = 950 + i
                geps_list.append([950 + i, o.language, o.target])
            obs["eps"], obs["geps"] = eps_list, geps_list
        else:
            lang_eps = [EP(make_lang(d)) for d in case["eps"]]
            gen_eps = [EP(make_gen(g)) for g in case["geps"]]

            def fake_entry_points(group=None, **kw):
                return list({"textx_languages": lang_eps, "textx_generators": gen_eps}.get(group, []))

            reg.entry_points = fake_entry_points
        # import-time state (the three module attributes named by the property's anchors)
        reg.languages, reg.generators, reg.metamodels = None, None, {}

        def desc_view(d):
            if id(d) in real_uids:
                return [real_uids[id(d)], d.name, d.pattern]
            txt = getattr(d, "description", "")
            uid = int(txt[4:]) if isinstance(txt, str) and txt.startswith("uid:") else -1
            return [uid, d.name, d.pattern]

        def gen_view(g, is_callable):
            if id(g) in real_uids:
                return real_uids[id(g)]
            if is_callable:
                return getattr(g, "_c26_uid", -1)
            txt = getattr(g, "description", "")
            return int(txt[4:]) if isinstance(txt, str) and txt.startswith("uid:") else -1

        def mm_view(m):
            v = getattr(m, "_c26", None)
            return list(v) if v is not None else ["unknown", type(m).__name__]

        def call(op, alt):
            t = op[0]
            if t == "reg_lang":
                if alt:
                    kw = dict(pattern=op[3], description=f"uid:{op[1]}")
                    if op[4] != "n":
                        kw["metamodel"] = mm_value(op[4], op[1])
                    r = reg.register_language(op[2], **kw)
                else:
                    r = reg.register_language(make_lang(op[1:]))
                return ["unit"] if r is None else ["value", repr(r)[:40]]
            if t == "lang":
                return ["desc"] + desc_view(reg.language_description(op[1]))
            if t == "lang_keys":
                return ["keys", list(reg.language_descriptions().keys())]
            if t == "clear_langs":
                r = reg.clear_language_registrations()
                return ["unit"] if r is None else ["value", repr(r)[:40]]
            if t == "mm":
                return ["mm", mm_view(reg.metamodel_for_language(op[1], **KW[op[2]]))]
            if t == "files":
                return ["descs", [desc_view(d) for d in reg.languages_for_file(op[1])]]
            if t == "file":
                return ["desc"] + desc_view(reg.language_for_file(op[1]))
            if t == "mms_file":
                return ["mms", [mm_view(m) for m in reg.metamodels_for_file(op[1])]]
            if t == "mm_file":
                return ["mm", mm_view(reg.metamodel_for_file(op[1], **KW[op[2]]))]
            if t == "reg_gen":
                if alt:
                    def gen_callable(*a, **k):
                        return None
                    gen_callable._c26_uid = op[1]
                    r = reg.register_generator(op[2], op[3], description=f"uid:{op[1]}", generator=gen_callable)
                else:
                    r = reg.register_generator(make_gen(op[1:]))
                return ["unit"] if r is None else ["value", repr(r)[:40]]
            if t == "gen":
                if alt:
                    return ["gen", gen_view(reg.generator_for_language_target(op[1], op[2], any_permitted=op[3]), True)]
                return ["gen", gen_view(reg.generator_description(op[1], op[2], any_permitted=op[3]), False)]
            if t == "gen_keys":
                return ["gkeys", [[l, t2] for l, d in reg.generator_descriptions().items() for t2 in d]]
            if t == "clear_gens":
                r = reg.clear_generator_registrations()
                return ["unit"] if r is None else ["value", repr(r)[:40]]
            raise ValueError(f"bad op {op}")

        res = []
        final = {}
        try:
            alts = case.get("alt") or [0] * len(case["ops"])
            for op, alt in zip(case["ops"], alts):
                try:
                    res.append(call(op, alt))
                except TextXRegistrationError:
                    res.append(["reg_error"])
                except TypeError:
                    res.append(["type_error"])
                except ValueError:
                    raise
                except Exception as e:  # any other exception class is an observation
                    res.append(["other", type(e).__name__])
            # the registry content when the history is over (compared with `Reg.live` / `Reg.gLive`,
            # the history-level notion the theorems are stated in)
            try:
                final["langs"] = [desc_view(d)[0] for d in reg.language_descriptions().values()]
            except Exception as e:
                final["langs"] = ["raised", type(e).__name__]
            try:
                final["gens"] = [gen_view(g, False) for d in reg.generator_descriptions().values() for g in d.values()]
            except Exception as e:
                final["gens"] = ["raised", type(e).__name__]
        finally:
            reg.entry_points = saved
            reg.languages, reg.generators, reg.metamodels = None, None, {}
        obs["res"] = res
        obs["final"] = final
        return obs

    # ------------------------------------------------------ model / compare
    def env_of(self, case, obs):
        if case.get("real_eps"):
            return obs.get("eps", []), obs.get("geps", [])
        return case["eps"], case["geps"]

    def ascii_only(self, case, obs):
        eps, geps = self.env_of(case, obs)
        return all(s is None or (isinstance(s, str) and s.isascii())
                   for x in list(case["ops"]) + list(eps) + list(geps) for s in x if not isinstance(s, (int, bool)))

    def model_req(self, case, obs):
        if not self.ascii_only(case, obs):
            return None
        eps, geps = self.env_of(case, obs)
        if not Ref(eps, geps).ok_env:
            # clashing entry points: outside the property (Env.Ok fails); when exactly the load error
            # surfaces is not property-relevant, so these histories are run (no crash) but not compared
            return None
        return {"op": "run", "eps": eps, "geps": geps, "ops": case["ops"]}

    @staticmethod
    def canon(results):
        """order-free, identity-renumbered view of a result list"""
        ren = {}

        def mm(m):
            m = list(m)
            if m and m[0] == "made":
                if m[1] not in ren:
                    ren[m[1]] = len(ren)
                m[1] = ren[m[1]]
            return m

        out = []
        for r in results:
            r = list(r)
            if r[0] == "descs":
                r = ["descs", sorted(r[1], key=lambda d: d[0])]
            elif r[0] == "keys":
                r = ["keys", sorted(r[1])]
            elif r[0] == "gkeys":
                r = ["gkeys", sorted(map(list, r[1]))]
            elif r[0] == "mm":
                r = ["mm", mm(r[1])]
            elif r[0] == "mms":
                ms = sorted((list(m) for m in r[1]), key=lambda m: (m[0] != "given", m[2] if m[0] == "made" else m[1], m[1]))
                r = ["mms", [mm(m) for m in ms]]
            out.append(r)
        return out

    def compare(self, case, obs, out):
        if "err" in out:
            return f"model rejected the request: {out}"
        a, b = self.canon(obs["res"]), self.canon(out["res"])
        if len(a) != len(b):
            return f"{len(a)} implementation results, {len(b)} model results"
        for i, (x, y) in enumerate(zip(a, b)):
            if x != y:
                return f"call #{i} {case['ops'][i]}: implementation {x}, model {y}"
        return self.compare_predictions(case, obs, out)

    def compare_predictions(self, case, obs, out):
        """The history-level notions of the theorems (`live`, `gLive`, `UniqueMatch`, `sparesAll`), computed
        by the driver from the history alone, against what the real module did."""
        if "live" not in out:
            return "driver answered without history-level predictions"
        res = obs["res"]
        fin = obs.get("final") or {}
        if "langs" in fin and sorted(map(str, fin["langs"])) != sorted(map(str, out["live"])):
            return f"registered languages after the history: implementation {sorted(map(str, fin['langs']))}, live (Lean) {sorted(map(str, out['live']))}"
        if "gens" in fin and sorted(map(str, fin["gens"])) != sorted(map(str, out["glive"])):
            return f"registered generators after the history: implementation {sorted(map(str, fin['gens']))}, gLive (Lean) {sorted(map(str, out['glive']))}"
        eps, _ = self.env_of(case, obs)
        kind = {d[0]: d[3] for d in eps}
        for op in case["ops"]:
            if op[0] == "reg_lang":
                kind[op[1]] = op[4]

        def owned(uid, m):
            k = kind.get(uid)
            if m[0] == "made":
                return k == "f" and m[2] == uid
            return m[0] == "given" and m[1] == k
        for j, i in out["hits"]:
            if res[j][0] == "mm" and res[i] != res[j]:
                return (f"C26_cache_hit_until: call #{j} {case['ops'][j]} answered {res[j]} and the calls in between spare "
                        f"that entry, but the argument-less call #{i} {case['ops'][i]} answered {res[i]}")
        def single(i, uid, thm, what):
            """a single-language request (by name or by file) resolved by the history to descriptor uid"""
            op = case["ops"][i]
            if uid is None:
                if res[i] != ["reg_error"]:
                    return f"{thm}: {what}, call #{i} {op} answered {res[i]}"
                return None
            if res[i][0] == "mm":
                m = res[i][1]
                if not owned(uid, m):
                    return f"{thm}: call #{i} {op} resolves to descriptor {uid}, answered {res[i]} (not that language's)"
                if op[-1] != 0 and m[0] == "made":
                    earlier = [x for r in res[:i] if r[0] in ("mm", "mms") for x in ([r[1]] if r[0] == "mm" else r[1])]
                    if m[3] != op[-1] or any(x[0] == "made" and x[1] == m[1] for x in earlier):
                        return (f"C26_cache_fresh: call #{i} {op} carries keyword arguments for the factory language {uid}, "
                                f"answered {res[i]} (not fresh from these arguments)")
            elif res[i][0] not in ("reg_error", "type_error", "other") or kind.get(uid) in ("f",) or isinstance(kind.get(uid), int):
                return f"{thm}: call #{i} {op} resolves to the usable descriptor {uid}, answered {res[i]}"
            return None
        for i, uid in out["um"]:
            f = single(i, uid, "C26_mm_for_file", f"no unique live language accepts {case['ops'][i][1]!r}")
            if f:
                return f
        for i, uid in out["own"]:
            f = single(i, uid, "C26_cache_not_stale", f"no live language is named {case['ops'][i][1]!r} up to case")
            if f:
                return f
        for i, uids in out["mms"]:
            usable = all(kind.get(u) not in ("b", "n") for u in uids)
            if usable != (res[i][0] == "mms"):
                return f"C26_mms_for_file: matching descriptors {uids} (all usable: {usable}), call #{i} answered {res[i]}"
            if res[i][0] == "mms":
                rest = [list(m) for m in res[i][1]]
                if len(rest) != len(uids):
                    return f"C26_mms_for_file: {len(uids)} live languages accept the file, call #{i} answered {res[i]}"
                for u in uids:
                    cand = [m for m in rest if owned(u, m)]
                    if not cand:
                        return f"C26_mms_for_file: no meta-model of descriptor {u} in the answer of call #{i}: {res[i]}"
                    rest.remove(cand[0])
        return None

    # -------------------------------------------------------------- oracle
    def ref_pass(self, case, obs):
        eps, geps = self.env_of(case, obs)
        ref = Ref(eps, geps)
        if not ref.ok_env:
            return ref, None
        for i, (op, r) in enumerate(zip(case["ops"], obs["res"])):
            f = ref.check(op, r)
            if f:
                return ref, f"call #{i}: {f}"
        return ref, None

    def oracle(self, case, obs):
        return self.ref_pass(case, obs)[1]

    def nontrivial(self, case, obs):
        ref, f = self.ref_pass(case, obs)
        return ref.ok_env and len(ref.features) >= 2 and bool(ref.features & INTERACTIONS)

    def classify(self, case, obs, failure):
        return None

    def shrink(self, case):
        ops, alt = case["ops"], case.get("alt") or [0] * len(case["ops"])
        base = {k: v for k, v in case.items() if k not in ("ops", "alt", "origin")}
        n = len(ops)
        # drop halves, then single calls (descriptor identities are kept)
        if n > 3:
            for lo, hi in ((0, n // 2), (n // 2, n)):
                yield dict(base, ops=ops[:lo] + ops[hi:], alt=alt[:lo] + alt[hi:], origin="shrunk")
        for i in range(n):
            yield dict(base, ops=ops[:i] + ops[i + 1:], alt=alt[:i] + alt[i + 1:], origin="shrunk")
        if not case.get("real_eps"):
            for i in range(len(case["eps"])):
                yield dict(base, eps=case["eps"][:i] + case["eps"][i + 1:], ops=ops, alt=alt, origin="shrunk")
            for i in range(len(case["geps"])):
                yield dict(base, geps=case["geps"][:i] + case["geps"][i + 1:], ops=ops, alt=alt, origin="shrunk")
        if any(alt):
            yield dict(base, ops=ops, alt=[0] * n, origin="shrunk")

    def extra_search(self, rng, tier, broken):
        return [self.random_history(rng.fork("x")) for _ in range(1500 if tier == "quick" else 10000)]

    def sample_view(self, case, obs):
        return {"case": case, "impl": obs.get("res") if isinstance(obs, dict) else obs}

    def extra_evidence(self, cases, obs, model_outs):
        dist, feats, errs = {}, {}, 0
        calls = 0
        for c, o in zip(cases, obs):
            dist[c.get("origin", "?").split(":")[0]] = dist.get(c.get("origin", "?").split(":")[0], 0) + 1
            if isinstance(o, dict) and "res" in o:
                calls += len(o["res"])
                errs += sum(1 for r in o["res"] if r[0] in ("reg_error", "type_error", "other"))
                ref, _ = self.ref_pass(c, o)
                for f in ref.features:
                    feats[f] = feats.get(f, 0) + 1
        pred = {"histories": 0, "cache_hit_pairs": 0, "cache_hit_pairs_with_kwargs_call_between": 0,
                "mm_file_resolved": 0, "mm_file_unresolved": 0, "mms_file": 0}
        for c, mo in zip(cases, model_outs or []):
            if isinstance(mo, dict) and "hits" in mo:
                pred["histories"] += 1
                pred["cache_hit_pairs"] += len(mo["hits"])
                for j, i in mo["hits"]:
                    if any(o[0] in ("mm", "mm_file") and o[-1] != 0 for o in c["ops"][j + 1:i]):
                        pred["cache_hit_pairs_with_kwargs_call_between"] += 1
                pred["mm_file_resolved"] += sum(1 for _, u in mo["um"] if u is not None)
                pred["mm_file_unresolved"] += sum(1 for _, u in mo["um"] if u is None)
                pred["mms_file"] += len(mo["mms"])
        return {
            "history_level_predictions": pred,
            "distribution": dist,
            "api_calls": calls,
            "calls_raising": errs,
            "feature_counts": feats,
            "exhaustive": getattr(self, "_exhaustive", {}),
        }
