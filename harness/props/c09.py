"""C09 — postponed resolution reaches the right fixpoint and terminates.

Implementation side: a grammar with named references whose scope provider is
table driven: reference `rK` resolves iff all references in deps[rK] are
already resolved (their attribute is set), otherwise it returns Postponed().
References are spread over 1..3 model files (ImportURI loading).  The Lean model
(`Resolve.loop`, Drivers/Resolve.lean) is run on the same table and order.
"""
import os
import re
import shutil
import tempfile

from harness.core import Check, use_repo

GRAMMAR = r"""
Model: imports*=Import items*=Item refs*=Ref;
Import: 'import' importURI=STRING;
Item: 'item' name=ID;
Ref: 'ref' name=ID '->' target=[Item];
"""


class NonTermination(Exception):
    pass


def make_mm(table, log, limit):
    use_repo()
    import textx
    from textx import get_model, metamodel_from_str
    from textx.scoping import Postponed
    from textx.scoping import providers as sp

    mm = metamodel_from_str(GRAMMAR)
    calls = [0]

    def all_models(obj):
        m = get_model(obj)
        ms = [m]
        if hasattr(m, "_tx_model_repository"):
            for x in m._tx_model_repository.all_models:
                if x is not m:
                    ms.append(x)
        return ms

    def provider(obj, attr, obj_ref):
        calls[0] += 1
        if calls[0] > limit:
            raise NonTermination(f"provider called more than {limit} times")
        rid = int(obj.name[1:])
        ms = all_models(obj)
        refs = {r.name: r for m in ms for r in m.refs}
        for d in table.get(rid, []):
            other = refs.get(f"r{d}")
            if other is None or other.target is None:
                log.append(["postponed", rid])
                return Postponed()
        for m in ms:
            for it in m.items:
                if it.name == obj_ref.obj_name:
                    log.append(["resolved", rid])
                    return it
        return None

    mm.register_scope_providers({"*.*": sp.PlainNameImportURI(), "Ref.target": provider})
    return mm


def file_order(files):
    """main first, then imports depth-first in import order (first visit)."""
    order, seen = [], set()

    def go(i):
        if i in seen:
            return
        seen.add(i)
        order.append(i)
        for j in files[i]["imports"]:
            go(j)

    go(0)
    return order


class Prop(Check):
    ID = "C09"
    LEAN_MODULE = "TextxVerif.Props.C09"
    THEOREMS = [
        "Resolve.C09_terminates",
        "Resolve.C09_fixpoint",
        "Resolve.C09_lfp",
        "Resolve.C09_success_iff",
        "Resolve.C09_error_exact",
        "Resolve.C09_order_indep",
    ]
    DRIVER = "Drivers/Resolve.lean"
    QUICK_CASES = 400
    THOROUGH_CASES = 6000
    RULE = ("dependency tables over <=7 references (chains, cycles, self-waits, dead references) spread over 1..3 "
            "model files with random import graphs; non-trivial = at least one reference is postponed at least once")
    MODELLED = ("hand-modelled: model.py:935-968 loop and resolve_one_step pass (Resolve.step/loop); tie X: resolution "
                "sequence + pending set vs real resolver with a table-driven provider; not exhibited: providers that "
                "are not monotone in the resolved set")
    ASSUMPTIONS = ["scope providers are monotone in the set of resolved references (the property's 'given the ones resolved before it')"]

    def gen(self, rng, n, tier):
        for k in range(n):
            nrefs = rng.randint(1, 7)
            ids = list(range(nrefs))
            deps = {}
            for i in ids:
                kind = rng.weighted([("free", 4), ("some", 5), ("self", 1)])
                if kind == "some":
                    deps[i] = rng.sample(ids, rng.randint(1, min(3, nrefs)))
                elif kind == "self":
                    deps[i] = [i]
            nfiles = rng.weighted([(1, 3), (2, 3), (3, 2)])
            files = [{"imports": [], "refs": []} for _ in range(nfiles)]
            for i in rng.shuffle(ids):
                files[rng.below(nfiles)]["refs"].append(i)
            # import graph: every file reachable from main; extra edges (cycles allowed)
            for j in range(1, nfiles):
                files[rng.below(j)]["imports"].append(j)
            if nfiles > 1 and rng.chance(0.4):
                a, b = rng.below(nfiles), rng.below(nfiles)
                if b not in files[a]["imports"] and a != b:
                    files[a]["imports"].append(b)
            yield {"deps": [[i, deps[i]] for i in sorted(deps)], "files": files}

    def impl(self, case):
        use_repo()
        from textx.exceptions import TextXError

        table = {i: d for i, d in case["deps"]}
        files = case["files"]
        nrefs = sum(len(f["refs"]) for f in files)
        log = []
        mm = make_mm(table, log, limit=(nrefs + 3) * (nrefs + 1) + 5)
        tmp = tempfile.mkdtemp(prefix="c09_")
        try:
            for i, f in enumerate(files):
                lines = [f'import "f{j}.m"' for j in f["imports"]]
                lines += [f"item pad{i}"]  # an empty file would yield a str model (outside C09)
                lines += [f"item t{r}" for r in f["refs"]]
                lines += [f"ref r{r} -> t{r}" for r in f["refs"]]
                with open(os.path.join(tmp, f"f{i}.m"), "w") as fh:
                    fh.write("\n".join(lines) + "\n")
            try:
                model = mm.model_from_file(os.path.join(tmp, "f0.m"))
                out = {"outcome": "ok", "pending": []}
                allm = [model] + [m for m in getattr(model, "_tx_model_repository").all_models if m is not model] \
                    if hasattr(model, "_tx_model_repository") else [model]
                bad = [r.name for m in allm for r in m.refs if r.target is None or r.target.name != "t" + r.name[1:]]
                out["wrong_targets"] = bad
            except NonTermination as e:
                out = {"outcome": "nonterm", "msg": str(e)}
            except TextXError as e:
                msg = str(e)
                if "Unresolvable cross references" in msg:
                    out = {"outcome": "unresolvable", "pending": [int(x) for x in re.findall(r'"t(\d+)" of class', msg)]}
                else:
                    out = {"outcome": "error", "msg": msg[:200], "type": type(e).__name__}
            except Exception as e:  # any other exception type is an observation, too
                out = {"outcome": "other", "type": type(e).__name__, "msg": str(e)[:200]}
        finally:
            shutil.rmtree(tmp, ignore_errors=True)
        out["seq"] = [r for k, r in log if k == "resolved"]
        out["postponed"] = sum(1 for k, _ in log if k == "postponed")
        return out

    def order(self, case):
        files = case["files"]
        return [r for i in file_order(files) for r in files[i]["refs"]]

    def model_req(self, case, obs):
        return {"op": "loop", "refs": self.order(case), "deps": case["deps"]}

    def compare(self, case, obs, out):
        if "err" in out:
            return f"model rejected the request: {out}"
        if obs["outcome"] not in ("ok", "unresolvable"):
            return f"implementation outcome {obs['outcome']} but model terminates with pending={out['pending']}"
        if sorted(obs["pending"]) != sorted(out["pending"]):
            return f"pending references differ: impl {sorted(obs['pending'])} model {sorted(out['pending'])}"
        if obs["seq"] != out["seq"]:
            return f"resolution sequence differs: impl {obs['seq']} model {out['seq']}"
        return None

    def oracle(self, case, obs):
        # spec: least fixpoint of "all dependencies resolved"
        table = {i: d for i, d in case["deps"]}
        refs = self.order(case)
        lfp, changed = set(), True
        while changed:
            changed = False
            for r in refs:
                if r not in lfp and all(d in lfp for d in table.get(r, [])):
                    lfp.add(r)
                    changed = True
        dead = sorted(set(refs) - lfp)
        if obs["outcome"] == "nonterm":
            return "loading does not terminate: " + obs["msg"]
        if obs["outcome"] in ("error", "other"):
            return f"unexpected failure {obs.get('type')}: {obs.get('msg')}"
        if not dead:
            if obs["outcome"] != "ok":
                return f"every reference is resolvable in some order but loading failed naming {obs['pending']}"
            if obs.get("wrong_targets"):
                return f"references resolved to wrong targets: {obs['wrong_targets']}"
        else:
            if obs["outcome"] == "ok":
                return f"references {dead} can never resolve but loading succeeded"
            if sorted(obs["pending"]) != dead:
                return f"error names {sorted(obs['pending'])}, unresolvable are exactly {dead}"
        return None

    def nontrivial(self, case, obs):
        return obs.get("postponed", 0) > 0

    def shrink(self, case):
        # drop one reference (and mentions of it)
        ids = sorted({r for f in case["files"] for r in f["refs"]})
        for x in ids:
            files = [{"imports": f["imports"], "refs": [r for r in f["refs"] if r != x]} for f in case["files"]]
            deps = [[i, [d for d in ds if d != x]] for i, ds in case["deps"] if i != x]
            deps = [[i, ds] for i, ds in deps if ds]
            if any(f["refs"] for f in files):
                yield {"deps": deps, "files": files}
        if len(case["files"]) > 1:
            merged = {"imports": [], "refs": [r for f in case["files"] for r in f["refs"]]}
            yield {"deps": case["deps"], "files": [merged]}

    def extra_search(self, rng, tier, broken):
        return list(self.gen(rng, 1500 if tier == "quick" else 10000, tier))
