"""C09 — postponed resolution reaches the right fixpoint and terminates.

Implementation side: a grammar whose references — single-valued attributes, two
single-valued attributes on one object, list attributes (`+=`, `*=`, repeated
plain assignment; several objects of one class, two list attributes on one
object, equally named list attributes of different classes), objects nested in
containers — are resolved by a table-driven scope provider: reference K (it
names item `tK`) resolves iff all references in deps[K] are already resolved
(their attribute holds the target), otherwise the provider returns Postponed().
References are spread over 1..3 model files (ImportURI loading).  The Lean model
(`Resolve.loop` + `Resolve.attrAfter`, Drivers/Resolve.lean) is run on the same
table, order and list attributes.

How the provider of reference K finds out whether a reference D it waits for is
resolved ("how", per waiting reference):
  "v" (default)  it looks at the model: the attribute of D holds the target;
  "a"            `textx.scoping.tools.needs_to_be_resolved(object of D, attribute of D)`
                 (the documented way; answered from `parser._crossrefs`, which is replaced
                 at the end of a pass only: per object+attribute, stale within a pass);
  "o"            `needs_to_be_resolved(object of D, None)` (any attribute of the object);
  "r"            `has_unresolved_crossrefs(object of D, attribute of D)` of the resolver of
                 the model that holds K (delegates to the owning model's resolver).
"probe": queries (`needs_to_be_resolved`) the provider of K makes without using the answer.

Walks: `walk W over E => tK` / `hike W over E => tK` hold two references: `over` (id 1000+K, to the
element E = the element holding reference "o", resolved by PlainNameImportURI, never postponed) and
`end` (id K), which is resolved by the RREL expression `RREL` below — registered as a provider (walk)
or attached in the grammar (hike): it navigates `.~over.~<target|dst|members|end>`, and textX's RREL
navigation returns Postponed as long as `needs_to_be_resolved(object, attribute)` holds for an
attribute on the way.  So K waits (query, per attribute) for its own `over` and for the
target / dst / members / end attribute of E; entries of "deps"/"how" for K are ignored.

Case format:
  {"deps": [[K, [K1, ...]], ...], "prov": "exact"|"attr"|"cls",
   "how": [[K, "a"|"o"|"r"], ...], "probe": [[K, [K1, ...]], ...],      (both optional)
   "files": [{"imports": [file index, ...], "elems": [ELEM, ...]}, ...]}
  ELEM = {"k":"ref","r":K} | {"k":"link","r":[K1,K2]} | {"k":"group","m":[K..],"x":[K..]}
       | {"k":"bag","m":[K..]} | {"k":"pair","m":[K1,K2(,K3)]} | {"k":"box","e":[ELEM..]}
       | {"k":"walk"|"hike","r":K,"o":K'}
  (a file may give "refs": [K..] instead of "elems": one `ref` element each).

Two more worlds (round V09), told apart by "kind":
  {"kind": "lib", ...}   textX's own postponing providers (ExtRelativeName / RelativeName): see c09_lib.py;
  {"kind": "hist", "global": bool, "loader": "glob"|"import", "prov": ..,
   "libs": [{"elems": [ELEM..]}..], "deps": [..], "how": [..],              (library files and the waits of their references)
   "loads": [{"main": "str"|"file", "deps": [..], "how": [..], "probe": [..], "elems": [ELEM..]}, ..]}
      a history of loads with ONE meta-model (global_repository=True or not).  The library files are registered with
      a PlainNameGlobalRepo provider (glob; the main models may come from strings) or imported by every main model
      (import).  Reference ids are unique over the history, the provider's tables are those of the whole history.
      Load j is the ordinary case `Prop.hist_load(case, j)` (file 0 = main model, files 1.. = library) with
      "cached": the library files an earlier successful load left finished in the global repository — their
      references are resolved from the start and are not part of the load.  Expected: every load ends as its own
      program says (a failed load leaves nothing behind); the Lean driver (`hist`) threads the finished files itself.
"""
import os
import re
import shutil
import tempfile

from harness.core import Check, use_repo
from harness.props import c09_lib

GRAMMAR = r"""
Model: imports*=Import items*=Item elems*=Elem;
Import: 'import' importURI=STRING;
Item: 'item' name=ID;
Elem: Ref | Link | Group | Bag | Pair | Box | Walk | Hike;
Ref: 'ref' name=ID '->' target=[Item];
Link: 'link' name=ID ':' src=[Item] '->' dst=[Item];
Group: 'group' name=ID ':' members+=[Item][','] ('&' more+=[Item][','])? ';';
Bag: 'bag' name=ID ':' members*=[Item][','] ';';
Pair: 'pair' name=ID ':' members=[Item] members=[Item] (members=[Item])? ';';
Box: 'box' name=ID '{' elems*=Elem '}';
Walk: 'walk' name=ID 'over' over=[Elem] '=>' end=[Item];
Hike: 'hike' name=ID 'over' over=[Elem] '=>' end=[Item:ID|RREL];
"""

# follows the reference `over` to an element and that element's target / dst / members / end to item(s);
# the name is looked up among the items of their model file(s), else among the items of the own file
RREL = (".~over.~target.parent(Model).items,.~over.~dst.parent(Model).items,"
        ".~over.~members.parent(Model).items,.~over.~end.parent(Model).items,^items")
GRAMMAR = GRAMMAR.replace("RREL", RREL)
OVER = 1000  # id of the `over` reference of the walk whose `end` reference is K: OVER + K
WALKS = ("walk", "hike")
# the attribute the RREL expression follows on an element of the kind
TARGET_ATTR = {"ref": "target", "link": "dst", "group": "members", "bag": "members", "pair": "members",
               "walk": "end", "hike": "end"}

# reference attributes per class, in textual order: (attribute, is list)
REF_ATTRS = {
    "Ref": [("target", False)],
    "Link": [("src", False), ("dst", False)],
    "Group": [("members", True), ("more", True)],
    "Bag": [("members", True)],
    "Pair": [("members", True)],
    "Walk": [("over", False), ("end", False)],
    "Hike": [("over", False), ("end", False)],
}
CLASS_OF = {"ref": "Ref", "link": "Link", "group": "Group", "bag": "Bag", "pair": "Pair", "box": "Box",
            "walk": "Walk", "hike": "Hike"}


class NonTermination(Exception):
    pass


# --------------------------------------------------------------------------
# case structure
# --------------------------------------------------------------------------
def file_elems(f):
    if "elems" in f:
        return f["elems"]
    return [{"k": "ref", "r": r} for r in f.get("refs", [])]


def elem_attrs(e):
    """reference attributes of one (non-box) element: [(attr, is_list, [K..])] in textual order"""
    k = e["k"]
    if k == "ref":
        return [("target", False, [e["r"]])]
    if k == "link":
        return [("src", False, [e["r"][0]]), ("dst", False, [e["r"][1]])]
    if k == "group":
        out = [("members", True, list(e["m"]))]
        if e.get("x"):
            out.append(("more", True, list(e["x"])))
        return out
    if k in ("bag", "pair"):
        return [("members", True, list(e["m"]))]
    if k in WALKS:
        return [("over", False, [OVER + e["r"]]), ("end", False, [e["r"]])]
    raise ValueError(f"unknown element kind {k!r}")


def elem_refs(e):
    """references of an element in textual order"""
    if e["k"] == "box":
        return [r for c in e["e"] for r in elem_refs(c)]
    return [r for _, _, rs in elem_attrs(e) for r in rs]


def file_refs(f):
    return [r for e in file_elems(f) for r in elem_refs(e)]


def elem_name(i, e, path):
    return e["k"][0] + str(i) + "_" + "_".join(str(p) for p in path)


def holders(files):
    """reference id -> (file, path, element) of the element holding it"""
    out = {}

    def go(i, e, path):
        if e["k"] == "box":
            for j, c in enumerate(e["e"]):
                go(i, c, path + [j])
        else:
            for r in elem_refs(e):
                out[r] = (i, path, e)

    for i, f in enumerate(files):
        for j, e in enumerate(file_elems(f)):
            go(i, e, [j])
    return out


def render_file(i, f, hold=None, tag=None, import_names=None):
    """text of model file i and its reference attributes in textual order:
    [{"file", "path", "cls", "attr", "list", "refs": [[K, position]..]}]  (`hold` = holders(all files): needed
    for the names of the elements walks go over; histories: `tag` names the padding item, `import_names` = the
    file names to import instead of f<j>.m)"""
    if import_names is None:
        import_names = [f"f{j}.m" for j in f["imports"]]
    text = "".join(f'import "{n}"\n' for n in import_names)
    text += f"item pad{i if tag is None else tag}\n"  # an empty file would yield a str model (outside C09)
    text += "".join(f"item t{r}\n" for r in file_refs(f) if r < OVER)
    attrs = []

    def ref(r, into):
        nonlocal text
        into.append([r, len(text)])
        text += f"t{r}"

    def emit(e, path, depth):
        nonlocal text
        k = e["k"]
        name = elem_name(i, e, path)
        text += "  " * depth + f"{k} {name} "
        if k == "box":
            text += "{\n"
            for j, c in enumerate(e["e"]):
                emit(c, path + [j], depth + 1)
            text += "  " * depth + "}\n"
            return
        recs = []
        for attr, is_list, _ in elem_attrs(e):
            recs.append({"file": i, "path": list(path), "cls": CLASS_OF[k], "attr": attr, "list": is_list, "refs": []})
        if k == "ref":
            text += "-> "
            ref(e["r"], recs[0]["refs"])
        elif k in WALKS:
            fi, fpath, fe = (hold or {}).get(e["o"], (i, ["missing"], {"k": "x"}))
            over = elem_name(fi, fe, fpath)
            text += "over "
            recs[0]["refs"].append([OVER + e["r"], len(text)])
            recs[0]["want"] = "?" + over
            text += over + " => "
            ref(e["r"], recs[1]["refs"])
        elif k == "link":
            text += ": "
            ref(e["r"][0], recs[0]["refs"])
            text += " -> "
            ref(e["r"][1], recs[1]["refs"])
        else:
            text += ":"
            sep = " " if k == "pair" else " , "
            for n, r in enumerate(e["m"]):
                text += sep if n else " "
                ref(r, recs[0]["refs"])
            if k == "group" and e.get("x"):
                text += " &"
                for n, r in enumerate(e["x"]):
                    text += " , " if n else " "
                    ref(r, recs[1]["refs"])
            text += " ;"
        text += "\n"
        attrs.extend(recs)

    for j, e in enumerate(file_elems(f)):
        emit(e, [j], 0)
    return text, attrs


def case_attrs(case):
    """all reference attributes of the case, files in index order"""
    hold = holders(case["files"])
    return [a for i, f in enumerate(case["files"]) for a in render_file(i, f, hold)[1]]


def case_places(case):
    """reference id -> (file, object number, attribute number, path, attribute name); objects are numbered
    over all files, attributes within their class"""
    places, objs = {}, {}
    for a in case_attrs(case):
        o = objs.setdefault((a["file"], tuple(a["path"])), len(objs))
        n = [x for x, _ in REF_ATTRS[a["cls"]]].index(a["attr"])
        for r, _ in a["refs"]:
            places[r] = (a["file"], o, n, tuple(a["path"]), a["attr"])
    return places


def cached_refs(case):
    """references of model files that an earlier load of the history left finished in the global repository:
    resolved from the start, not part of this load's pending references"""
    return {r for i in case.get("cached", []) for r in file_refs(case["files"][i])}


def live_attrs(case):
    """the reference attributes of the files this load resolves (all but the cached ones)"""
    gone = set(case.get("cached", []))
    return [a for a in case_attrs(case) if a["file"] not in gone]


def case_how(case):
    return {k: h for k, h in case.get("how", []) if h != "v"}


def expanded_deps(case, reachable):
    """what the provider of K waits for, as sets of references: {K: set or None (= can never resolve)};
    a query about an object (and attribute) waits for every reference the object holds (in that attribute)"""
    places = {r: p for r, p in case_places(case).items() if p[0] in reachable}
    how = case_how(case)
    out = {}
    hold = holders(case["files"])
    walks = {e["r"]: e for _, _, e in hold.values() if e["k"] in WALKS}
    for k, ds in case["deps"]:
        if k in walks:
            continue
        mode, want = how.get(k, "v"), set()
        for d in ds:
            if d not in places:
                want = None
                break
            if mode == "v":
                want.add(d)
            else:
                f, o, n = places[d][:3]
                want.update(r for r, p in places.items() if p[1] == o and (mode == "o" or p[2] == n))
        out[k] = want
    for k, e in walks.items():
        if k in places:
            out[k] = {r for _, _, r in walk_waits(e, hold, places)}
    pre = cached_refs(case)
    if pre:
        out = {k: (w if w is None else w - pre) for k, w in out.items() if k not in pre}
    return out


def walk_waits(e, hold, places):
    """the attributes the RREL expression of the walk `e` navigates: [(object number, attribute number, reference)],
    first its own `over`, then every reference of the target / dst / members / end attribute of the element it goes over"""
    out = [(places[OVER + e["r"]][1], 0, OVER + e["r"])]
    if e["o"] in hold and e["o"] in places:
        fi, fpath, fe = hold[e["o"]]
        attr = TARGET_ATTR[fe["k"]]
        for r, pl in places.items():
            if pl[0] == fi and pl[3] == tuple(fpath) and pl[4] == attr:
                out.append((pl[1], pl[2], r))
    return out


def walk_elems(model_elems, case_elems, path=()):
    """pair the objects of a loaded model with the elements of the case: yields (path, element, object)"""
    if len(model_elems) != len(case_elems):
        raise ValueError(f"{len(model_elems)} objects for {len(case_elems)} elements at {list(path)}")
    for j, (o, e) in enumerate(zip(model_elems, case_elems)):
        if type(o).__name__ != CLASS_OF[e["k"]]:
            raise ValueError(f"object {type(o).__name__} for element {e['k']} at {list(path) + [j]}")
        if e["k"] == "box":
            yield from walk_elems(o.elems, e["e"], path + (j,))
        else:
            yield path + (j,), e, o


def model_objects(elems):
    for o in elems:
        if type(o).__name__ == "Box":
            yield from model_objects(o.elems)
        else:
            yield o


def item_id(x):
    name = getattr(x, "name", None)
    if isinstance(name, str) and re.fullmatch(r"t\d+", name):
        return int(name[1:])
    return "?" + (name if isinstance(name, str) else type(x).__name__)


def provider_keys(style):
    keys = []
    for cls, attrs in REF_ATTRS.items():
        if cls in ("Walk", "Hike"):
            continue
        for attr, _ in attrs:
            keys.append({"exact": f"{cls}.{attr}", "attr": f"*.{attr}", "cls": f"{cls}.*"}[style])
    return sorted(set(keys))


class LoadState:
    """what the table-driven provider needs to know about the load that is running (a history runs several loads
    with one meta-model: the state is swapped between them)"""

    def __init__(self, case, limit):
        self.set(case, limit)
        self.log = []

    def set(self, case, limit):
        self.case = case
        self.table = {i: d for i, d in case["deps"]} if case else {}
        self.how = case_how(case) if case else {}
        self.probes = {k: ds for k, ds in case.get("probe", [])} if case else {}
        self.where = {}  # reference id -> (object, attribute name), filled with the first call
        self.calls = 0
        self.limit = limit
        self.names = None  # file index -> base name of the model file (None: f<i>.m)
        self.walk_of = {}
        if case:
            for r, (fi, fpath, e) in holders(case["files"]).items():
                if e["k"] in WALKS:
                    self.walk_of[elem_name(fi, e, fpath)] = e["r"]


def make_mm(table, log, limit, style="exact", case=None, state=None, loader="import", global_repo=False, libs=()):
    """meta-model with the table-driven provider; `state` (LoadState) holds the tables of the running load"""
    use_repo()
    import textx
    from textx import get_model, metamodel_from_str
    from textx.scoping import Postponed
    from textx.scoping import providers as sp

    mm = metamodel_from_str(GRAMMAR, global_repository=True) if global_repo else metamodel_from_str(GRAMMAR)
    st = state
    if st is None:
        st = LoadState(case, limit)
        st.table = table
        st.log = log

    def all_models(obj):
        m = get_model(obj)
        ms = [m]
        if hasattr(m, "_tx_model_repository"):
            for x in m._tx_model_repository.all_models:
                if x is not m:
                    ms.append(x)
        return ms

    def resolved_now(ms):
        """ids of the references whose attribute holds a target right now (the real model state)"""
        done = set()
        for m in ms:
            for o in model_objects(m.elems):
                for attr, is_list in REF_ATTRS[type(o).__name__]:
                    v = getattr(o, attr, None)
                    for x in (v if is_list else [v]) or []:
                        if x is not None:
                            done.add(item_id(x))
        return done

    from textx.scoping.tools import needs_to_be_resolved

    def file_of(m):
        """index of the model file in the running load's case (None: a model that is not part of it)"""
        name = os.path.basename(m._tx_filename) if getattr(m, "_tx_filename", None) else None
        if st.names is not None:
            if name is None:  # a model loaded from a string: the padding item tells which one
                items = getattr(m, "items", None) or [None]
                name = "str:" + str(getattr(items[0], "name", None))
            return st.names.get(name)
        mt = re.fullmatch(r"f(\d+)\.m", name or "")
        return int(mt.group(1)) if mt else None

    def locate(ms):
        if st.where or not st.case:
            return
        byfile = {}
        for m in ms:
            i = file_of(m)
            if i is not None:
                byfile.setdefault(i, m)
        for i, f in enumerate(st.case["files"]):
            m = byfile.get(i)
            if m is None:
                continue
            for _, e, o in walk_elems(m.elems, file_elems(f), ()):
                for a, _, rs in elem_attrs(e):
                    for r in rs:
                        st.where[r] = (o, a)

    def unresolved(mode, asking, d):
        """does the resolver say that reference d is still to be resolved?"""
        if d not in st.where:
            return True
        o, a = st.where[d]
        if mode == "a":
            return needs_to_be_resolved(o, a)
        if mode == "o":
            return needs_to_be_resolved(o, None)
        return get_model(asking)._tx_reference_resolver.has_unresolved_crossrefs(o, a)

    def provider(obj, attr, obj_ref):
        st.calls += 1
        if st.calls > st.limit:
            raise NonTermination(f"provider called more than {st.limit} times")
        rid = int(obj_ref.obj_name[1:])
        ms = all_models(obj)
        deps = st.table.get(rid, [])
        mode = st.how.get(rid, "v")
        if mode != "v" or rid in st.probes:
            locate(ms)
        for d in st.probes.get(rid, []):
            if d in st.where:
                needs_to_be_resolved(*st.where[d])
        if deps and mode != "v":
            if any(unresolved(mode, obj, d) for d in deps):
                st.log.append(["postponed", rid])
                return Postponed()
        elif deps:
            done = resolved_now(ms)
            if any(d not in done for d in deps):
                st.log.append(["postponed", rid])
                return Postponed()
        for m in ms:
            for it in m.items:
                if it.name == obj_ref.obj_name:
                    st.log.append(["resolved", rid])
                    return it
        return None

    if loader == "glob":
        plain = sp.PlainNameGlobalRepo()
        for pat in libs:  # one pattern per library file: the order of loading is the order given
            plain.register_models(pat)
    else:
        plain = sp.PlainNameImportURI()
    providers = {"*.*": plain}
    for k in provider_keys(style):
        providers[k] = provider

    # walks: `over` by name (never postponed), `end` by the RREL expression (Walk: registered, logged;
    # Hike: attached in the grammar, the resolver calls it directly)
    from textx.scoping.rrel import create_rrel_scope_provider

    rrel = create_rrel_scope_provider(RREL)

    def count():
        st.calls += 1
        if st.calls > st.limit:
            raise NonTermination(f"provider called more than {st.limit} times")

    def over_provider(obj, attr, obj_ref):
        count()
        res = plain(obj, attr, obj_ref)
        if res is not None and type(res) is not Postponed and obj.name in st.walk_of:
            st.log.append(["resolved", OVER + st.walk_of[obj.name]])
        return res

    def end_provider(obj, attr, obj_ref):
        count()
        res = rrel(obj, attr, obj_ref)
        if type(res) is Postponed:
            st.log.append(["postponed", int(obj_ref.obj_name[1:])])
        elif res is not None:
            st.log.append(["resolved", int(obj_ref.obj_name[1:])])
        return res

    providers["Walk.over"] = providers["Hike.over"] = over_provider
    providers["Walk.end"] = end_provider
    mm.register_scope_providers(providers)
    return mm


def file_order(files):
    """main first, then imports depth-first in import order (first visit)."""
    order, seen = [], set()

    def go(i):
        if i in seen:
            return
        seen.add(i)
        order.append(i)
        for j in files[i]["imports"]:
            go(j)

    go(0)
    return order


class Prop(Check):
    ID = "C09"
    LEAN_MODULE = "TextxVerif.Props.C09"
    THEOREMS = [
        "Resolve.C09_terminates",
        "Resolve.C09_fixpoint",
        "Resolve.C09_lfp",
        "Resolve.C09_success_iff",
        "Resolve.C09_error_exact",
        "Resolve.C09_order_indep",
        "Resolve.C09_list_result",
        "Resolve.C09_list_success",
        "Resolve.C09_list_order_indep",
        "Resolve.C09_query_terminates",
        "Resolve.C09_query_fixpoint",
        "Resolve.C09_query_lfp",
        "Resolve.C09_query_error_exact",
        "Resolve.C09_query_success_iff",
        "Resolve.C09_query_same_result",
        "Resolve.C09_query_order_indep",
        "Resolve.C09_query_list_result",
        "Resolve.C09_query_list_success",
        "Resolve.C09_success_iff_order",
        "Resolve.C09_loop_order_valid",
        "Resolve.C09_validOrder_iff",
        "Resolve.C09_derivable_iff_order",
        "Resolve.C09_all_derivable_iff_order",
        "Resolve.C09_error_exact_order",
        "Resolve.C09_order_sub_resolved",
        "Resolve.C09_order_result_indep",
        "Resolve.C09_files_round_robin",
        "Resolve.C09_files_success_iff_order",
        "Resolve.C09_files_order_indep",
        "Resolve.C09_query_success_iff_order",
        "Resolve.C09_query_order_valid",
        "Resolve.C09_terminates_any_provider",
        "Resolve.C09_any_provider_partition",
        "Resolve.C09_loop_is_oracle",
        "Resolve.C09_nonmono_order_false",
        "Resolve.C09_history_indep",
        "Resolve.C09_history_failed_load",
        "Resolve.C09_history_clean",
        "Resolve.C09_history_local",
    ]
    DRIVER = "Drivers/Resolve.lean"
    QUICK_CASES = 540
    THOROUGH_CASES = 8000
    PROCS_QUICK = 3
    RULE = ("dependency tables over <=10 references (chains, cycles, self-waits, waits for absent references, DAGs along a "
            "hidden order) held by single-valued attributes, two attributes of one object, list attributes (+=, *=, repeated "
            "assignment; several objects of one class, two lists on one object, same attribute name in two classes) and "
            "objects nested in containers, spread over 1..3 model files with random import graphs; provider registered "
            "as Class.attr / *.attr / Class.*; the provider of a waiting reference learns that a reference is resolved "
            "from the model (attribute value) or from the resolver (needs_to_be_resolved per attribute / per object, "
            "has_unresolved_crossrefs of the asking model's resolver; one way per case or per reference), optional "
            "queries without effect; + textX's own postponing providers (ExtRelativeName / RelativeName over classes with "
            "multiple inheritance, overridden methods, method names containing each other, instances and calls, 1..3 files, "
            "table-driven waits of the extends/type/inst references incl. cycles); + histories of 2..4 loads with one "
            "meta-model (global repository or not, library files registered with PlainNameGlobalRepo or imported, main "
            "models from strings or files, about half of the loads unresolvable, waits reaching into the library); "
            "non-trivial = at least one reference is postponed at least once")
    MODELLED = ("hand-modelled: model.py:935-968 loop and resolve_one_step pass (Resolve.step/loop) and its list branch "
                "(Resolve.attrAfter: bisect insertion, one position list per object and attribute), "
                "ReferenceResolver.has_unresolved_crossrefs / scoping.tools.needs_to_be_resolved (Resolve.hasUnresolved, "
                "stepQ/roundQ/loopQ: parser._crossrefs replaced at the end of a pass, one list per model file); tie X: resolution "
                "sequence + pending set + content of every list attribute vs real resolver with a table-driven provider; "
                "model.py:1030-1100 what a load does with the repository (ResolveHist.runH: all models carrying a resolver are "
                "stepped, a failed load removes them, a successful one drops the resolvers); ExtRelativeName / RelativeName "
                "are not modelled: their waits are handed to loopQ as resolver queries (needs_to_be_resolved per class "
                "of the linearisation), their targets are decided by the direct oracle; "
                "not exhibited: providers that are not monotone in the resolved set, providers attached in the grammar (RREL)")
    ASSUMPTIONS = ["scope providers are monotone in the set of resolved references (the property's 'given the ones resolved before it')"]

    # ------------------------------------------------------------------ generator
    def gen(self, rng, n, tier):
        for _ in range(n):
            # three worlds: one load with the table-driven provider (below), textX's own postponing providers
            # (ExtRelativeName / RelativeName, c09_lib.py), histories of loads with one meta-model
            world = rng.weighted([("plain", 74), ("lib", 13), ("hist", 13)])
            if world == "lib":
                yield c09_lib.gen_one(rng)
                continue
            if world == "hist":
                yield self.gen_hist(rng)
                continue
            profile = rng.weighted([("mixed", 5), ("lists", 5), ("scalar", 2)])
            case = self.gen_one(rng, profile)
            # how the providers learn that a reference is resolved: from the model (attribute values), from the
            # resolver (needs_to_be_resolved per attribute / per object, has_unresolved_crossrefs of the asking
            # model), one way for the whole case or one per waiting reference; plus queries without effect
            ask = rng.weighted([("value", 4), ("a", 2), ("o", 1), ("r", 1), ("each", 3)])
            if ask != "value":
                self.gen_how(rng, case, ask)
            if rng.chance(0.25):
                self.gen_walks(rng, case)
            # a query waits for all references of an object (attribute), which makes most random structures
            # unresolvable: half of these cases are thinned out until some order resolves everything
            if (case.get("how") or any(e["k"] in WALKS for f in case["files"] for e in self._flat(file_elems(f)))) \
                    and rng.chance(0.55):
                self.make_resolvable(rng, case)
            yield case

    def make_resolvable(self, rng, case):
        """drop waits (one waiting reference at a time) until every reference is derivable"""
        reach = set(file_order(case["files"]))
        for _ in range(40):
            table = expanded_deps(case, reach)
            refs = self.order(case)
            lfp, changed = set(), True
            while changed:
                changed = False
                for r in refs:
                    want = table.get(r, set())
                    if r not in lfp and want is not None and want <= lfp:
                        lfp.add(r)
                        changed = True
            dead = [r for r in refs if r not in lfp]
            if not dead:
                return
            walks = {e["r"] for f in case["files"] for e in self._flat(file_elems(f)) if e["k"] in WALKS}
            tab = [k for k in dead if k not in walks and any(k == i for i, _ in case["deps"])]
            if tab:
                k = rng.choice(tab)
                ds = next(d for i, d in case["deps"] if i == k)
                one = {d: expanded_deps({**case, "deps": [[k, [d]]]}, reach).get(k) for d in ds}
                keep = [d for d in ds if one[d] is not None and one[d] <= lfp]
                case["deps"] = [[i, (keep if i == k else d)] for i, d in case["deps"] if i != k or keep]
            else:  # a walk over an element that waits for the walk
                x = rng.choice([k for k in dead if k in walks])
                case["files"] = self._no_dangling([{"imports": f["imports"], "elems": self._without(file_elems(f), x)}
                                                   for f in case["files"]])
                case["deps"] = [[i, [d for d in ds if d != x]] for i, ds in case["deps"] if i != x]
                case["deps"] = [[i, ds] for i, ds in case["deps"] if ds]
            waiting = {i for i, _ in case["deps"]}
            if "how" in case:
                case["how"] = [[i, h] for i, h in case["how"] if i in waiting]

    def gen_walks(self, rng, case):
        """references resolved by an RREL expression that navigates other references (postponed by textX's own
        RREL code as long as needs_to_be_resolved holds on the way): over elements of the own file or of a
        directly imported file, also over other walks; some table-driven references wait for a walk's end"""
        files = case["files"]
        nxt = max([r for f in files for r in file_refs(f) if r < OVER] + [-1]) + 1
        deps = {k: list(ds) for k, ds in case["deps"]}
        for _ in range(rng.randint(1, 3)):
            a = rng.below(len(files))
            seen = [a] + [j for j in files[a]["imports"] if j != a]
            cand = sorted(r for j in seen for r in file_refs(files[j]) if r < OVER)
            if not cand:
                continue
            e = {"k": rng.choice(["walk", "hike"]), "r": nxt, "o": rng.choice(cand)}
            elems = file_elems(files[a])
            elems.insert(rng.randint(0, len(elems)), e)
            files[a] = {"imports": files[a]["imports"], "elems": elems}
            if rng.chance(0.5):
                others = sorted(r for f in files for r in file_refs(f) if r < OVER and r != nxt)
                k = rng.choice(others)
                if not any(x.get("r") == k and x["k"] in WALKS for f in files for x in self._flat(file_elems(f))):
                    deps.setdefault(k, [])
                    if nxt not in deps[k]:
                        deps[k].append(nxt)
            nxt += 1
        case["deps"] = [[k, deps[k]] for k in sorted(deps)]

    @staticmethod
    def _no_dangling(files):
        """a walk needs the element it goes over: walks over a reference nobody holds are removed"""
        files = [{"imports": f["imports"], "elems": file_elems(f)} for f in files]
        while True:
            held = set(holders(files))
            gone = [e["r"] for f in files for e in Prop._flat(f["elems"]) if e["k"] in WALKS and e["o"] not in held]
            if not gone:
                return files
            for x in gone:
                files = [{"imports": f["imports"], "elems": Prop._without(f["elems"], x)} for f in files]

    @staticmethod
    def _flat(elems):
        for e in elems:
            if e["k"] == "box":
                yield from Prop._flat(e["e"])
            else:
                yield e

    def gen_how(self, rng, case, ask):
        waiting = [k for k, _ in case["deps"]]
        if ask == "each":
            how = [[k, rng.weighted([("v", 2), ("a", 3), ("o", 2), ("r", 2)])] for k in waiting]
        else:
            how = [[k, ask] for k in waiting]
        case["how"] = [[k, h] for k, h in how if h != "v"]
        ids = sorted(r for f in case["files"] for r in file_refs(f) if r < OVER)
        if rng.chance(0.3):
            case["probe"] = [[k, rng.sample(ids, rng.randint(1, min(2, len(ids))))]
                             for k in ids if rng.chance(0.4)]

    def gen_deps(self, rng, ids, clean):
        """dependency structure: `clean` = a DAG along a hidden resolution order (always resolvable, the hidden
        order is independent of the textual one); otherwise arbitrary waits incl. cycles, self-waits and waits
        for a reference that does not exist."""
        n = len(ids)
        deps = {}
        if clean:
            rank = rng.shuffle(ids)
            for pos, i in enumerate(rank):
                if pos and rng.chance(0.6):
                    deps[i] = rng.sample(rank[:pos], rng.randint(1, min(3, pos)))
            return deps
        for i in ids:
            kind = rng.weighted([("free", 8), ("some", 10), ("self", 2), ("absent", 1)])
            if kind == "some":
                deps[i] = rng.sample(ids, rng.randint(1, min(3, n)))
            elif kind == "self":
                deps[i] = [i]
            elif kind == "absent":
                deps[i] = [n + rng.below(3)]
        return deps

    def pack(self, rng, ids, profile):
        """distribute the references `ids` (textual order) over elements"""
        weights = {
            "scalar": [("ref", 8), ("link", 2)],
            "mixed": [("ref", 4), ("link", 1), ("group", 4), ("bag", 1), ("pair", 1)],
            "lists": [("ref", 1), ("group", 7), ("bag", 1), ("pair", 1)],
        }[profile]
        ids = list(ids)
        elems = []
        while ids:
            k = rng.weighted(weights)
            if k in ("link", "pair") and len(ids) < 2:
                k = "ref"
            if k == "ref":
                elems.append({"k": "ref", "r": ids.pop(0)})
            elif k == "link":
                elems.append({"k": "link", "r": [ids.pop(0), ids.pop(0)]})
            elif k == "pair":
                cnt = 3 if len(ids) >= 3 and rng.chance(0.3) else 2
                elems.append({"k": "pair", "m": [ids.pop(0) for _ in range(cnt)]})
            elif k == "bag":
                cnt = rng.randint(0, min(3, len(ids)))
                elems.append({"k": "bag", "m": [ids.pop(0) for _ in range(cnt)]})
            else:
                cnt = rng.randint(1, min(4, len(ids)))
                e = {"k": "group", "m": [ids.pop(0) for _ in range(cnt)], "x": []}
                if ids and rng.chance(0.3):
                    e["x"] = [ids.pop(0) for _ in range(rng.randint(1, min(2, len(ids))))]
                elems.append(e)
        if profile != "scalar":
            for _ in range(2):  # containers (possibly nested)
                if elems and rng.chance(0.25):
                    a = rng.below(len(elems))
                    b = rng.randint(a, len(elems))
                    elems[a:b] = [{"k": "box", "e": elems[a:b]}]
        return elems

    def gen_one(self, rng, profile):
        nrefs = {"scalar": rng.randint(1, 7), "mixed": rng.randint(2, 9), "lists": rng.randint(3, 10)}[profile]
        ids = list(range(nrefs))
        clean = rng.chance({"scalar": 0.2, "mixed": 0.5, "lists": 0.7}[profile])
        deps = self.gen_deps(rng, ids, clean)
        if profile == "lists":
            nfiles = rng.weighted([(1, 5), (2, 3), (3, 1)])
        else:
            nfiles = rng.weighted([(1, 3), (2, 3), (3, 2)])
        per_file = [[] for _ in range(nfiles)]
        for i in rng.shuffle(ids):
            per_file[rng.below(nfiles)].append(i)
        files = [{"imports": [], "elems": self.pack(rng, per_file[j], profile)} for j in range(nfiles)]
        # import graph: every file reachable from main; extra edges (cycles allowed)
        for j in range(1, nfiles):
            files[rng.below(j)]["imports"].append(j)
        if nfiles > 1 and rng.chance(0.4):
            a, b = rng.below(nfiles), rng.below(nfiles)
            if b not in files[a]["imports"] and a != b:
                files[a]["imports"].append(b)
        return {"deps": [[i, deps[i]] for i in sorted(deps)], "prov": rng.choice(["exact", "attr", "cls"]), "files": files}

    # ------------------------------------------------------------------ implementation
    def impl(self, case):
        if case.get("kind") == "lib":
            return c09_lib.impl(case)
        if case.get("kind") == "hist":
            return self.hist_impl(case)
        use_repo()
        from textx.exceptions import TextXError

        table = {i: d for i, d in case["deps"]}
        files = case["files"]
        nrefs = sum(len(file_refs(f)) for f in files)
        log = []
        mm = make_mm(table, log, limit=(nrefs + 3) * (nrefs + 1) + 5, style=case.get("prov", "exact"), case=case)
        tmp = tempfile.mkdtemp(prefix="c09_")
        try:
            hold = holders(files)
            for i, f in enumerate(files):
                with open(os.path.join(tmp, f"f{i}.m"), "w") as fh:
                    fh.write(render_file(i, f, hold)[0])
            try:
                model = mm.model_from_file(os.path.join(tmp, "f0.m"))
                out = {"outcome": "ok", "pending": []}
                allm = [model]
                if hasattr(model, "_tx_model_repository"):
                    allm += [m for m in model._tx_model_repository.all_models if m is not model]
                byfile = {os.path.basename(m._tx_filename): m for m in allm}
                values = []  # one per reference attribute, order of case_attrs(case)
                try:
                    for i, f in enumerate(files):
                        m = byfile.get(f"f{i}.m")
                        if m is None:
                            raise ValueError(f"model file f{i}.m was not loaded")
                        for path, e, o in walk_elems(m.elems, file_elems(f), ()):
                            for attr, is_list, _ in elem_attrs(e):
                                v = getattr(o, attr, None)
                                if is_list:
                                    values.append([item_id(x) for x in v] if isinstance(v, list) else "not-a-list")
                                else:
                                    values.append(None if v is None else item_id(v))
                    out["values"] = values
                except ValueError as e:
                    out["shape"] = str(e)
            except NonTermination as e:
                out = {"outcome": "nonterm", "msg": str(e)}
            except TextXError as e:
                msg = str(e)
                if "Unresolvable cross references" in msg:
                    out = {"outcome": "unresolvable", "pending": [int(x) for x in re.findall(r'"t(\d+)" of class', msg)]}
                else:
                    out = {"outcome": "error", "msg": msg[:200], "type": type(e).__name__}
            except Exception as e:  # any other exception type is an observation, too
                out = {"outcome": "other", "type": type(e).__name__, "msg": str(e)[:200]}
        finally:
            shutil.rmtree(tmp, ignore_errors=True)
        out["seq"] = [r[1] for r in log if r[0] == "resolved"]
        out["postponed"] = sum(1 for r in log if r[0] == "postponed")
        return out

    def order(self, case):
        files = case["files"]
        gone = set(case.get("cached", []))
        return [r for i in file_order(files) if i not in gone for r in file_refs(files[i])]

    # ------------------------------------------------------------------ model tie
    def model_req(self, case, obs):
        if case.get("kind") == "lib":
            return c09_lib.model_req(case, obs)
        if case.get("kind") == "hist":
            return self.hist_model_req(case, obs)
        return self.load_model_req(case, obs)

    def load_model_req(self, case, obs):
        lists = [a["refs"] for a in live_attrs(case) if a["list"]]
        gone = set(case.get("cached", []))
        pre = cached_refs(case)
        how = case_how(case)
        hold = holders(case["files"])
        walks = {e["r"]: e for _, _, e in hold.values() if e["k"] in WALKS}
        # the sequence observed on the implementation is handed over as well: the model's executable form of
        # "every reference resolves given the ones resolved before it" (`validOrder`) is evaluated on it
        # (the end of a `hike` is resolved by a provider attached in the grammar and not logged: no sequence then)
        hiking = any(e["k"] == "hike" for _, _, e in hold.values())
        seen = {} if hiking or obs.get("outcome") not in ("ok", "unresolvable") else {"obs_seq": obs["seq"]}
        if not how and not walks:
            # file by file: the model runs one pending list per model file, stepped in turn (`loopFiles`)
            per_file = [file_refs(case["files"][f]) for f in file_order(case["files"]) if f not in gone]
            own = set(self.order(case))
            deps = [[k, [d for d in ds if d not in pre]] for k, ds in case["deps"] if k in own]
            return {"op": "resolve", "refs": self.order(case), "deps": [[k, ds] for k, ds in deps if ds], "lists": lists,
                    "files": per_file, **seen}
        # providers that ask the resolver: the `_crossrefs` list of every model file takes part
        order = [f for f in file_order(case["files"]) if f not in gone]
        slot = {f: n for n, f in enumerate(order)}
        places = case_places(case)
        files = [[[r, places[r][1], places[r][2]] for r in file_refs(case["files"][f])] for f in order]
        waits = []
        for k, e in sorted(walks.items()):
            if k in places and places[k][0] in slot:
                ws = [[1, slot[places[r][0]], o, n] for o, n, r in walk_waits(e, hold, places) if places[r][0] in slot]
                waits.append([k, [w for n, w in enumerate(ws) if w not in ws[:n]]])
        own = set(self.order(case))
        for k, ds in case["deps"]:
            if k in walks or k not in own:
                continue
            ws = []
            for d in ds:
                p = places.get(d)
                if d in pre:
                    continue  # (a reference of a finished model: resolved, nothing pending about it)
                if how.get(k, "v") == "v" or p is None or p[0] not in slot:
                    ws.append([0, d])  # (a reference that is not there never resolves)
                elif how[k] == "o":
                    ws.append([2, slot[p[0]], p[1]])
                else:
                    ws.append([1, slot[p[0]], p[1], p[2]])
            waits.append([k, ws])
        return {"op": "resolveq", "files": files, "waits": waits, "lists": lists, **seen}

    def compare(self, case, obs, out):
        if case.get("kind") == "hist":
            return self.hist_compare(case, obs, out)
        return self.load_compare(case, obs, out)

    def load_compare(self, case, obs, out):
        lib = case.get("kind") == "lib"
        if "err" in out:
            return f"model rejected the request: {out}"
        if obs["outcome"] not in ("ok", "unresolvable"):
            return f"implementation outcome {obs['outcome']} but model terminates with pending={out['pending']}"
        if sorted(obs["pending"]) != sorted(out["pending"]):
            return f"pending references differ: impl {sorted(obs['pending'])} model {sorted(out['pending'])}"
        hikes = set() if lib else {e["r"] for _, _, e in holders(case["files"]).values() if e["k"] == "hike"}
        mseq = [r for r in out["seq"] if r not in hikes]  # (a provider attached in the grammar is not observed)
        if obs["seq"] != mseq:
            return f"resolution sequence differs: impl {obs['seq']} model {mseq}"
        # the two list models (fused `attrAfter`, Python-level `RefList.run`) under the loop's sequence
        if out.get("keyed") != out["lists"]:
            return f"list models disagree under the loop: fused {out['lists']}, keyed {out.get('keyed')}"
        # literal wording: the loop's sequence / the observed sequence resolves every reference given the ones before it
        if out.get("order_ok") is not True:
            return f"the model's resolution sequence {out['seq']} is not a valid order by `validOrder`"
        if out.get("obs_order_ok") is False:
            return f"the observed resolution sequence {obs['seq']} is not a valid order by `validOrder`"
        if "pending_files" in out and [r for f in out["pending_files"] for r in f] != out["pending"]:
            return "model: pending references per file do not add up"
        if obs["outcome"] == "ok" and "values" in obs:
            if lib:
                attrs = c09_lib.case_attrs(case)
                got = c09_lib.list_ids(case, obs)
            else:
                gone = set(case.get("cached", []))
                attrs = [a for a in case_attrs(case) if a["file"] not in gone]
                got = [v for a, v in zip(case_attrs(case), obs["values"]) if a["list"] and a["file"] not in gone]
            if got != out["lists"]:
                for a, g, w in zip([a for a in attrs if a["list"]], got, out["lists"]):
                    if g != w:
                        return (f"list attribute {a['cls']}.{a['attr']} of element {a.get('path', a.get('obj'))} in file {a['file']}: "
                                f"implementation {g}, model {w}")
                return f"list attributes differ: implementation {got}, model {out['lists']}"
        return None

    # ------------------------------------------------------------------ direct oracle
    def oracle(self, case, obs):
        if case.get("kind") == "lib":
            return c09_lib.oracle(case, obs)
        if case.get("kind") == "hist":
            return self.hist_oracle(case, obs)
        return self.load_oracle(case, obs)

    def spec_dead(self, case):
        """the references of the load that no order of resolving can resolve (least fixpoint, no model)"""
        table = expanded_deps(case, set(file_order(case["files"])))
        refs = self.order(case)
        lfp, changed = set(), True
        while changed:
            changed = False
            for r in refs:
                want = table.get(r, set())
                if r not in lfp and want is not None and want <= lfp:
                    lfp.add(r)
                    changed = True
        return sorted(set(refs) - lfp)

    def load_oracle(self, case, obs):
        # spec: least fixpoint of "all dependencies resolved"
        table = expanded_deps(case, set(file_order(case["files"])))
        refs = self.order(case)
        lfp, changed = set(), True
        while changed:
            changed = False
            for r in refs:
                want = table.get(r, set())
                if r not in lfp and want is not None and want <= lfp:
                    lfp.add(r)
                    changed = True
        dead = sorted(set(refs) - lfp)
        if obs["outcome"] == "nonterm":
            return "loading does not terminate: " + obs["msg"]
        if obs["outcome"] in ("error", "other"):
            return f"unexpected failure {obs.get('type')}: {obs.get('msg')}"
        foreign = sorted(set(obs.get("seq", [])) - set(refs))
        if foreign:
            return f"the load resolved the references {foreign}, which are not references of the loaded program {sorted(refs)}"
        if not dead:
            if obs["outcome"] != "ok":
                return f"every reference is resolvable in some order but loading failed naming {obs['pending']}"
            if "shape" in obs:
                return f"the loaded models do not have the objects of the model text: {obs['shape']}"
            # the result must be the one an unpostponed load gives: every single-valued reference holds its
            # target, every list holds the targets of its references in the order they are written
            for a, v in zip(case_attrs(case), obs["values"]):
                want = [r for r, _ in a["refs"]]
                where = f"{a['cls']}.{a['attr']} of element {a['path']} in file {a['file']}"
                if "want" in a:
                    if v != a["want"]:
                        return f"reference {where} resolved to {v}, expected {a['want']}"
                elif a["list"]:
                    if v != want:
                        return (f"list {where} = {v} but its references are written in the order {want} "
                                "(the result depends on the resolution order)")
                elif v != want[0]:
                    return f"reference {where} resolved to {v}, expected {want[0]}"
        else:
            if obs["outcome"] == "ok":
                return f"references {dead} can never resolve but loading succeeded"
            if sorted(obs["pending"]) != dead:
                return f"error names {sorted(obs['pending'])}, unresolvable are exactly {dead}"
        return None

    # ------------------------------------------------------------------ histories: several loads, one meta-model
    @staticmethod
    def hist_load(case, j, cached=()):
        """load j of a history as an ordinary case: file 0 = the main model, files 1.. = the library files
        (glob: registered with the provider; import: imported by the main model); `cached` = library files an
        earlier successful load left finished in the global repository"""
        ld = case["loads"][j]
        libs = case.get("libs", [])
        # the provider's tables are those of the whole history (reference ids are unique over it): a reference
        # behaves the same in whichever load it is asked about
        others = [x for n, l in enumerate(case["loads"]) if n != j for x in l["deps"]]
        c = {"deps": [list(x) for x in case.get("deps", [])] + [list(x) for x in ld["deps"]] + [list(x) for x in others],
             "prov": case.get("prov", "exact"),
             "files": [{"imports": list(range(1, len(libs) + 1)), "elems": ld["elems"]}]
                      + [{"imports": [], "elems": lib["elems"]} for lib in libs]}
        how = [list(x) for x in case.get("how", [])] + [list(x) for x in ld.get("how", [])]
        how += [list(x) for n, l in enumerate(case["loads"]) if n != j for x in l.get("how", [])]
        if how:
            c["how"] = how
        if ld.get("probe"):
            c["probe"] = ld["probe"]
        if cached:
            c["cached"] = sorted(cached)
        return c

    def hist_expected(self, case):
        """per load: (the load as an ordinary case, references no order can resolve) — decided from the programs
        alone: a failed load leaves nothing behind, a successful one (global repository) its finished files"""
        out, cached = [], set()
        for j in range(len(case["loads"])):
            c = self.hist_load(case, j, cached if case.get("global") else ())
            dead = self.spec_dead(c)
            out.append((c, dead))
            if case.get("global") and not dead:
                cached |= set(range(1, len(case.get("libs", [])) + 1))
        return out

    def hist_impl(self, case):
        use_repo()
        from textx.exceptions import TextXError

        libs = case.get("libs", [])
        glob = case.get("loader") == "glob"
        tmp = tempfile.mkdtemp(prefix="c09h_")
        st = LoadState(None, 0)
        outs = []
        try:
            libnames = [f"lib{i}.m" for i in range(len(libs))]
            mm = make_mm(None, None, 0, style=case.get("prov", "exact"), state=st, loader="glob" if glob else "import",
                         global_repo=bool(case.get("global")), libs=[os.path.join(tmp, n) for n in libnames])
            for i, lib in enumerate(libs):
                with open(os.path.join(tmp, libnames[i]), "w") as fh:
                    fh.write(render_file(i + 1, {"imports": [], "elems": lib["elems"]}, {}, tag=f"lib{i}")[0])
            for j, ld in enumerate(case["loads"]):
                c = self.hist_load(case, j)
                nrefs = sum(len(file_refs(f)) for f in c["files"])
                st.set(c, (nrefs + 3) * (nrefs + 1) + 5)
                st.log = []
                from_str = ld.get("main") == "str"
                mname = f"m{j}.m"
                st.names = {("str:padm%d" % j if from_str else mname): 0}
                st.names.update({n: i + 1 for i, n in enumerate(libnames)})
                text = render_file(0, c["files"][0], {}, tag=f"m{j}", import_names=[] if glob else libnames)[0]
                try:
                    try:
                        if from_str:
                            model = mm.model_from_str(text)
                        else:
                            with open(os.path.join(tmp, mname), "w") as fh:
                                fh.write(text)
                            model = mm.model_from_file(os.path.join(tmp, mname))
                        out = {"outcome": "ok", "pending": []}
                        byfile = {0: model}
                        if hasattr(model, "_tx_model_repository"):
                            for m in model._tx_model_repository.all_models:
                                name = os.path.basename(m._tx_filename) if getattr(m, "_tx_filename", None) else None
                                if name in libnames:
                                    byfile[libnames.index(name) + 1] = m
                        values = []
                        try:
                            for i, f in enumerate(c["files"]):
                                m = byfile.get(i)
                                if m is None:
                                    raise ValueError(f"model file {i} of the load is not in the repository")
                                for path, e, o in walk_elems(m.elems, file_elems(f), ()):
                                    for attr, is_list, _ in elem_attrs(e):
                                        v = getattr(o, attr, None)
                                        if is_list:
                                            values.append([item_id(x) for x in v] if isinstance(v, list) else "not-a-list")
                                        else:
                                            values.append(None if v is None else item_id(v))
                            out["values"] = values
                        except ValueError as e:
                            out["shape"] = str(e)
                    except NonTermination as e:
                        out = {"outcome": "nonterm", "msg": str(e)}
                    except TextXError as e:
                        msg = str(e)
                        if "Unresolvable cross references" in msg:
                            out = {"outcome": "unresolvable",
                                   "pending": [int(x) for x in re.findall(r'"t(\d+)" of class', msg)]}
                        else:
                            out = {"outcome": "error", "msg": msg[:200], "type": type(e).__name__}
                except Exception as e:  # any other exception type is an observation, too
                    out = {"outcome": "other", "type": type(e).__name__, "msg": str(e)[:200]}
                out["seq"] = [r[1] for r in st.log if r[0] == "resolved"]
                out["postponed"] = sum(1 for r in st.log if r[0] == "postponed")
                outs.append(out)
        finally:
            shutil.rmtree(tmp, ignore_errors=True)
        return {"loads": outs}

    def hist_oracle(self, case, obs):
        for j, ((c, dead), o) in enumerate(zip(self.hist_expected(case), obs["loads"])):
            f = self.load_oracle(c, o)
            if f:
                before = [x["outcome"] for x in obs["loads"][:j]]
                return (f"load {j + 1} of {len(case['loads'])} with one meta-model (earlier loads ended {before}; the outcome "
                        f"of a load depends on its own program only): {f}")
        return None

    def hist_model_req(self, case, obs):
        loads = []
        for j, ((c, dead), o) in enumerate(zip(self.hist_expected(case), obs["loads"])):
            if o.get("outcome") not in ("ok", "unresolvable"):
                return None
            gone = set(c.get("cached", []))
            keys = [100 + j if f == 0 else f - 1 for f in file_order(c["files"]) if f not in gone]
            loads.append({"keys": keys, "req": self.load_model_req(c, o)})
        return {"op": "hist", "global": bool(case.get("global")), "loads": loads}

    def hist_compare(self, case, obs, out):
        if "err" in out:
            return f"model rejected the request: {out}"
        exp = self.hist_expected(case)
        if len(out.get("outs", [])) != len(exp):
            return f"model answered {len(out.get('outs', []))} loads of {len(exp)}"
        for j, ((c, dead), o, m, cached) in enumerate(zip(exp, obs["loads"], out["outs"], out["cached"])):
            # the files the model's repository holds finished before load j = the ones the request left out
            want = sorted(f - 1 for f in c.get("cached", []))
            if sorted(k for k in cached if k < 100) != want:
                return (f"load {j + 1}: the model's repository holds the library files {sorted(cached)} finished, "
                        f"the request was built for {want}")
            d = self.load_compare(c, o, m)
            if d:
                return f"load {j + 1} of the history: {d}"
        return None

    def hist_shrink(self, case):
        import copy

        loads = case["loads"]
        libs = case.get("libs", [])

        def tidy(c):
            have = {r for lib in c.get("libs", []) for r in file_refs(lib)}
            c["deps"] = [[k, ds] for k, ds in c.get("deps", []) if k in have]
            c["how"] = [[k, h] for k, h in c.get("how", []) if k in have and any(k == i for i, _ in c["deps"])]
            for ld in c["loads"]:
                own = set(file_refs({"elems": ld["elems"]}))
                ld["deps"] = [[k, ds] for k, ds in ld["deps"] if k in own and ds]
                ld["how"] = [[k, h] for k, h in ld.get("how", []) if any(k == i for i, _ in ld["deps"])]
                ld["probe"] = [[k, ds] for k, ds in ld.get("probe", []) if k in own]
            return c

        for j in range(len(loads)):  # one load less
            if len(loads) > 1:
                c = copy.deepcopy(case)
                del c["loads"][j]
                yield tidy(c)
        for i in range(len(libs)):  # a library file without references
            if libs[i]["elems"]:
                c = copy.deepcopy(case)
                c["libs"][i]["elems"] = []
                yield tidy(c)
        if libs and not any(lib["elems"] for lib in libs) and case.get("loader") == "glob" and len(libs) > 1:
            c = copy.deepcopy(case)
            c["libs"] = libs[:1]
            yield tidy(c)
        for j, ld in enumerate(loads):  # one reference less / one wait less / plain providers
            ids = sorted(r for r in file_refs({"elems": ld["elems"]}) if r < OVER)
            for x in ids:
                if len(ids) > 1:
                    c = copy.deepcopy(case)
                    c["loads"][j]["elems"] = self._without(ld["elems"], x)
                    for l2 in c["loads"]:
                        l2["deps"] = [[k, [d for d in ds if d != x]] for k, ds in l2["deps"]]
                    yield tidy(c)
            for n, (k, ds) in enumerate(ld["deps"]):
                for d in ds:
                    c = copy.deepcopy(case)
                    c["loads"][j]["deps"][n] = [k, [y for y in ds if y != d]]
                    yield tidy(c)
            if ld.get("how") or ld.get("probe"):
                c = copy.deepcopy(case)
                c["loads"][j]["how"], c["loads"][j]["probe"] = [], []
                yield tidy(c)
        if case.get("prov", "exact") != "exact":
            c = copy.deepcopy(case)
            c["prov"] = "exact"
            yield tidy(c)

    def gen_hist(self, rng):
        """a history of loads with one meta-model: with / without a global repository, library files registered
        with a GlobalRepo provider (main models from strings or files) or imported (main models from files),
        every load its own dependency structure (about half of them unresolvable), waits reaching into the library"""
        glob = rng.chance(0.6)
        nlibs = rng.weighted([(0, 1), (1, 4), (2, 2)]) if glob else rng.weighted([(0, 1), (1, 3), (2, 2)])
        libs, lib_ids = [], []
        profile = rng.weighted([("mixed", 4), ("lists", 3), ("scalar", 3)])
        if nlibs:
            lib_ids = list(range(rng.randint(1, 4)))
            per = [[] for _ in range(nlibs)]
            for i in lib_ids:
                per[rng.below(nlibs)].append(i)
            libs = [{"elems": self.pack(rng, per[i], profile)} for i in range(nlibs)]
        ldeps = self.gen_deps(rng, lib_ids, rng.chance(0.75)) if lib_ids else {}
        ldeps = {k: [d if d in lib_ids else 900 + d % 3 for d in ds] for k, ds in ldeps.items()}
        case = {"kind": "hist", "global": rng.chance(0.7), "loader": "glob" if glob else "import",
                "prov": rng.choice(["exact", "attr", "cls"]), "libs": libs,
                "deps": [[k, ldeps[k]] for k in sorted(ldeps)],
                "how": [[k, "a"] for k in sorted(ldeps) if rng.chance(0.3)], "loads": []}
        for j in range(rng.randint(2, 4)):
            ids = [20 * (j + 1) + k for k in range(rng.randint(1, 5))]
            deps = self.gen_deps(rng, ids, rng.chance(0.45))
            deps = {k: [d if d in ids else 900 + d % 3 for d in ds] for k, ds in deps.items()}
            for k in ids:
                if lib_ids and rng.chance(0.3):
                    deps[k] = deps.get(k, []) + rng.sample(lib_ids, rng.randint(1, min(2, len(lib_ids))))
            ld = {"main": "str" if (glob or not nlibs) and rng.chance(0.65) else "file",
                  "deps": [[k, deps[k]] for k in sorted(deps)], "elems": self.pack(rng, ids, profile)}
            ask = rng.weighted([("value", 4), ("a", 2), ("o", 1), ("r", 1), ("each", 2)])
            if ask != "value":
                tmp = {"deps": ld["deps"], "files": [{"imports": [], "elems": ld["elems"]}]}
                self.gen_how(rng, tmp, ask)
                ld["how"] = tmp.get("how", [])
                if tmp.get("probe"):
                    ld["probe"] = tmp["probe"]
            case["loads"].append(ld)
        # a library reference may wait for a reference of one of the main models: in that load it resolves, in the
        # loads without that main model it never does (whatever an earlier load did to the library file)
        if lib_ids and rng.chance(0.2):
            k = rng.choice(lib_ids)
            ld = rng.choice(case["loads"])
            tab = {i: ds for i, ds in case["deps"]}
            tab[k] = tab.get(k, []) + [rng.choice(sorted(file_refs({"elems": ld["elems"]})))]
            case["deps"] = [[i, tab[i]] for i in sorted(tab)]
        return case

    def nontrivial(self, case, obs):
        if case.get("kind") == "hist":
            return any(o.get("postponed", 0) > 0 for o in obs.get("loads", []))
        return obs.get("postponed", 0) > 0

    def extra_evidence(self, cases, obs, model_outs):
        """how often the territory of the list theorems was reached"""
        with_lists = inverted = shared = 0
        everything = list(zip(cases, obs))
        libc = [(c, o) for c, o in everything if c.get("kind") == "lib" and isinstance(o, dict)]
        hist = [(c, o) for c, o in everything if c.get("kind") == "hist" and isinstance(o, dict) and "loads" in o]
        cases = [c for c, _ in everything if not c.get("kind")]
        obs = [o for c, o in everything if not c.get("kind")]
        for c, o in zip(cases, obs):
            if not isinstance(o, dict) or o.get("outcome") != "ok":
                continue
            lists = [a for a in case_attrs(c) if a["list"] and a["refs"]]
            if not lists:
                continue
            with_lists += 1
            when = {r: n for n, r in enumerate(o.get("seq", []))}
            inv = [a for a in lists
                   if any(when.get(x, 0) > when.get(y, 0) for (x, _), (y, _) in zip(a["refs"], a["refs"][1:]))]
            if inv:
                inverted += 1
                if any(sum(1 for b in lists if (b["file"], b["cls"]) == (a["file"], a["cls"])) > 1 for a in inv):
                    shared += 1
        # providers that ask the resolver: how often a query crosses a file boundary / meets a partly resolved list
        asking = cross = partial = walks = 0
        for c, o in zip(cases, obs):
            if not isinstance(o, dict) or "seq" not in o:
                continue
            how = case_how(c)
            hold = holders(c["files"])
            ws = [e for _, _, e in hold.values() if e["k"] in WALKS]
            if ws:
                walks += 1
            if not how and not ws:
                continue
            asking += 1
            places = case_places(c)
            pairs = [(k, d) for k, ds in c["deps"] if k in how for d in ds]
            pairs += [(e["r"], e["o"]) for e in ws]
            if any(k in places and d in places and places[k][0] != places[d][0] for k, d in pairs):
                cross += 1
            done = set(o["seq"])
            for _, d in pairs:
                if d in places:
                    grp = [r for r, p in places.items() if p[1] == places[d][1] and p[2] == places[d][2]]
                    if len(grp) > 1 and any(r in done for r in grp) and any(r not in done for r in grp):
                        partial += 1
                        break
        return {"loads_with_lists": with_lists, "loads_with_list_resolved_out_of_textual_order": inverted,
                "of_these_with_another_list_of_the_same_class_in_the_file": shared,
                "loads_with_providers_asking_the_resolver": asking, "of_these_asking_about_another_model_file": cross,
                "of_these_asking_about_a_list_left_partly_resolved": partial, "loads_with_rrel_walks": walks,
                "loads_with_library_providers": len(libc),
                "of_these_postponed_by_the_library": sum(1 for _, o in libc if o.get("postponed", 0) > 0),
                "of_these_unresolvable": sum(1 for _, o in libc if o.get("outcome") == "unresolvable"),
                "histories": len(hist),
                "histories_with_a_load_after_a_failed_one": sum(
                    1 for _, o in hist if any(x.get("outcome") != "ok" for x in o["loads"][:-1])),
                "of_these_global_repository_and_string_model": sum(
                    1 for c, o in hist if c.get("global") and any(
                        x.get("outcome") != "ok" and l.get("main") == "str"
                        for x, l in list(zip(o["loads"], c["loads"]))[:-1])),
                "histories_with_a_load_finding_library_files_finished": sum(
                    1 for c, o in hist if c.get("global") and c.get("libs") and any(
                        x.get("outcome") == "ok" for x in o["loads"][:-1]))}

    # ------------------------------------------------------------------ shrinking
    @staticmethod
    def _without(elems, x):
        """elements with reference x removed (elements that cannot do without it are reshaped)"""
        out = []
        for e in elems:
            k = e["k"]
            if k == "box":
                inner = Prop._without(e["e"], x)
                if inner:
                    out.append({"k": "box", "e": inner})
            elif k == "ref":
                if e["r"] != x:
                    out.append(e)
            elif k in WALKS:
                if x not in (e["r"], e["o"]):
                    out.append(e)
            elif k == "link":
                rest = [r for r in e["r"] if r != x]
                out.append(e if len(rest) == 2 else {"k": "ref", "r": rest[0]})
            else:
                m = [r for r in e["m"] if r != x]
                xs = [r for r in e.get("x", []) if r != x]
                if k == "group":
                    if not m:
                        m, xs = xs, []
                    if m:
                        out.append({"k": "group", "m": m, "x": xs})
                elif k == "pair" and len(m) < 2:
                    if m:
                        out.append({"k": "group", "m": m, "x": []})
                elif m or (k == "bag" and len(e["m"]) == 0):
                    out.append({"k": k, "m": m})
        return out

    def shrink(self, case):
        if case.get("kind") == "lib":
            yield from c09_lib.shrink(case)
            return
        if case.get("kind") == "hist":
            yield from self.hist_shrink(case)
            return
        yield from self.load_shrink(case)

    def load_shrink(self, case):
        files = [{"imports": f["imports"], "elems": file_elems(f)} for f in case["files"]]
        prov = case.get("prov", "exact")
        how = [[k, h] for k, h in case.get("how", []) if h != "v"]
        probe = [[k, ds] for k, ds in case.get("probe", []) if ds]

        def mk(deps, files, prov=prov, how=how, probe=probe):
            files = self._no_dangling(files)
            waiting = {k for k, _ in deps}
            c = {"deps": deps, "prov": prov, "files": files}
            if any(k in waiting for k, _ in how):
                c["how"] = [[k, h] for k, h in how if k in waiting]
            if probe:
                c["probe"] = probe
            return c

        ids = sorted({r for f in files for r in file_refs(f) if r < OVER})
        # no queries without effect
        if probe:
            yield mk(case["deps"], files, probe=[])
        # drop one reference (and mentions of it)
        for x in ids:
            fs = [{"imports": f["imports"], "elems": self._without(f["elems"], x)} for f in files]
            deps = [[i, [d for d in ds if d != x]] for i, ds in case["deps"] if i != x]
            deps = [[i, ds] for i, ds in deps if ds]
            pr = [[k, [d for d in ds if d != x]] for k, ds in probe if k != x]
            if any(file_refs(f) for f in fs):
                yield mk(deps, fs, how=[[k, h] for k, h in how if k != x], probe=[[k, ds] for k, ds in pr if ds])
        # one file
        if len(files) > 1:
            merged = {"imports": [], "elems": [e for f in files for e in f["elems"]]}
            yield mk(case["deps"], [merged])
        # open a container
        for fi, f in enumerate(files):
            for j, e in enumerate(f["elems"]):
                if e["k"] == "box":
                    f2 = {"imports": f["imports"], "elems": f["elems"][:j] + e["e"] + f["elems"][j + 1:]}
                    yield mk(case["deps"], files[:fi] + [f2] + files[fi + 1:])
        # drop one wait
        for n, (i, ds) in enumerate(case["deps"]):
            for d in ds:
                rest = [y for y in ds if y != d]
                deps = case["deps"][:n] + ([[i, rest]] if rest else []) + case["deps"][n + 1:]
                yield mk(deps, files)
        # a provider that looks at the model instead of asking the resolver; the plain query
        for n, (k, h) in enumerate(how):
            yield mk(case["deps"], files, how=how[:n] + how[n + 1:])
            if h != "a":
                yield mk(case["deps"], files, how=how[:n] + [[k, "a"]] + how[n + 1:])
        if prov != "exact":
            yield mk(case["deps"], files, prov="exact")

    def extra_search(self, rng, tier, broken):
        return list(self.gen(rng, 1500 if tier == "quick" else 10000, tier))
