"""C21 — autokwd matches keyword-like literals only on word boundaries.

Two kinds of cases against the real code of the tree under test:

  lits  what `TextXVisitor.visit_str_match` compiles grammar literals to (with autokwd
        on and off, with and without ignore_case): StrMatch or RegExMatch + pattern.
        Lean side: `Kwd.compileLit` over the generated keyword regex; the pattern is
        compared as a translated AST.  Complete for all literals of length <= 3 over
        {a, 1, _, é, +, .}.
  gram  a generated grammar (sequence / ordered choice / * / + / ? / ! / & / separator
        repetitions over identifier-like and symbol literals — plain, assigned with
        = += *= ?=, through a match rule, as separators —, ID, INT, user regex matches
        with and without a capturing group), a text (derived from the grammar, with glued
        tokens, case variants, injected word characters) and a *configuration* of the
        other metamodel options (use_regexp_group, memoization, auto_init_attributes,
        textx_tools_support, skipws, ws): `model_from_str` with autokwd on and off.
        Lean side: `Kwd.parseText` in both configurations (acceptance, the terminals
        with offsets and values, and the value each assigned terminal contributes to
        the object graph — compared with the attributes of the model).

  srcs  grammar string tokens *as written* — either quote, escape sequences (\\xHH \\uHHHH \\UHHHHHHHH octal
        \\N{name} \\n …), things that look like escapes and are none, invalid escapes — through the live
        `visit_str_match`.  Lean side: `Kwd.visitStrMatch` (= `decode_escapes` + `compileLit`).
Every literal of a gram case also has a *spelling* (the token written in the grammar): the value is what
the generator derives inputs from and what the oracle judges (checked against Python's own reading of the
token), the spelling is what textX and the Lean model get.

The direct oracle decides the three clauses of the property on the implementation's
observations only.
"""
import ast
import codecs
import re
import unicodedata
import warnings

from harness.core import Check, use_repo
from harness.txutil import dump_model

SMALL = ["a", "1", "_", "é", "+", "."]
KW_POOL = ["a", "ab", "if", "end", "begin", "_x", "x1", "é", "été", "kw_1", "A", "If", "ÉT", "b٣"]
SYM_POOL = ["+", "+=", ".", "..", "->", "(", ")", ":", "=", "#", "1a", "a+", "+a", "1", "é.", "a.b", "@", "-"]
IDENTS = ["x", "y1", "foo", "_z", "é2"]
# characters whose IGNORECASE equivalences in `re` differ from `str.lower()` equality
EXOTIC = ["ſ", "ı", "İ", "ς"]
KF_FOLD = "C21-KF1"
# user regex matches: (source before the group, source of the group | None, sample kind)
RX_POOL = [("#", r"\w+", "w"), ("@", r"\d+", "d"), ("", r"\w+", "w"), (r"%\w*", None, "pw"), ("x", r"\d+", "d"),
           (":", r"[^\W\d]\w*", "i"), (r"\$\w+", None, "dw")]
SEP_POOL = ["and", "or", "a", ",", ";", "_x", "If", "->"]
DEFAULT_WS = "\t\n\r "
WS_POOL = [" ", " \n;", "\t\n\r ,", " _"]
OPT_DEFAULTS = {"rg": False, "memo": False, "autoinit": True, "tools": False, "skipws": True, "ws": None}


# ----------------------------------------------------------------------------- literals as written
SINGLE = {"\\": "\\\\", "'": "\\'", '"': '\\"', "\a": "\\a", "\b": "\\b", "\f": "\\f", "\n": "\\n", "\r": "\\r",
          "\t": "\\t", "\v": "\\v"}
ESC_FORMS = ["x", "o", "u", "U", "N", "c"]
# characters that start an escape sequence after a backslash (a bare backslash must not precede them)
ESC_START = set("Uux01234567N\\'\"abfnrtv\n")
# values that cannot be written without an escape, or contain things that look like one
ESC_VALUES = ["a\tb", "'", "it's", "\\", "a\\b", '"', '"q"', "\\d", "\\w+", "\n", "a'", "\\x41", "x\\"]
EXTRA_KW = ["café", "naïve", "begin", "Ünï", "x_1"]
# tokens written by hand: short / unterminated escapes (no escape: the backslash stays), escapes that decode to
# keywords, aliases and lower-case names, octal > 0o377, invalid escapes (TextXSyntaxError with and without autokwd)
RAW_TOKENS = [r"'\x4'", r"'\u12'", r"'\U0001'", r"'\N{}'", r"'\N{LATIN SMALL LETTER A'", r"'\8'", r"'\d'", r"'\q'", r"'\N'",
              r"'\xZZ'", r"'\x4g'", r"'a\x4g'", r"'\N{NO SUCH NAME}'", r"'\U00110000'", r"'\UFFFFFFFF'", r"'\u00zz'",
              r"'a\0'", r"'\08'", r"'\1234'", r"'\123'", r"'\x41\x42'", r"'\\x41'", r"'\N{LATIN SMALL LETTER A}1'",
              r"'\N{latin small letter a}'", r"'\N{LF}'", r"'\u00e9t\u00E9'", r"'x\n'", "\"\\'\"", "'\\\"'", r"'\x5f\x78'",
              r"'\U0001d431'", r"'\u0663'", r"'a\u0663'", "''", '""', r"'\x62egin'", r'"en\144"', r"'caf\u00e9'",
              r"'na\N{LATIN SMALL LETTER I WITH DIAERESIS}ve'", r"'\x2b='", r"'\x61+'", r"'\141\142'", r"'\x31a'",
              r"'\x20a'", r"'a\x20'", r"'\Ufffffffg'", r"'\N{LATIN SMALL LETTER A}\N{NOPE}'", r"'if\x'", r"'if\u'"]


def esc_forms(ch, nxt, last):
    """the escape sequences that denote one character (nxt: the character written after it)"""
    cp = ord(ch)
    f = {}
    if cp < 256:
        f["x"] = "\\x%02x" % cp
        f["o"] = "\\%03o" % cp
        if nxt is None or nxt not in "01234567":
            f["o1"] = "\\%o" % cp
    if cp < 0x10000:
        f["u"] = "\\u%04x" % cp
    f["U"] = "\\U%08x" % cp
    name = unicodedata.name(ch, None)
    if name:
        f["N"] = "\\N{%s}" % name
    # `\\\\` directly before the closing quote is mis-lexed by the grammar's string regex (not C21's business)
    if ch in SINGLE and not (ch == "\\" and last):
        f["c"] = SINGLE[ch]
    return f


def spell_token(rng, value, p_esc, quote=None, form=None, only=None):
    """a grammar string token for `value`: every character is written plainly or (probability p_esc, always for
    the quote character, control characters and — mostly — the backslash) as an escape sequence; `form` asks for
    one kind of escape where it is possible, `only` restricts escaping to one position (-1 = the last)"""
    q = quote or rng.weighted([("'", 3), ('"', 1)])
    body = ""
    n = len(value)
    if only is not None and n:
        only = only % n
    keep = False
    for i, ch in enumerate(value):
        nxt = value[i + 1] if i + 1 < n else None
        last = i == n - 1
        must = ch == q or ch == "\\" or (ord(ch) < 32 and ch not in "\t\n") or ord(ch) == 127
        if keep:
            body += ch          # the character after a bare backslash stays as it is
            keep = False
            continue
        if ch == "\\" and not last and nxt not in ESC_START and nxt.isprintable() and rng.chance(0.5):
            body += ch          # a bare backslash that starts no escape sequence
            keep = True
            continue
        want = (only is None and rng.chance(p_esc)) or (only is not None and i == only)
        if not (must or want):
            body += ch
            continue
        fs = esc_forms(ch, nxt, last)
        k = form if form in fs else rng.choice(sorted(fs))
        t = fs[k]
        if k in ("x", "u", "U") and rng.chance(0.3):
            t = t[:2] + t[2:].upper()
        elif k == "N" and rng.chance(0.2):
            t = t[:3] + t[3:].lower()
        body += t
    return q + body + q


def plain_token(value):
    return "'" + value + "'"


def spec_value(tok):
    """Python's own reading of the token as a string literal (None when Python refuses it)"""
    q, body = tok[0], tok[1:-1]
    if "\\\n" in body or "\r" in body:
        return None
    try:
        with warnings.catch_warnings():
            warnings.simplefilter("ignore")
            v = ast.literal_eval(q * 3 + body + q * 3)
    except Exception:
        return None
    return v if isinstance(v, str) else None


def names_of(tokens):
    """Python's Unicode name table for the `\\N{name}` written in the tokens"""
    out = []
    seen = set()
    for t in tokens:
        for name in re.findall(r"\\N\{([^}]+)\}", t):
            if name in seen:
                continue
            seen.add(name)
            try:
                with warnings.catch_warnings():
                    warnings.simplefilter("ignore")
                    ch = codecs.decode("\\N{%s}" % name, "unicode-escape")
            except Exception:
                continue
            if len(ch) == 1:
                out.append([cps(name), ord(ch)])
    return out


def opts_of(case):
    o = dict(OPT_DEFAULTS)
    o.update(case.get("opts") or {})
    return o


def eff_ws(o):
    """the characters the parser skips before a terminal"""
    if not o["skipws"]:
        return ""
    return DEFAULT_WS if o["ws"] is None else o["ws"]


def mm_kwargs(o):
    kw = {"use_regexp_group": o["rg"], "memoization": o["memo"], "auto_init_attributes": o["autoinit"],
          "textx_tools_support": o["tools"]}
    if not o["skipws"]:
        kw["skipws"] = False
    if o["ws"] is not None:
        kw["ws"] = o["ws"]
    return kw


def rx_src(g):
    return g[1] + ("(" + g[2] + ")" if g[2] is not None else "")


def cps(s):
    return [ord(c) for c in s]


def uncps(l):
    return "".join(chr(c) for c in l)


def is_word(ch):
    return re.match(r"\w", ch) is not None


def kwlike_spec(lit):
    """'looks like an identifier', independently of the code's regex: Python's own notion."""
    return lit.isidentifier()


def sre_eq(a, b):
    return re.fullmatch(re.escape(a), b, re.I) is not None


def fold_divergent(chars):
    """pairs of characters on which re's IGNORECASE and str.lower() disagree"""
    cs = sorted(set(chars))
    out = []
    for a in cs:
        for b in cs:
            if a < b and sre_eq(a, b) != (a.lower() == b.lower()):
                out.append((a, b))
    return out


def cc_of(text):
    """Python's classification of the non-ASCII characters; fold = representative of the
    re.IGNORECASE equivalence class (an ASCII member in lower case when there is one)."""
    d, w, s, f = [], [], [], []
    chars = sorted(set(text))
    for ch in chars:
        if ord(ch) < 128:
            continue
        if re.match(r"\d", ch):
            d.append(ord(ch))
        elif re.match(r"\w", ch):
            w.append(ord(ch))
        if re.match(r"\s", ch):
            s.append(ord(ch))
        cands = [c for c in (ch.lower(), ch.upper(), ch) if len(c) == 1]
        cls = sorted({c for c in chars + cands + list("abcdefghijklmnopqrstuvwxyz") if len(c) == 1 and sre_eq(ch, c)} | {ch})
        asc = [c for c in cls if ord(c) < 128]
        rep = asc[0].lower() if asc else cls[0]
        if rep != ch:
            f.append([ord(ch), ord(rep)])
    # every representative must itself be mapped consistently: non-ASCII representatives map to themselves
    return {"d": d, "w": w, "s": s, "f": f}


# ----------------------------------------------------------------------------- grammar rendering
def pe_json(g, ic=False):
    """the grammar as the Lean driver reads it (assignment operators and modifiers become the parsing
    expressions textX builds for them: `+=` OneOrMore, `*=` ZeroOrMore, `?=` Optional)"""
    from harness import translate_re as T

    k = g[0]
    if k == "lit":
        base = ["slit", cps(tok_of(g))]
        mode = g[2] if len(g) > 2 else "plain"
        return {"add": ["plus", base], "mul": ["star", base], "bool": ["opt", base]}.get(mode, base)
    if k in ("id", "int", "empty"):
        return [k]
    if k == "rx":
        fl = re.IGNORECASE if ic else 0
        return ["rx", T.to_json(T.translate(g[1], fl)), None if g[2] is None else T.to_json(T.translate(g[2], fl))]
    if k == "ids":
        sep, op = g[1], g[2]
        if sep is None:
            return ["plus" if op == "+=" else "star", ["id"]]
        return ["sepplus" if op == "+=" else "sepstar", ["id"], ["slit", cps(tok_of(g))]]
    if k in ("seq", "choice", "sepplus", "sepstar"):
        return [k, pe_json(g[1], ic), pe_json(g[2], ic)]
    return [k, pe_json(g[1], ic)]


def tok_of(g):
    """the token of a literal node as written in the grammar: ("lit", value, mode, token) / ("ids", sep, op, token);
    without a recorded spelling: the value in single quotes"""
    if len(g) > 3 and g[3] is not None:
        return g[3]
    return plain_token(g[1])


def toks_of(g):
    k = g[0]
    if k == "lit":
        return [tok_of(g)]
    if k == "ids":
        return [tok_of(g)] if g[1] is not None else []
    if k in ("seq", "choice", "sepplus", "sepstar"):
        return toks_of(g[1]) + toks_of(g[2])
    if k in ("star", "opt", "not", "plus", "and"):
        return toks_of(g[1])
    return []


def lits_of(g):
    k = g[0]
    if k == "lit":
        return [g[1]]
    if k == "ids":
        return [g[1]] if g[1] is not None else []
    if k in ("seq", "choice", "sepplus", "sepstar"):
        return lits_of(g[1]) + lits_of(g[2])
    if k in ("star", "opt", "not", "plus", "and"):
        return lits_of(g[1])
    return []


ASG_OPS = {"asg": "=", "add": "+=", "mul": "*=", "bool": "?="}


def render(g):
    """PE -> textX grammar text.  Literals are assigned (`kN='lit'`, also with += *= ?=), matched through a match
    rule (`kN=KwN`) or left plain, as recorded in the tree: ("lit", text, mode).  Returns the grammar and the kind of
    every attribute (str / int / bool) by name."""
    rules = []
    kinds = {"fin": "str"}
    n = [0]

    def go(g):
        k = g[0]
        if k == "lit":
            n[0] += 1
            mode = g[2] if len(g) > 2 else "plain"
            if mode in ASG_OPS:
                kinds[f"k{n[0]}"] = "bool" if mode == "bool" else "str"
                return f"k{n[0]}{ASG_OPS[mode]}{tok_of(g)}"
            if mode == "rule":
                rules.append(f"Kw{n[0]}: {tok_of(g)};")
                kinds[f"k{n[0]}"] = "str"
                return f"k{n[0]}=Kw{n[0]}"
            return tok_of(g)
        if k == "id":
            n[0] += 1
            kinds[f"i{n[0]}"] = "str"
            return f"i{n[0]}=ID"
        if k == "int":
            n[0] += 1
            kinds[f"n{n[0]}"] = "int"
            return f"n{n[0]}=INT"
        if k == "rx":
            n[0] += 1
            mode = g[3] if len(g) > 3 else "asg"
            if mode == "asg":
                kinds[f"r{n[0]}"] = "str"
                return f"r{n[0]}=/{rx_src(g)}/"
            return f"/{rx_src(g)}/"
        if k == "ids":
            n[0] += 1
            kinds[f"i{n[0]}"] = "str"
            return f"i{n[0]}{g[2]}ID" + (f"[{tok_of(g)}]" if g[1] is not None else "")
        if k == "seq":
            return f"{go(g[1])} {go(g[2])}"
        if k == "choice":
            return f"( {go(g[1])} | {go(g[2])} )"
        if k == "star":
            return f"( {go(g[1])} )*"
        if k == "plus":
            return f"( {go(g[1])} )+"
        if k == "opt":
            return f"( {go(g[1])} )?"
        if k == "not":
            return f"!( {go(g[1])} )"
        if k == "and":
            return f"&( {go(g[1])} )"
        if k in ("sepplus", "sepstar"):
            a = go(g[1])
            return f"( {a} ){'+' if k == 'sepplus' else '*'}[{tok_of(g[2])}]"
        if k == "empty":
            return "''"
        raise ValueError(k)

    body = go(g)
    return "Model: " + body + " fin='.' ;\n" + "\n".join(rules) + "\n", kinds


def full_pe(g, ic=False):
    """the grammar as the Lean side sees it: body followed by the closing '.'"""
    return ["seq", pe_json(g, ic), ["lit", cps(".")]]


_mm_cache = {}


def metamodel(gtext, autokwd, ic, o=None):
    use_repo()
    o = o or OPT_DEFAULTS
    key = (gtext, autokwd, ic, tuple(sorted(o.items(), key=lambda kv: kv[0])))
    if key not in _mm_cache:
        if len(_mm_cache) > 400:
            _mm_cache.clear()
        from textx import metamodel_from_str

        _mm_cache[key] = metamodel_from_str(gtext, autokwd=autokwd, ignore_case=ic, **mm_kwargs(o))
    return _mm_cache[key]


def terminals(node, out, attr=None, sep=None):
    """terminals of the parse tree: [position, value, to_match of the rule, name of the attribute the terminal is
    assigned to (None for plain matches and for separators of a repetition)]"""
    from arpeggio import Terminal

    if isinstance(node, Terminal):
        if node.rule_name != "EOF":
            a = None if (sep is not None and node.rule is sep) else attr
            out.append([node.position, cps(node.value), getattr(node.rule, "to_match", None), a])
    else:
        if str(node.rule_name).startswith("__asgn"):
            attr = getattr(node.rule, "_attr_name", None)
            sep = getattr(node.rule, "sep", None)
        for n in node:
            terminals(n, out, attr, sep)
    return out


def run_cfg(gtext, text, autokwd, ic, o=None):
    use_repo()
    from textx.exceptions import TextXSyntaxError, TextXError

    try:
        mm = metamodel(gtext, autokwd, ic, o)
    except Exception as e:
        return {"gerr": type(e).__name__}
    try:
        model = mm.model_from_str(text)
    except TextXSyntaxError as e:
        lines = text.split("\n")
        return {"ok": False, "pos": sum(len(l) + 1 for l in lines[: e.line - 1]) + (e.col - 1)}
    except TextXError as e:
        return {"ok": False, "err": type(e).__name__, "msg": str(e)[:200]}
    except Exception as e:
        return {"ok": False, "exc": type(e).__name__, "msg": str(e)[:200]}
    toks = []
    p = getattr(model, "_tx_parser", None)
    if p is not None:
        terminals(p.parse_tree, toks)
    return {"ok": True, "toks": toks, "dump": dump_model(model)}


def live_visit(token, ic, autokwd):
    """what the live `visit_str_match` makes of a string token as written (with its quotes)"""
    use_repo()
    from harness import translate_re as T
    from arpeggio import RegExMatch, StrMatch
    from textx.exceptions import TextXSyntaxError
    from textx.lang import TextXVisitor

    class MM(T._MM):
        file_name = None

    class GP:
        @staticmethod
        def pos_to_linecol(pos):
            return (1, 1)

    class Node:
        position = 0

    try:
        with warnings.catch_warnings():
            warnings.simplefilter("ignore")
            m = TextXVisitor(GP(), MM(ic, autokwd)).visit_str_match(Node(), [token])
    except TextXSyntaxError:
        return {"err": "TextXSyntaxError"}
    except Exception as e:
        return {"exc": type(e).__name__, "msg": str(e)[:100]}
    if isinstance(m, RegExMatch):
        try:
            if not hasattr(m, "regex"):
                m.compile()
            pat, fl = m.regex.pattern, m.regex.flags
            try:
                a = T.to_json(T.translate(pat, fl))
            except T.Untranslatable as e:
                a = {"untranslatable": str(e), "pattern": pat}
            return {"kind": "re", "re": a, "value": cps(m.to_match), "groups": m.regex.groups}
        except Exception as e:
            return {"exc": type(e).__name__, "msg": str(e)[:100]}
    if isinstance(m, StrMatch):
        return {"kind": "str", "lit": cps(m.to_match), "icase": bool(m.ignore_case)}
    return {"exc": "class", "msg": type(m).__name__}


class Prop(Check):
    ID = "C21"
    LEAN_MODULE = "TextxVerif.Props.C21"
    THEOREMS = [
        "Kwd.C21_keywordlike_iff",
        "Kwd.C21_boundary",
        "Kwd.C21_never_glued",
        "Kwd.C21_non_kwd_unchanged",
        "Kwd.C21_token_agree",
        "Kwd.C21_same_model",
        "Kwd.C21_literal_value",
        "Kwd.C21_glued_differs",
        "Kwd.C21_written_literal",
        "Kwd.C21_spelling_irrelevant",
        "Kwd.C21_plain_spelling",
        "Kwd.C21_never_glued_written",
        "Kwd.C21_non_kwd_unchanged_written",
        "Kwd.C21_decode_total",
        "Peg.Case.C21_autokwdTok_compileLit",
        "Peg.Case.C21_same_tokTable",
        "Peg.Case.C21_same_run",
        "Peg.Case.C21_run_glued_differs",
    ]
    DRIVER = "Drivers/Re.lean"
    PROCS_THOROUGH = 4
    QUICK_CASES = 300
    THOROUGH_CASES = 30000
    RULE = ("gram cases: a grammar of 2..7 elements over identifier-like and symbol literals (plain, assigned with = += *= ?=, "
            "through a match rule, as separator of a repetition), ID, INT, user regex matches with / without a capturing "
            "group, with choice / * / + / ? / ! / & / separator repetitions; a text derived from it with glued tokens, "
            "injected word characters and (under ignore_case) case variants; and a configuration of the other metamodel "
            "options (use_regexp_group, memoization, auto_init_attributes, textx_tools_support, skipws, ws) — loaded with "
            "autokwd on and off; config-matrix cases: keyword-like literals x assignment kind x ignore_case x "
            "use_regexp_group x the other options (pairwise) on a case-variant input; every literal of a gram case has a "
            "spelling (single / double quotes, \\xHH \\uHHHH \\UHHHHHHHH octal \\N{name} single-character escapes, bare "
            "backslashes; values that need escapes: quotes, backslash, tab); spelling-matrix cases: keyword-like literal x "
            "kind of escape x position x use of the literal x ignore_case on glued / not glued inputs, symbol literals "
            "written with escapes, invalid escapes; srcs cases: ~350 string tokens as written (pool literals x spelling, "
            "non-escapes, invalid escapes) through visit_str_match; lits cases: all literals of "
            "length <= 3 over {a,1,_,é,+,.} and pool / random Unicode literals through visit_str_match.  non-trivial = a "
            "gram case with a keyword-like literal that is accepted with autokwd, or in which a keyword-like literal is "
            "glued to a word character; or a lits case")
    MODELLED = ("regenerated (tie T): TextXVisitor.keyword_regex and the pattern visit_str_match builds for a probe literal "
                "(Python's re._parser -> Re.R; kwProbe_shape / keyword_shape are rfl); hand-modelled: visit_str_match "
                "(Kwd.compileLit, tie X op compile on every literal, incl. regex.groups; from the token as written: quote "
                "stripping + decode_escapes = Kwd.litOfSrc / Kwd.visitStrMatch, tie X op compilesrc and the slit nodes of op "
                "parse, Python's Unicode name table passed as data), StrMatch/RegExMatch/KeywordMatch._parse "
                "and Arpeggio's sequence / ordered choice / ZeroOrMore / OneOrMore / Optional / Not / And / separator "
                "repetitions with skipping of the configured whitespace set (Kwd.parse, tie X op parse), the Terminal branch "
                "of process_node in textx/model.py (value for the object graph, use_regexp_group; Kwd.tokMatch) compared "
                "with the attribute values of the model; memoization / auto_init_attributes / textx_tools_support are varied "
                "and must be transparent; not exhibited: Arpeggio's error positions, rule modifiers, comments, nested "
                "rules / object-valued attributes, regexes with more than one group (other properties)")
    ASSUMPTIONS = [
        "with ignore_case: str.lower() equality and re's IGNORECASE agree on the characters involved (false for ſ ı İ ς: known finding C21-KF1)",
        "grammars of the PEG fragment of Kwd.PE; alternatives and repetition bodies do not match empty (Arpeggio quirks are C01's)",
    ]

    def __init__(self):
        from harness import translate_re

        self.TRANSLATE = translate_re.run

    # ------------------------------------------------------------------ generation
    _pesc = 0.0

    def written(self, rng, value):
        """the spelling of one occurrence of a literal in the grammar (None = plainly, in single quotes)"""
        if value is None:
            return None
        needs = any(c in "'\\" or ord(c) < 32 for c in value)
        if not needs and (self._pesc == 0.0 or rng.chance(0.4)):
            return None if rng.chance(0.8) or '"' in value else '"' + value + '"'
        return spell_token(rng, value, self._pesc)

    def gen_pe(self, rng, lits, depth, inrep=False):
        """random PE; returns (tree, nullable).  inrep: inside a * / + repetition (no `?=` there: textX refuses it)"""
        def leaf(nonnull=False):
            k = rng.weighted([("lit", 12), ("id", 4), ("int", 2), ("rx", 3), ("ids", 2)])
            if k == "lit":
                mode = rng.weighted([("plain", 6), ("asg", 6), ("rule", 2), ("add", 2), ("mul", 1), ("bool", 2)])
                if (nonnull and mode in ("mul", "bool")) or (inrep and mode == "bool"):
                    mode = "asg"
                v = rng.choice(lits)
                return ("lit", v, mode, self.written(rng, v)), mode in ("mul", "bool")
            if k == "rx":
                pre, body, kind = rng.choice(RX_POOL)
                return ("rx", pre, body, rng.weighted([("asg", 4), ("plain", 1)]), kind), False
            if k == "ids":
                sep = rng.choice([l for l in lits] + SEP_POOL) if rng.chance(0.75) else None
                op = "+=" if nonnull or rng.chance(0.7) else "*="
                return ("ids", sep, op, self.written(rng, sep)), op == "*="
            return (k,), False

        def body(d, inrep=inrep):
            a, na = self.gen_pe(rng, lits, d, inrep)
            if na:
                a = ("seq", leaf(True)[0], a)
            return a

        if depth <= 0:
            return leaf()
        k = rng.weighted([("leaf", 8), ("seq", 10), ("choice", 6), ("star", 3), ("opt", 4), ("plus", 2), ("sep", 2),
                          ("notseq", 2), ("andseq", 1)])
        if k == "leaf":
            return leaf()
        if k == "seq":
            a, na = self.gen_pe(rng, lits, depth - 1, inrep)
            b, nb = self.gen_pe(rng, lits, depth - 1, inrep)
            return ("seq", a, b), na and nb
        if k == "choice":
            return ("choice", body(depth - 1), body(depth - 1)), False
        if k == "opt":
            return (k, body(depth - 1)), True
        if k == "star":
            return (k, body(depth - 1, True)), True
        if k == "plus":
            return ("plus", body(depth - 1, True)), False
        if k == "sep":
            kk = rng.choice(["sepplus", "sepplus", "sepstar"])
            v = rng.choice(lits + SEP_POOL)
            return (kk, body(depth - 1, True), ("lit", v, "plain", self.written(rng, v))), kk == "sepstar"
        if k == "andseq":
            # `&kw ID`: only identifiers that are the keyword (on a word boundary under autokwd)
            v = rng.choice(lits)
            return ("seq", ("and", ("lit", v, "plain", self.written(rng, v))), ("id",)), False
        # `!kw ID`: the usual way to keep keywords out of identifiers
        v = rng.choice(lits)
        return ("seq", ("not", ("lit", v, "plain", self.written(rng, v))), ("id",)), False

    def spell(self, rng, t, ic):
        if ic and rng.chance(0.5):
            u = rng.choice([t.upper(), t.lower(), t.swapcase()])
            if len(u) == len(t):
                return u
        return t

    def ident(self, rng):
        pool = list(IDENTS)
        if self._kws:
            pool += [l + rng.choice(["x", "1", "_"]) for l in self._kws]
            if rng.chance(0.15):
                pool += self._kws
        return rng.choice(pool)

    def derive(self, rng, g, ic, toks):
        k = g[0]
        if k == "lit":
            mode = g[2] if len(g) > 2 else "plain"
            cnt = {"add": rng.randint(1, 3), "mul": rng.below(3), "bool": rng.below(2)}.get(mode, 1)
            for _ in range(cnt):
                toks.append(self.spell(rng, g[1], ic))
        elif k == "id":
            toks.append(self.ident(rng))
        elif k == "int":
            toks.append(str(rng.randint(0, 99)))
        elif k == "rx":
            kind = g[4] if len(g) > 4 else "w"
            pre = {"pw": "%", "dw": "$"}.get(kind, g[1])
            if kind == "d":
                w = str(rng.randint(0, 999))
            elif kind == "pw":
                w = rng.choice(["", "t1", "Ab"])
            elif kind == "i":
                w = rng.choice(IDENTS + ["T1", "Ab"])
            else:
                w = rng.choice(IDENTS + ["T1", "42", "Ab"] + self._kws)
            toks.append(pre + w)
        elif k == "ids":
            cnt = rng.randint(1, 3) if g[2] == "+=" else rng.below(3)
            for i in range(cnt):
                if i and g[1] is not None:
                    toks.append(self.spell(rng, g[1], ic))
                toks.append(self.ident(rng))
        elif k == "seq":
            self.derive(rng, g[1], ic, toks)
            self.derive(rng, g[2], ic, toks)
        elif k == "choice":
            self.derive(rng, g[1 + rng.below(2)], ic, toks)
        elif k in ("star", "plus"):
            lo = 1 if k == "plus" else 0
            for _ in range(rng.weighted([(lo, 2), (1, 3), (2, 2), (3, 1)])):
                self.derive(rng, g[1], ic, toks)
        elif k in ("sepplus", "sepstar"):
            cnt = rng.randint(1, 3) if k == "sepplus" else rng.below(3)
            for i in range(cnt):
                if i:
                    toks.append(self.spell(rng, g[2][1], ic))
                self.derive(rng, g[1], ic, toks)
        elif k == "opt":
            if rng.chance(0.6):
                self.derive(rng, g[1], ic, toks)

    def gen_opts(self, rng):
        return {"rg": rng.chance(0.45), "memo": rng.chance(0.3), "autoinit": not rng.chance(0.25),
                "tools": rng.chance(0.15), "skipws": not rng.chance(0.07),
                "ws": rng.choice(WS_POOL) if rng.chance(0.2) else None}

    def join(self, rng, toks, o, glue_p):
        ws = eff_ws(o)
        seps = [" ", " ", "\n", "  "] if ws == DEFAULT_WS else ([ws[0], ws[0], ws[-1], ws[0] * 2] if ws else [""])
        text = ""
        for i, t in enumerate(toks):
            if i:
                text += "" if rng.chance(glue_p) else rng.choice(seps)
            text += t
        return text

    def gram_case(self, rng, tier, exotic=False):
        nl = rng.randint(1, 4)
        pool_kw = KW_POOL + EXTRA_KW + (["is", "sı", "iſ", "σας"] if exotic else [])
        self._pesc = rng.weighted([(0.0, 5), (0.25, 3), (1.0, 2)])
        lits = [rng.choice(pool_kw) if rng.chance(0.6) else rng.choice(SYM_POOL + (ESC_VALUES if rng.chance(0.25) else []))
                for _ in range(nl)]
        if rng.chance(0.15):
            lits.append("".join(rng.choice(SMALL) for _ in range(rng.randint(1, 3))))
        ic = rng.chance(0.35) or exotic
        g, _ = self.gen_pe(rng, lits, rng.randint(1, 3))
        if g[0] != "seq" and rng.chance(0.6):
            g = ("seq", g, self.gen_pe(rng, lits, 1)[0])
        o = self.gen_opts(rng)
        self._kws = [l for l in lits_of(g) if kwlike_spec(l)]
        toks = []
        self.derive(rng, g, ic, toks)
        toks.append(".")
        text = self.join(rng, toks, o, rng.choice([0.0, 0.15, 0.4, 0.8]))
        m = rng.weighted([("none", 5), ("inject", 2), ("drop", 1), ("case", 1), ("exotic", 2 if exotic else 0)])
        if m == "inject" and self._kws:
            kw = rng.choice(self._kws)
            i = text.find(kw)
            if i >= 0:
                text = text[: i + len(kw)] + rng.choice(["x", "1", "_", "é", "+", " "]) + text[i + len(kw):]
        elif m == "drop" and text:
            i = rng.below(len(text))
            text = text[:i] + text[i + 1:]
        elif m == "case":
            text = text.swapcase()
        elif m == "exotic":
            text = text.replace("s", "ſ", 1) if rng.chance(0.5) else text.replace("i", "ı", 1)
        return {"k": "gram", "g": g, "ic": ic, "opts": o, "text": cps(text)}

    def config_matrix(self, rng, tier):
        """keyword-like literal x way the literal is used x ignore_case x use_regexp_group, the remaining options
        cycling through all their combinations; the input spells the keyword as the grammar does and (under
        ignore_case) differently, next to a user regex with a group and an identifier"""
        out = []
        kws = [l for l in KW_POOL if l.lower() != l.upper()]
        picks = rng.sample(kws, 3 if tier == "quick" else len(kws))
        modes = ["asg", "add", "bool", "rule", "plain", "sep"]
        rest = [(memo, autoinit, tools, ws) for memo in (False, True) for autoinit in (True, False)
                for tools in (False, True) for ws in (None, " ", "skip")]
        n = rng.below(len(rest))
        for l in picks:
            for mode in modes:
                for ic in (False, True):
                    for rg in (False, True):
                        memo, autoinit, tools, ws = rest[n % len(rest)]
                        n += 5
                        o = {"rg": rg, "memo": memo, "autoinit": autoinit, "tools": tools, "skipws": ws != "skip",
                             "ws": ws if ws != "skip" else None}
                        rx = ("rx", "#", r"\w+", "asg", "w")
                        if mode == "sep":
                            g = ("seq", ("ids", l, "+="), rx)
                            words = ["x", None, "y1", "#t1", "."]
                        else:
                            g = ("seq", ("lit", l, mode), ("seq", rx, ("opt", ("id",))))
                            words = [None, "#t1", "x", "."]
                        for variant in ((l,) if not ic else (l, l.swapcase(), l.upper())):
                            toks = [variant if w is None else w for w in words]
                            text = (" " if o["skipws"] else "").join(toks)
                            if not o["skipws"]:
                                # nothing is skipped: only the self-delimiting part of the input can be accepted
                                text = variant + "#t1." if mode != "sep" else "x#t1."
                            out.append({"k": "gram", "g": g, "ic": ic, "opts": o, "text": cps(text), "origin": "config-matrix"})
        return out

    def src_cases(self, rng, tier):
        """grammar string tokens as written, through visit_str_match: every pool literal plainly in either quote,
        with each kind of escape sequence at the first / the last character and throughout, mixed spellings, and
        the hand-written tokens (no-escapes, invalid escapes)"""
        toks = []
        values = KW_POOL + EXTRA_KW + SYM_POOL + ESC_VALUES + ["٣a", "a٣", "_", "__", "a b", "𝐱1", "中文", "A1_", "b-c"]
        for v in values:
            if not any(c in "'\\" for c in v):
                toks.append("'" + v + "'")
            if not any(c in '"\\' for c in v):
                toks.append('"' + v + '"')
            for form in ESC_FORMS:
                for only in (0, -1, None):
                    toks.append(spell_token(rng, v, 1.0, form=form, only=only))
            for _ in range(2):
                toks.append(spell_token(rng, v, 0.5))
        toks = sorted(set(toks))
        if tier == "quick":
            toks = rng.sample(toks, min(len(toks), 300))
        toks = RAW_TOKENS + toks
        out = []
        for ic in (False, True):
            for i in range(0, len(toks), 50):
                out.append({"k": "srcs", "srcs": [cps(t) for t in toks[i: i + 50]], "ic": ic, "origin": "escape-matrix"})
        return out

    def spelling_matrix(self, rng, tier):
        """keyword-like literal x kind of escape sequence x escaped position x way the literal is used x ignore_case,
        on inputs with the keyword glued / not glued to a word character; symbol literals written with escapes; and
        literals with an invalid escape sequence (the grammar is refused with and without autokwd)"""
        out = []
        kws = KW_POOL + EXTRA_KW
        picks = rng.sample(kws, 4 if tier == "quick" else len(kws))
        n = rng.below(7)
        modes = ["asg", "mul", "sep", "rule", "not", "plain", "add"]
        for l in picks:
            for form in ["x", "o", "u", "U", "N", "mixed", "dq"]:
                for only in ((0, -1, None) if form in ESC_FORMS else (None,)):
                    if form == "dq":
                        tok = '"' + l + '"'
                    elif form == "mixed":
                        tok = spell_token(rng, l, 0.6)
                    else:
                        tok = spell_token(rng, l, 1.0, form=form, only=only)
                    mode = modes[n % len(modes)]
                    ic = n % 2 == 1
                    n += 1
                    w = rng.choice(["x", "1", "_", "é"])
                    if mode == "sep":
                        g = ("seq", ("ids", l, "+=", tok), ("opt", ("id",)))
                        texts = [f"x {l} y {l}{w} .", f"x {l} y {l} .", f"x{l} y."]
                    elif mode == "mul":
                        g = ("seq", ("lit", l, "mul", tok), ("id",))
                        texts = [f"{l} {l}{w} .", f"{l} {l} z .", f"{l}{l} z."]
                    elif mode == "not":
                        g = ("seq", ("not", ("lit", l, "plain", tok)), ("id",))
                        texts = [f"{l}{w} .", f"{l} .", "zz ."]
                    else:
                        g = ("seq", ("lit", l, mode, tok), ("opt", ("id",)))
                        texts = [f"{l}{w} .", f"{l} {w} .", f"{l}."]
                    for t in texts:
                        if ic and rng.chance(0.5):
                            t = t.swapcase() if len(t.swapcase()) == len(t) else t
                        out.append({"k": "gram", "g": g, "ic": ic, "text": cps(t), "origin": "spelling-matrix"})
        for v in ["+=", "a.b", "a\tb", "it's", "1a", "a\\b", "->"]:
            for form in ["x", "o", "u", "U", "N"]:
                tok = spell_token(rng, v, 1.0, form=form, only=rng.below(len(v)))
                g = ("seq", ("lit", v, "asg", tok), ("opt", ("id",)))
                for t in (v + "x .", v + " ."):
                    out.append({"k": "gram", "g": g, "ic": n % 2 == 1, "text": cps(t), "origin": "spelling-matrix"})
                n += 1
        for tok in [r"'\xZZ'", r"'be\u12zzgin'", r"'\N{NO SUCH NAME}'", r"'if\U00110000'"]:
            g = ("seq", ("lit", "if", "asg", tok), ("opt", ("id",)))
            out.append({"k": "gram", "g": g, "ic": False, "text": cps("if x ."), "bad": True, "origin": "spelling-matrix"})
        return out

    def gen(self, rng, n, tier):
        out = []
        # --- every literal of length <= 3 over the small alphabet, 43 per case
        allits = []

        def rec(prefix, depth):
            if prefix:
                allits.append(prefix)
            if depth < 3:
                for a in SMALL:
                    rec(prefix + a, depth + 1)

        rec("", 0)
        extra = KW_POOL + SYM_POOL + ["٣a", "a٣", "_", "__", "a b", "é́", "𝐱1", "中文", "A1_", "b-c", ""]
        for ic in (False, True):
            for i in range(0, len(allits), 43):
                out.append({"k": "lits", "lits": [cps(l) for l in allits[i: i + 43]], "ic": ic, "origin": "exhaustive"})
            out.append({"k": "lits", "lits": [cps(l) for l in extra], "ic": ic})
        # --- each keyword-like literal of the small alphabet glued / not glued
        r = rng.fork("glue")
        kws = [l for l in allits if kwlike_spec(l)]
        picks = kws if tier != "quick" else r.sample(kws, 20)
        styles = [None, "dq", "x", "o", "u", "U", "N", "mixed"]
        ns = r.below(len(styles))
        for l in picks:
            for follow in ["", " ", "a", "1", "_", "é", "+", ".", " a"]:
                st = styles[ns % len(styles)]
                ns += 3
                tok = (None if st is None else '"' + l + '"' if st == "dq" else spell_token(r, l, 0.5) if st == "mixed"
                       else spell_token(r, l, 1.0, form=st, only=r.below(len(l))))
                g = ("seq", ("lit", l, "asg", tok), ("opt", ("id",)))
                out.append({"k": "gram", "g": g, "ic": False, "text": cps(l + follow + " ."), "origin": "glue-matrix"})
        # --- literals as written: tokens through visit_str_match, keywords written with escapes in grammars
        out.extend(self.src_cases(rng.fork("srcs"), tier))
        out.extend(self.spelling_matrix(rng.fork("spelling"), tier))
        # --- the other metamodel options, systematically
        out.extend(self.config_matrix(rng.fork("config"), tier))
        # --- random grammars
        r = rng.fork("gram")
        for _ in range(n):
            out.append(self.gram_case(r, tier))
        r = rng.fork("exotic")
        for _ in range(max(3, n // 100)):
            out.append(self.gram_case(r, tier, exotic=True))
        return out

    # ------------------------------------------------------------------ implementation
    def impl(self, case):
        use_repo()
        if case["k"] == "lits":
            from harness import translate_re as T

            res = []
            for lc in case["lits"]:
                lit = uncps(lc)
                row = {}
                for ak in (True, False):
                    try:
                        got = T.live_str_match(lit, case["ic"], ak)
                    except Exception as e:
                        row["on" if ak else "off"] = {"exc": type(e).__name__, "msg": str(e)[:100]}
                        continue
                    if got[0] == "re":
                        try:
                            ast = T.to_json(T.translate(got[1], got[2]))
                        except T.Untranslatable as e:
                            ast = {"untranslatable": str(e), "pattern": got[1]}
                        try:
                            groups = re.compile(got[1], got[2]).groups
                        except re.error as e:
                            groups = str(e)
                        row["on" if ak else "off"] = {"kind": "re", "re": ast, "value": cps(got[3]), "groups": groups}
                    else:
                        row["on" if ak else "off"] = {"kind": "str", "lit": cps(got[1]), "icase": got[2]}
                res.append(row)
            return {"rows": res}
        if case["k"] == "srcs":
            return {"rows": [{"on": live_visit(uncps(t), case["ic"], True), "off": live_visit(uncps(t), case["ic"], False)}
                             for t in case["srcs"]]}
        gtext, kinds = render(case["g"])
        text = uncps(case["text"])
        o = opts_of(case)
        return {"on": run_cfg(gtext, text, True, case["ic"], o), "off": run_cfg(gtext, text, False, case["ic"], o),
                "grammar": gtext, "kinds": kinds}

    # ------------------------------------------------------------------ model
    def chars_of(self, case, obs=None):
        if case["k"] == "lits":
            return "".join(uncps(l) for l in case["lits"])
        if case["k"] == "srcs":
            out = "".join(uncps(t) for t in case["srcs"]) + "".join(spec_value(uncps(t)) or "" for t in case["srcs"])
            for row in (obs or {}).get("rows", []):
                for cfg in ("on", "off"):
                    out += uncps(row[cfg].get("value") or row[cfg].get("lit") or [])
            return "".join(c for c in out if not 0xD800 <= ord(c) < 0xE000)
        return uncps(case["text"]) + "".join(lits_of(case["g"])) + "".join(spec_value(t) or "" for t in toks_of(case["g"]))

    def model_req(self, case, obs):
        cc = cc_of(self.chars_of(case))
        if case["k"] == "lits":
            # two requests in one: the runner allows one request per case, so ask for autokwd=on only and
            # compare the off side with the constant answer (a string match) in `compare`
            return {"op": "compile", "cc": cc, "lits": case["lits"], "autokwd": True, "icase": case["ic"]}
        if case["k"] == "srcs":
            toks = [uncps(t) for t in case["srcs"]]
            return {"op": "compilesrc", "cc": cc_of(self.chars_of(case, obs)), "names": names_of(toks), "srcs": case["srcs"],
                    "icase": case["ic"]}
        o = opts_of(case)
        return {"op": "parse", "cc": cc, "names": names_of(toks_of(case["g"])), "g": full_pe(case["g"], case["ic"]), "icase": case["ic"], "ws": cps(eff_ws(o)),
                "ug": o["rg"], "text": case["text"]}

    def compare(self, case, obs, out):
        if "err" in out:
            return f"model rejected the request: {out}"
        if case["k"] == "lits":
            for lc, row, mt in zip(case["lits"], obs["rows"], out["toks"]):
                lit = uncps(lc)
                on, off = row.get("on"), row.get("off")
                if off != {"kind": "str", "lit": lc, "icase": case["ic"]}:
                    return f"literal {lit!r} without autokwd compiles to {off}, model: a string match"
                if on != mt:
                    return f"literal {lit!r} with autokwd compiles to {on}, model {mt}"
            return None
        if case["k"] == "srcs":
            for tc, row, mt in zip(case["srcs"], obs["rows"], out["rows"]):
                tok = uncps(tc)
                if mt.get("err") == "surrogate":
                    continue        # Lean's Char has no surrogates: outside the model
                if "err" in mt:
                    want = {"on": {"err": "TextXSyntaxError"}, "off": {"err": "TextXSyntaxError"}}
                else:
                    want = {"on": mt["on"], "off": mt["off"]}
                for cfg in ("on", "off"):
                    if row[cfg] != want[cfg]:
                        return (f"token {tok} with autokwd {cfg} (ignore_case={case['ic']}) compiles to {row[cfg]}, "
                                f"model {want[cfg]}")
            return None
        if "gerr" in out:
            for cfg in ("on", "off"):
                if obs[cfg].get("gerr") != "TextXSyntaxError":
                    return (f"autokwd {cfg}: grammar {obs['grammar']!r} has a literal with an invalid escape sequence "
                            f"(model: {out['gerr']}), implementation {obs[cfg]}")
            return None
        for cfg in ("on", "off"):
            o, mo = obs[cfg], out[cfg]
            if "gerr" in o:
                return f"autokwd {cfg}: grammar {obs['grammar']!r} refused by the implementation ({o}), not by the model"
            if "ok" not in o:
                return f"autokwd {cfg}: implementation {o}"
            if o["ok"] != mo["ok"]:
                return (f"autokwd {cfg}: grammar {obs['grammar']!r} on {uncps(case['text'])!r}: implementation "
                        f"{'accepts' if o['ok'] else 'rejects'}, model {'accepts' if mo['ok'] else 'rejects'}")
            if o["ok"]:
                got = [[t[0], t[1]] for t in o["toks"]]
                want = [[t[0], t[1]] for t in mo["toks"]]
                if got != want:
                    return (f"autokwd {cfg}: terminals differ on {uncps(case['text'])!r} ({obs['grammar']!r}): implementation "
                            f"{[(p, uncps(v)) for p, v in got]}, model {[(p, uncps(v)) for p, v in want]}")
                bad = self.compare_attrs(o, mo, obs["kinds"])
                if bad:
                    return (f"autokwd {cfg}, options {opts_of(case)}: {bad} on {uncps(case['text'])!r} ({obs['grammar']!r}, "
                            f"ignore_case={case['ic']})")
        return None

    @staticmethod
    def compare_attrs(o, mo, kinds):
        """the attribute values of the model against the values the modelled terminals hand to the object graph:
        per attribute, the terminals assigned to it in parse-tree order (`to which attribute` is read off the
        implementation's parse tree; the values are the model's)"""
        exp = {}
        for t, mt in zip(o["toks"], mo["toks"]):
            if len(t) > 3 and t[3] is not None:
                exp.setdefault(t[3], []).append(uncps(mt[2]))
        root = o["dump"].get("root", {})
        for name, v in root.get("attrs", []):
            vals = exp.get(name, [])
            kind = kinds.get(name)
            if kind is None:
                return f"attribute {name!r} is not of the grammar"
            if kind == "bool":
                if v != {"p": "bool", "v": bool(vals)}:
                    return f"attribute {name} is {v}, model {bool(vals)}"
                continue
            if kind == "int":
                try:
                    want = [{"p": "int", "v": int(x)} for x in vals]
                except ValueError:
                    return f"attribute {name}: model values {vals} are no integers"
            else:
                want = [{"p": "str", "v": x} for x in vals]
            if isinstance(v, list):
                if v != want:
                    return f"attribute {name} is {v}, model {want}"
            elif want:
                if v != want[-1]:
                    return f"attribute {name} is {v}, model {want[-1]}"
            # no terminal assigned: the default value (auto_init_attributes) is not C21's business
        for name in exp:
            if name not in {a for a, _ in root.get("attrs", [])}:
                return f"terminals assigned to {name!r} but the model has no such attribute"
        return None

    # ------------------------------------------------------------------ direct oracle
    @staticmethod
    def glued(text, lits, ic):
        """is some keyword-like literal immediately followed by a word character somewhere in the text?"""
        for l in set(lits):
            if not l or not kwlike_spec(l):
                continue
            hay, needle = (text.lower(), l.lower()) if ic else (text, l)
            if len(hay) != len(text):
                hay, needle = text, l
            i = hay.find(needle)
            while i >= 0:
                j = i + len(l)
                if j < len(text) and is_word(text[j]):
                    return True
                i = hay.find(needle, i + 1)
        return False

    def oracle(self, case, obs):
        if case["k"] == "lits":
            for lc, row in zip(case["lits"], obs["rows"]):
                lit = uncps(lc)
                if all(ord(c) < 128 or c == "é" for c in lit):
                    want = kwlike_spec(lit)
                    on = row.get("on", {})
                    if "exc" in on:
                        return f"visit_str_match fails on literal {lit!r}: {on}"
                    if (on.get("kind") == "re") != want:
                        return (f"literal {lit!r} {'looks' if want else 'does not look'} like an identifier but autokwd "
                                f"compiles it to a {'regex' if on.get('kind') == 're' else 'string'} match")
                off = row.get("off", {})
                if off.get("kind") != "str":
                    return f"without autokwd the literal {lit!r} does not compile to a plain string match: {off}"
            return None
        if case["k"] == "srcs":
            for tc, row in zip(case["srcs"], obs["rows"]):
                tok = uncps(tc)
                on, off = row["on"], row["off"]
                if "exc" in on or "exc" in off:
                    return f"visit_str_match fails on the token {tok}: on {on}, off {off}"
                if ("err" in on) != ("err" in off):
                    return f"token {tok}: refused {'with' if 'err' in on else 'without'} autokwd only (on {on}, off {off})"
                lit = spec_value(tok)
                if lit is None or "err" in on:
                    continue        # Python reads the token differently / not at all: no independent notion
                if off != {"kind": "str", "lit": cps(lit), "icase": case["ic"]}:
                    return f"without autokwd the token {tok} (= {lit!r}) does not compile to a string match of its value: {off}"
                if all(ord(c) < 128 or c in "éï" for c in lit):
                    want = kwlike_spec(lit)
                    if (on.get("kind") == "re") != want:
                        return (f"the literal written {tok} is {lit!r} and {'looks' if want else 'does not look'} like an "
                                f"identifier but autokwd compiles it to a {'regex' if on.get('kind') == 're' else 'string'} match")
                    if uncps(on.get("value") or on.get("lit") or []) != lit:
                        return f"the literal written {tok} is {lit!r} but autokwd compiles a match for {on}"
            return None
        on, off = obs["on"], obs["off"]
        if case.get("bad"):
            for cfg, o in (("on", on), ("off", off)):
                if o.get("gerr") != "TextXSyntaxError":
                    return (f"grammar {obs['grammar']!r} has a literal with an invalid escape sequence but autokwd {cfg} "
                            f"gives {o}")
            return None
        for g1 in self.lit_nodes(case["g"]):
            sv = spec_value(tok_of(g1))
            if sv is not None and sv != g1[1]:
                return f"malformed case: the token {tok_of(g1)} denotes {sv!r}, recorded value {g1[1]!r}"
        for cfg, o in (("on", on), ("off", off)):
            if "gerr" in o:
                return f"grammar {obs['grammar']!r} not loadable with autokwd {cfg}: {o}"
            if not o.get("ok") and "pos" not in o:
                return f"autokwd {cfg}: failure other than a syntax error: {o}"
        text = uncps(case["text"])
        lits = lits_of(case["g"])
        kws = [l for l in lits if kwlike_spec(l)]
        # (1) a keyword-like literal never matches when the next input character is a word character
        if on["ok"]:
            for pos, val, rule in (t[:3] for t in on["toks"]):
                if rule in kws:
                    end = pos + len(val)
                    if end < len(text) and is_word(text[end]):
                        return (f"with autokwd the keyword-like literal {rule!r} matched at {pos} of {text!r} although the "
                                f"next character {text[end]!r} is a word character (grammar {obs['grammar']!r})")
        # (2) literals that do not look like identifiers behave exactly as without autokwd
        if not kws:
            a = {k: v for k, v in on.items()}
            b = {k: v for k, v in off.items()}
            if a != b:
                return (f"no literal of {obs['grammar']!r} looks like an identifier, yet autokwd changes the outcome on "
                        f"{text!r}: on {a}, off {b}")
        # (3) accepted with autokwd and no glued keyword -> same model without autokwd
        if on["ok"] and not self.glued(text, lits, case["ic"]):
            if not off["ok"]:
                return (f"{text!r} is accepted with autokwd and has no glued keyword, but is rejected without autokwd "
                        f"(grammar {obs['grammar']!r}, ignore_case={case['ic']})")
            if on["dump"] != off["dump"]:
                return (f"{text!r} has no glued keyword but the models differ with / without autokwd "
                        f"(grammar {obs['grammar']!r}, ignore_case={case['ic']}): on {on['dump']}, off {off['dump']}")
        return None

    @staticmethod
    def lit_nodes(g):
        k = g[0]
        if k == "lit" or (k == "ids" and g[1] is not None):
            return [g]
        if k in ("seq", "choice", "sepplus", "sepstar"):
            return Prop.lit_nodes(g[1]) + Prop.lit_nodes(g[2])
        if k in ("star", "opt", "not", "plus", "and"):
            return Prop.lit_nodes(g[1])
        return []

    def nontrivial(self, case, obs):
        if case["k"] in ("lits", "srcs"):
            return True
        if case.get("bad"):
            return True
        lits = lits_of(case["g"])
        kws = [l for l in lits if kwlike_spec(l)]
        if not kws:
            return False
        return bool(obs["on"].get("ok")) or self.glued(uncps(case["text"]), lits, case["ic"])

    # ------------------------------------------------------------------ known finding: IGNORECASE vs lower()
    def classify(self, case, obs, failure):
        if case["k"] != "gram" or not case["ic"]:
            return None
        if not fold_divergent(self.chars_of(case)):
            return None
        # neutralise exactly the divergence: let StrMatch compare the way re.IGNORECASE does, re-run, re-judge
        use_repo()
        import arpeggio

        orig = arpeggio.StrMatch._parse

        def patched(self_, parser):
            if self_.ignore_case:
                c_pos = parser.position
                frag = parser.input[c_pos: c_pos + len(self_.to_match)]
                if len(frag) == len(self_.to_match) and all(sre_eq(a, b) for a, b in zip(self_.to_match, frag)):
                    parser.position += len(self_.to_match)
                    return arpeggio.Terminal(self_, c_pos, self_.to_match,
                                             suppress=type(parser.last_pexpression) is arpeggio.Sequence)
                parser._nm_raise(self_, c_pos, parser)
            return orig(self_, parser)

        arpeggio.StrMatch._parse = patched
        try:
            _mm_cache.clear()
            obs2 = self.impl(case)
        finally:
            arpeggio.StrMatch._parse = orig
            _mm_cache.clear()
        if self.oracle(case, obs2) is None:
            return KF_FOLD
        return None

    # ------------------------------------------------------------------ shrinking / search
    def shrink(self, case):
        if case["k"] == "srcs":
            if len(case["srcs"]) > 1:
                for i in range(len(case["srcs"])):
                    yield dict(case, srcs=[case["srcs"][i]])
            return
        if case["k"] != "gram":
            if len(case["lits"]) > 1:
                for i in range(len(case["lits"])):
                    yield dict(case, lits=[case["lits"][i]])
            return
        g = case["g"]

        def subs(t):
            k = t[0]
            if k in ("seq", "choice"):
                yield t[1]
                yield t[2]
                for a in subs(t[1]):
                    yield (k, a, t[2])
                for b in subs(t[2]):
                    yield (k, t[1], b)
            elif k in ("star", "opt", "not", "plus", "and"):
                yield t[1]
                for a in subs(t[1]):
                    yield (k, a)
            elif k in ("sepplus", "sepstar"):
                yield t[1]
                for a in subs(t[1]):
                    yield (k, a, t[2])
            elif k == "ids":
                yield ("id",)
                if t[1] is not None:
                    yield ("ids", None, t[2])
            elif k == "lit" and len(t) > 2 and t[2] != "asg":
                yield ("lit", t[1], "asg") + tuple(t[3:4])

        for g2 in subs(g):
            yield dict(case, g=g2)
        o = opts_of(case)
        for name, dv in OPT_DEFAULTS.items():
            if o[name] != dv:
                yield dict(case, opts=dict(o, **{name: dv}))
        t = uncps(case["text"])
        for i in range(len(t)):
            yield dict(case, text=cps(t[:i] + t[i + 1:]))
        if case["ic"]:
            yield dict(case, ic=False)

    def extra_search(self, rng, tier, broken):
        r = rng.fork("extra")
        return [self.gram_case(r, tier) for _ in range(3000)]

    def sample_view(self, case, obs):
        c = dict(case)
        if "text" in c:
            c["text_str"] = uncps(c["text"])
        if "lits" in c:
            c["lits_str"] = [uncps(l) for l in c["lits"]]
        if "srcs" in c:
            c["srcs_str"] = [uncps(l) for l in c["srcs"]]
        return {"case": c, "impl": obs}

    def extra_evidence(self, cases, obs, outs):
        acc_on = acc_off = glued = with_kw = ic = 0
        ngram = 0
        optc = {"use_regexp_group": 0, "memoization": 0, "auto_init_attributes_off": 0, "textx_tools_support": 0,
                "skipws_off": 0, "custom_ws": 0, "regex_with_group": 0, "ic_and_regexp_group_accepted": 0,
                "literal_written_with_escape": 0, "keyword_written_with_escape_and_glued": 0, "double_quoted_literal": 0,
                "invalid_escape": 0}
        for c, o in zip(cases, obs):
            if c["k"] != "gram" or "on" not in o:
                continue
            ngram += 1
            lits = lits_of(c["g"])
            if any(kwlike_spec(l) for l in lits):
                with_kw += 1
            if o["on"].get("ok"):
                acc_on += 1
            if o["off"].get("ok"):
                acc_off += 1
            if self.glued(uncps(c["text"]), lits, c["ic"]):
                glued += 1
            if c["ic"]:
                ic += 1
            oo = opts_of(c)
            optc["use_regexp_group"] += oo["rg"]
            optc["memoization"] += oo["memo"]
            optc["auto_init_attributes_off"] += not oo["autoinit"]
            optc["textx_tools_support"] += oo["tools"]
            optc["skipws_off"] += not oo["skipws"]
            optc["custom_ws"] += oo["ws"] is not None
            optc["regex_with_group"] += "'rx'" in repr(c["g"]) or '"rx"' in repr(c["g"])
            optc["ic_and_regexp_group_accepted"] += bool(c["ic"] and oo["rg"] and o["on"].get("ok"))
            nodes = self.lit_nodes(c["g"])
            optc["literal_written_with_escape"] += any("\\" in tok_of(g1) for g1 in nodes)
            optc["double_quoted_literal"] += any(tok_of(g1).startswith('"') for g1 in nodes)
            optc["invalid_escape"] += bool(c.get("bad"))
            optc["keyword_written_with_escape_and_glued"] += any(
                "\\" in tok_of(g1) and kwlike_spec(g1[1]) and self.glued(uncps(c["text"]), [g1[1]], c["ic"]) for g1 in nodes)
        nl = sum(len(c["lits"]) for c in cases if c["k"] == "lits")
        ns = sum(len(c["srcs"]) for c in cases if c["k"] == "srcs")
        return {"distribution": {"gram_cases": ngram, "with_keyword_like_literal": with_kw, "accepted_autokwd_on": acc_on,
                                 "accepted_autokwd_off": acc_off, "glued_keyword_in_text": glued, "ignore_case": ic,
                                 "literals_compiled": nl, "tokens_as_written_compiled": ns, "options": optc},
                "exhaustive": {"literals_len_le_3_over_6_chars_x_2_configs": sum(len(c["lits"]) for c in cases if c.get("origin") == "exhaustive")}}
