"""C20 — ignore_case makes grammar literals case-insensitive.

Implementation side (real textX from the tree under test): every generated
grammar is compiled with ignore_case=True (plus autokwd / whitespace / memo
options); every generated text is parsed and loaded; for accepted texts the
characters matched by string / regex *literals of the grammar* (terminals of the
real parse tree whose rule is a StrMatch or a non-base-type RegExMatch) are
case-varied (all upper, all lower, swapped, random flips, single flip) and every
variant is parsed and loaded again.

Direct oracle (from the property statement, no model): a variant of an accepted
text must be accepted, its model must have the same structure (classes,
attribute names, list lengths, reference targets, primitive type tags and
non-string values; strings equal up to letter case); values of attributes that
are only ever assigned from ID or a regex literal must occur verbatim in the
text they were read from, ID-only attributes must be identical in both; values
of attributes only ever assigned from string literals must be the grammar's
spelling and identical in both; every such value must be the value of a
terminal of the text's own real parse tree.

Model side (Lean, Drivers/Case.lean): the Arpeggio mirror runs on the *dumped
real parser model*; string-token rows are computed by the Lean `StrMatch` model,
regex rows are measured on the real `re` objects (the stated assumption).  The
mirror's outcome and terminal values are compared with the real parser for the
text and every variant; the Lean string rows are compared with the real
`StrMatch._parse` at every position; the Lean `compileLit` is compared with the
Match objects the real visitor built; and whenever the hypotheses of
`C20_partial` hold for a pair (decided by the driver) the real outcomes of the
pair must coincide, as the theorem predicts.

Histories and configurations: every case is observed in a *fresh process* (fork), so
that the only meta-models constructed before the one under test are those the case
lists itself ("history": built and used earlier, "later": built after it and before
its texts are parsed) - the same grammar or a grammar sharing its literals, with
ignore_case / autokwd flipped.  Grammars may be split over files (import).  String
literals cover both quote styles, escape sequences and non keyword-like spellings.

Known finding: base type BOOL is compiled once, case-sensitively.
"""
import copy as _copy
import os as _os
import re as _re

from harness.core import Check, Rng, use_repo
from harness import gen_grammar as G
from harness import peg
from harness.txutil import dump_model, outcome

KF_BOOL = "C20-bool-case-sensitive"

# regex literals with letters (source, samples matched completely, in any letter case)
RES20 = [
    (r"[a-c]+", ["a", "abc", "cab", "bb"]),
    (r"\d+", ["0", "7", "42"]),
    (r"[xy]", ["x", "y"]),
    (r"x*y", ["y", "xy", "xxy"]),
    (r"[A-Z][a-z]*", ["A", "Bc", "Zed"]),
    (r"\w+\b", ["w1", "foo", "a_b"]),
    (r"(m|n)(o)?", ["m", "no", "mo"]),
    (r"kw[0-9]?", ["kw", "kw1"]),
    (r"(?:foo|Bar)x?", ["foo", "Bar", "foox"]),
    (r"[A-F0-9]+h", ["FFh", "0Ah", "1h"]),
    (r"v\d+(\.\d+)?", ["v1", "v2.0"]),
    (r"q?", ["q", ""]),
    (r"[^\s\d,;()]+", ["Zz", "p.q", "ab"]),
    (r"é+t", ["ét", "éét"]),
]
RES20 += [
    (r"[a-c]\/[x-z]", ["a/x", "b/z"]),          # escaped slash inside a regex literal
    (r"\\[a-z]+", ["\\begin", "\\it"]),        # backslash + letters
    (r"end\.|fin", ["end.", "fin"]),
    (r"(?:übel|ça)!?", ["übel", "ça", "ça!"]),
]
RES20_D = dict(RES20)
KEYWORDS20 = ["If", "END", "begin", "Kw", "Not", "x", "ab", "a", "B", "true", "False", "Für", "été", "no"]
LETTERS = "abcdefghijklmnopqrstuvwxyz"
NONASCII = "éäüç"
SYMBOLS = ["+", ",", ";", "(", ")", "=", "->", "::"]
CFGS = [{}, {}, {}, {"skipws": False}, {"ws": " "}, {"ws": " \t\n"}]
BASE_NAMES = ("ID", "BOOL", "INT", "FLOAT", "STRICTFLOAT", "STRING")


def has_case(c):
    lo, up = c.lower(), c.upper()
    return lo != up and len(lo) == 1 and len(up) == 1 and lo.upper() == up and up.lower() == lo and c in (lo, up)


def flip(c):
    return c.lower() if c == c.upper() else c.upper()


def restyle(s, rng):
    st = rng.choice(["keep", "keep", "upper", "lower", "cap", "rand"])
    if st == "upper":
        return "".join(c.upper() if has_case(c) else c for c in s)
    if st == "lower":
        return "".join(c.lower() if has_case(c) else c for c in s)
    if st == "cap":
        return "".join((c.upper() if i == 0 else c.lower()) if has_case(c) else c for i, c in enumerate(s))
    if st == "rand":
        return "".join(flip(c) if has_case(c) and rng.chance(0.5) else c for c in s)
    return s


def rand_word(rng, lo=1, hi=6):
    """a keyword-like word over a large vocabulary (letters, inner digits / underscores, some non-ASCII letters)"""
    n = rng.randint(lo, hi)
    cs = [rng.choice(LETTERS) for _ in range(n)]
    if n > 1 and rng.chance(0.2):
        cs[rng.randint(1, n - 1)] = rng.choice("0123456789_")
    if rng.chance(0.1):
        cs[rng.below(n)] = rng.choice(NONASCII)
    if rng.chance(0.05):
        cs.insert(0, "_")
    return "".join(cs)


def keyword(rng):
    return restyle(rng.choice(KEYWORDS20) if rng.chance(0.45) else rand_word(rng), rng)


def odd_literal(rng):
    """a string literal with letters that is *not* keyword-like: needs an escape sequence and / or contains
    punctuation, quotes, blanks, a leading digit (never a leading / trailing blank, never a trailing backslash)"""
    w, v = rand_word(rng, 1, 5), rand_word(rng, 1, 3)
    form = rng.choice(["\\{w}", "{w}'s", '"{w}"', "{w}.", "#{w}", "{w}-{v}", "7{w}", "{w} {v}", "{w}\t{v}", "@{w}",
                       "{w}::", "<{w}>", "{w}/{v}", "{w}\\{v}", "'{w}'", "\\{w}{{", "{w}\n{v}", "{w}\"{v}'"])
    return restyle(form.replace("{w}", w).replace("{v}", v).replace("{{", "{"), rng)


def literal(rng, p_kw=0.65):
    return keyword(rng) if rng.chance(p_kw) else odd_literal(rng)


def q20(s, rng):
    """one of the many ways to write the string literal `s` in a textX grammar: either quote, the mandatory
    escapes, optional escapes of the other quote, and numeric escapes (\\xNN, \\uNNNN, \\UNNNNNNNN, octal) of any
    character"""
    quote = rng.choice(["'", "'", '"'])
    esc = rng.weighted([("min", 6), ("some", 3), ("all", 1)])
    out = []
    for c in s:
        if c == "\\":
            out.append("\\\\")
        elif c == quote:
            out.append("\\" + c)
        elif c == "\n":
            out.append("\\n")
        elif c == "\t":
            out.append("\\t")
        elif c in "'\"" and rng.chance(0.3):
            out.append("\\" + c)
        elif esc != "min" and (esc == "all" or rng.chance(0.35)):
            n = ord(c)
            form = rng.choice(["x", "u", "U", "o"] if n < 256 else ["u", "U"])
            out.append({"x": "\\x%02x", "u": "\\u%04x", "U": "\\U%08x", "o": "\\%03o"}[form] % n)
        else:
            out.append(c)
    return quote + "".join(out) + quote


def render_grammar20(g, rng):
    """G.render_grammar with every string literal written by q20 (quote style, escape sequences)"""
    g2 = _copy.deepcopy(g)
    table = []

    def f(e):
        if e["k"] == "str":
            table.append(e["v"])
            e["v"] = f"\u00a7{len(table) - 1}\u00a7"
    for r in g2["rules"]:
        walk_ast(r["body"], f)
    text = G.render_grammar(g2)
    for i, v in enumerate(table):
        text = text.replace(G.q(f"\u00a7{i}\u00a7"), q20(v, rng.fork(i)), 1)
    return text


def walk_ast(e, f):
    """apply f to every expression node (pre-order)"""
    f(e)
    for x in e.get("xs", []):
        walk_ast(x, f)
    for k in ("x", "rhs", "sep"):
        if isinstance(e.get(k), dict):
            walk_ast(e[k], f)


def relit(g, rng):
    """give the generated grammar mixed-case keywords and regexes with letters"""
    def f(e):
        if e["k"] == "str":
            if e["v"] in SYMBOLS or e["v"] in (",", ";", "::"):
                if rng.chance(0.12):  # word / mixed separators and punctuation
                    e["v"] = literal(rng, 0.5)
                return
            e["v"] = literal(rng) if rng.chance(0.7) else e["v"]
        elif e["k"] == "re":
            e["v"] = rng.choice(RES20)[0]
    for r in g["rules"]:
        walk_ast(r["body"], f)
    return g


def grammar_lits(g):
    out = []

    def f(e):
        if e["k"] in ("str", "re"):
            out.append({"k": e["k"], "v": e["v"]})
    for r in g["rules"]:
        walk_ast(r["body"], f)
    if g.get("comment"):
        out.append({"k": "re", "v": g["comment"]})
    return out


def value_rules(g):
    """{match rule: (kinds, spellings)} for match rules whose value is always the value of ONE terminal: the body is a
    regex literal / ID ("text": the input as written), a string literal ("lit": the grammar's spelling, whatever the
    case of the input and whether it is matched by a StrMatch or, under autokwd, by a KeywordMatch), a reference to
    such a rule, or an ordered choice of those"""
    bodies = {r["name"]: r["body"] for r in g["rules"]}
    memo = {}

    def atom(e, stack):
        if e.get("sup"):
            return None
        if e["k"] == "re":
            return {"text"}, []
        if e["k"] == "str":
            return {"lit"}, [e["v"]]
        if e["k"] == "ref":
            return ({"text"}, []) if e["name"] == "ID" else rule(e["name"], stack)
        if e["k"] == "alt":
            ks, sp = set(), []
            for x in e["xs"]:
                r = atom(x, stack)
                if r is None:
                    return None
                ks |= r[0]
                sp += r[1]
            return ks, sp
        return None

    def rule(n, stack):
        if n not in bodies or n in stack:
            return None
        if n not in memo:
            memo[n] = atom(bodies[n], stack | {n})
        return memo[n]

    return {n: rule(n, frozenset()) for n in bodies if rule(n, frozenset()) is not None}


def textual_attrs(g):
    """{rule: {attr: kind}} for attributes only ever assigned (=, +=, *=) from sources whose value is the value of one
    terminal: "id" (only ID), "text" (ID / a regex literal / a text-valued match rule: the input as written),
    {"lit": [spellings]} (only string literals, directly or through a match rule that is a choice of string literals:
    the grammar's spelling), {"mixed": [spellings]} (both kinds)"""
    res = {}
    vrules = value_rules(g)
    for r in g["rules"]:
        kinds, spell = {}, {}

        def f(e):
            if e["k"] == "asgn":
                rhs = e["rhs"]
                ks, sp = {"other"}, []
                if e["op"] == "?=" or rhs.get("sup"):
                    pass
                elif rhs["k"] == "ref" and rhs["name"] == "ID":
                    ks = {"id"}
                elif rhs["k"] == "re":
                    ks = {"text"}
                elif rhs["k"] == "str":
                    ks, sp = {"lit"}, [rhs["v"]]
                elif rhs["k"] == "ref" and rhs["name"] in vrules:
                    ks, sp = vrules[rhs["name"]]
                kinds.setdefault(e["attr"], set()).update(ks)
                spell.setdefault(e["attr"], []).extend(sp)
        walk_ast(r["body"], f)
        m = {}
        for a, ks in kinds.items():
            if ks == {"id"}:
                m[a] = "id"
            elif ks <= {"id", "text"}:
                m[a] = "text"
            elif ks == {"lit"}:
                m[a] = {"lit": sorted(set(spell[a]))}
            elif ks <= {"id", "text", "lit"}:
                m[a] = {"mixed": sorted(set(spell[a]))}
        if m:
            res[r["name"]] = m
    return res


class Deriver20(G.Deriver):
    def d(self, e, depth):
        if e["k"] == "re" and e["v"] in RES20_D:
            self.fuel -= 1
            return [restyle(self.rng.choice(RES20_D[e["v"]]), self.rng)]
        if e["k"] == "str":
            self.fuel -= 1
            return [restyle(e["v"], self.rng)]
        return super().d(e, depth)


MAX_TEXT = 140
CASE_BUDGET = 25  # seconds of wall clock per case before the remaining texts / variants are dropped


def sentences20(g, rng, n_derived, n_mutated):
    d = Deriver20(g, rng)

    def short():
        toks = d.tokens(fuel=25)
        for _ in range(3):
            if sum(len(t) + 1 for t in toks) <= MAX_TEXT:
                break
            toks = d.tokens(fuel=12)
        while sum(len(t) + 1 for t in toks) > MAX_TEXT:
            toks = toks[: len(toks) // 2]
        return toks

    out = []
    for _ in range(n_derived):
        out.append(G.layout(short(), rng, g.get("comment"))[: 2 * MAX_TEXT])
    for _ in range(n_mutated):
        out.append(G.layout(G.mutate(short(), rng), rng, g.get("comment"))[: 2 * MAX_TEXT])
    return out


def link_grammar(rng):
    """definitions and references through ID (reference targets must survive the variation)"""
    kw = [literal(rng, 0.75) for _ in range(4)]
    rx = rng.choice([r"[a-c]+", r"kw[0-9]?", r"[A-F0-9]+h", r"v\d+(\.\d+)?"])
    qs = [q20(k, rng.fork(("q", i))) for i, k in enumerate(kw)]
    gtext = (f"Model: {qs[0]} defs+=Def[','] {qs[1]} uses+=Use;\n"
             f"Def: {qs[2]} name=ID (tag=/{rx}/)?;\nUse: {qs[3]} ref=[Def] | {q20(kw[3], rng.fork('q4'))} '(' ref=[Def] ')';\n")
    names = rng.sample(["foo", "Bar", "x1", "Y", "zed"], rng.randint(1, 3))
    toks = [restyle(kw[0], rng)]
    for i, n in enumerate(names):
        if i:
            toks.append(",")
        toks += [restyle(kw[2], rng), n]
        if rng.chance(0.5):
            toks.append(restyle(rng.choice(RES20_D[rx]), rng))
    toks.append(restyle(kw[1], rng))
    for _ in range(rng.randint(1, 3)):
        n = rng.choice(names)
        toks += [restyle(kw[3], rng)] + (["(", n, ")"] if rng.chance(0.3) else [n])
    texts = [" ".join(toks)]
    i0 = toks.index(names[0])  # a wrong-case reference target must stay unresolved (names keep their case)
    texts.append(" ".join(toks[:i0] + [names[0].swapcase()] + toks[i0 + 1:]))
    lits = [{"k": "str", "v": k} for k in kw] + [{"k": "str", "v": ","}, {"k": "re", "v": rx},
                                                   {"k": "str", "v": "("}, {"k": "str", "v": ")"}]
    return gtext, texts, lits, {"Def": {"name": "id", "tag": "text"}}


def simple_grammar(rng):
    """one keyword, one regex literal, one ID: every literal path with high yield"""
    kw = literal(rng)
    kw2 = literal(rng)

    class _Q:  # G.q replaced by the many spellings of q20 (a fresh one at every occurrence)
        n = 0

        @classmethod
        def q(cls, v):
            cls.n += 1
            return q20(v, rng.fork(("q", cls.n)))
    G = _Q
    rx, samples = rng.choice([r for r in RES20 if r[0] != r"q?"])
    sepre = rng.choice([r"and", r"[xy]"])
    form = rng.below(5)
    if rng.fork("form5").chance(0.25):
        form = 5
    if form == 0:
        gtext = f"Model: {G.q(kw)} a=/{rx}/ n=ID k={G.q(kw2)};\n"
        toks = [kw, rng.choice(samples), rng.choice(["foo", "Bar"]), kw2]
        lits = [("str", kw), ("re", rx), ("str", kw2)]
        textual = {"Model": {"a": "text", "n": "id", "k": {"lit": [kw2]}}}
    elif form == 5:
        # string literals as the right-hand side of assignments (directly, as alternatives, through a match rule
        # that is a choice of literals, in a list): their value is the grammar's spelling, whatever the input's case
        r5 = rng.fork("f5")
        kw3, kw4 = literal(r5, 0.8), literal(r5, 0.8)
        gtext = (f"Model: members+=Member;\n"
                 f"Member: (vis={G.q(kw)} | vis={G.q(kw2)}) mods*=Mod name=ID ':' type=/{rx}/ (tags+={G.q(kw3)}[','])? ';';\n"
                 f"Mod: {G.q(kw3)} | {G.q(kw4)};\n")
        toks = []
        for n in r5.sample(["Foo", "barBaz", "q"], r5.randint(1, 2)):
            toks += [r5.choice([kw, kw2])] + r5.sample([kw3, kw4], r5.randint(0, 2)) + [n, ":", rng.choice(samples)]
            if r5.chance(0.4):
                toks += [kw3] + ([",", kw3] if r5.chance(0.5) else [])
            toks.append(";")
        lits = [("str", kw), ("str", kw2), ("str", kw3), ("str", kw4), ("re", rx), ("str", ":"), ("str", ","), ("str", ";")]
        textual = {"Member": {"vis": {"lit": sorted({kw, kw2})}, "mods": {"lit": sorted({kw3, kw4})}, "name": "id",
                              "type": "text", "tags": {"lit": [kw3]}}}
    elif form == 1:
        gtext = f"Model: xs+=X[/{sepre}/] {G.q(kw)};\nX: v=/{rx}/ | {G.q(kw2)} v=INT;\n"
        s = {"and": ["and"], "[xy]": ["x", "y"]}[sepre]
        toks = [rng.choice(samples), rng.choice(s), kw2, "7", rng.choice(s), rng.choice(samples), kw]
        lits = [("re", sepre), ("str", kw), ("re", rx), ("str", kw2)]
        textual = {}
    elif form == 2:
        gtext = f"Model: ({G.q(kw)} | n=ID) rest+=R;\nR: {G.q(kw2)} | /{rx}/ | INT;\n"
        toks = [rng.choice([kw, "foo"]), kw2, rng.choice(samples), "3"]
        lits = [("str", kw), ("str", kw2), ("re", rx)]
        textual = {"Model": {"n": "id"}}
    elif form == 4:
        gtext = f"Model: {G.q(kw)} xs+=X[','] y=Y;\nX: /{rx}/ | ID;\nY: X | {G.q(kw2)};\n"
        toks = [kw, rng.choice(samples), ",", rng.choice(["Foo", "bar"]), ",", rng.choice(samples), rng.choice([kw2, "Zed"])]
        lits = [("str", kw), ("str", ","), ("re", rx), ("str", kw2)]
        textual = {"Model": {"xs": "text"}}
    else:
        gtext = f"Model: items*=Item;\nItem: {G.q(kw)} name=ID ('=' val=Val)? ';';\nVal: /{rx}/ | STRING | {G.q(kw2)};\n"
        toks = [kw, "Foo", "=", rng.choice(samples), ";", kw, "bar", ";", kw, "q", "=", kw2, ";"]
        lits = [("str", kw), ("str", "="), ("str", ";"), ("re", rx), ("str", kw2)]
        textual = {"Item": {"name": "id"}}
    words = (kw, kw2) + ((kw3, kw4) if form == 5 else ())
    toks = [restyle(t, rng) if t in words or t in samples else t for t in toks]
    texts = [" ".join(toks)]
    if rng.chance(0.5):
        from harness import gen_grammar
        texts.append(" ".join(gen_grammar.mutate(toks, rng)))
    return gtext, texts, [{"k": k, "v": v} for k, v in lits], textual


def split_files(gtext):
    """the same language as a main grammar importing the rest of its rules from a second file (None if there is
    only one rule); the templates write one rule per line"""
    lines = [l for l in gtext.strip().split("\n") if l.strip()]
    if len(lines) < 2:
        return None
    return "import base\n" + lines[0] + "\n", {"base.tx": "\n".join(lines[1:]) + "\n"}


def vocabulary_grammar(lits, rng):
    """another language built from (some of) the same literals"""
    ls = rng.sample(lits, min(len(lits), rng.randint(1, 4))) if lits else []
    alts = [q20(l["v"], rng.fork(i)) if l["k"] == "str" else "/" + l["v"] + "/" for i, l in enumerate(ls)
            if l["v"] != "" and l["v"] != "q?"]
    ls = [l for l in ls if l["v"] != "" and l["v"] != "q?"]
    if not alts:
        return None
    form = rng.below(3)
    if form == 0:
        g = "Voc: ws+=W;\nW: " + " | ".join(alts) + " | INT;\n"
    elif form == 1:
        g = "Voc: " + " ".join(f"({a})?" for a in alts) + " n=INT;\n"
    else:
        g = "Voc: items+=Item;\nItem: " + " | ".join(f"{a} name=ID" for a in alts) + ";\n"
    return g, ls


def add_history(case, rng):
    """meta-models constructed (and used) in the same process before / after the one under test: the same
    grammar or a grammar with the same literals, with the ignore_case / autokwd configuration varied"""
    def entry(r):
        cfg = dict(case["cfg"])
        kind = r.weighted([("flip_ic", 6), ("flip_kwd", 2), ("both", 1), ("same", 1)])
        if kind in ("flip_ic", "both"):
            cfg["ignore_case"] = not cfg.get("ignore_case")
        if kind in ("flip_kwd", "both"):
            cfg["autokwd"] = not cfg.get("autokwd")
        if r.fork("grp").chance(0.25):
            cfg["use_regexp_group"] = not cfg.get("use_regexp_group")
        e = {"cfg": cfg, "texts": list(case["texts"][:1])}
        if r.chance(0.3):
            vg = vocabulary_grammar(case.get("lits") or [], r.fork("voc"))
            if vg:
                e["grammar"], e["lits"] = vg
                e["texts"] = [" ".join(l["v"] if l["k"] == "str" else (RES20_D.get(l["v"]) or ["x"])[0]
                                       for l in vg[1]) + " 1 a"]
        return e
    where = rng.weighted([("before", 6), ("after", 2), ("both", 2)])
    if where in ("before", "both"):
        case["history"] = [entry(rng.fork(("h", i))) for i in range(rng.randint(1, 2))]
    if where in ("after", "both"):
        case["later"] = [entry(rng.fork("l"))]
    return case


# ---- running the real code ---------------------------------------------------
class _Limit(BaseException):
    pass


def limited(fn, secs):
    """fn() under a wall-clock limit -> its value or {"other": "Timeout"}.  Nested inside the runner's per-case
    alarm, which is restored with sub-second precision (txutil.with_timeout re-arms it with whole seconds and so
    shortens it by up to a second per call, which adds up over the dozens of parses of one case)."""
    import signal
    import time

    def h(signum, frame):
        raise _Limit()

    old_h = signal.signal(signal.SIGALRM, h)
    old_rem = signal.setitimer(signal.ITIMER_REAL, secs)[0]
    t0 = time.time()
    try:
        return fn()
    except _Limit:
        return {"other": "Timeout"}
    finally:
        signal.setitimer(signal.ITIMER_REAL, 0)
        signal.signal(signal.SIGALRM, old_h)
        if old_rem > 0:
            signal.setitimer(signal.ITIMER_REAL, max(0.01, old_rem - (time.time() - t0)))


class _StubNoMatch(Exception):
    pass


class _Stub:
    """what Match._parse needs from a parser"""
    debug = False
    last_pexpression = None

    def __init__(self, text):
        self.input = text
        self.position = 0

    def _nm_raise(self, *a, **k):
        raise _StubNoMatch()


def real_row(e, text):
    """matched length of the real Match object at every position (its own _parse), -1 = NoMatch"""
    st = _Stub(text)
    row = []
    for p in range(len(text) + 1):
        st.position = p
        try:
            e._parse(st)
            row.append(st.position - p)
        except _StubNoMatch:
            row.append(-1)
    return row


def _sre_eq(a, b):
    return _re.fullmatch(_re.escape(a), b, _re.I) is not None


def cc_of(chars):
    """Python's classification of the non-ASCII characters (same wire format as for Drivers/Re.lean, cf. c21.cc_of):
    digits, other word characters, spaces, and fold = representative of the re.IGNORECASE equivalence class"""
    d, w, s, f = [], [], [], []
    chars = sorted(set(chars))
    for ch in chars:
        if ord(ch) < 128:
            continue
        if _re.match(r"\d", ch):
            d.append(ord(ch))
        elif _re.match(r"\w", ch):
            w.append(ord(ch))
        if _re.match(r"\s", ch):
            s.append(ord(ch))
        cands = [c for c in (ch.lower(), ch.upper(), ch) if len(c) == 1]
        cls = sorted({c for c in chars + cands + list("abcdefghijklmnopqrstuvwxyz") if len(c) == 1 and _sre_eq(ch, c)}
                     | {ch})
        asc = [c for c in cls if ord(c) < 128]
        rep = asc[0].lower() if asc else cls[0]
        if rep != ch:
            f.append([ord(ch), ord(rep)])
    return {"d": d, "w": w, "s": s, "f": f}


def parse_only(mm, objs, text):
    """the real parse of one text with another meta-model of the same grammar (node ids by position in its own model)"""
    use_repo()
    from arpeggio import NoMatch
    from textx.exceptions import TextXSyntaxError

    ids = {id(o): i for i, o in enumerate(objs)}
    eof_ids = [i for i, o in enumerate(objs) if type(o).__name__ == "EndOfFile"]
    parser = mm._parser_blueprint.clone()

    def go():
        try:
            tree = parser.parse(text)
        except TextXSyntaxError as e:
            return {"nomatch": getattr(e.__cause__, "position", None)}
        except NoMatch as e:
            return {"nomatch": e.position}
        except RecursionError:
            return {"other": "RecursionError"}
        except Exception as e:
            return {"other": type(e).__name__, "msg": str(e)[:200]}
        tj = peg.tree_json(tree, ids)

        def fix(t):
            if t and t[0] == "t":
                if t[1] == -1 and t[3] == 0 and eof_ids:
                    t[1] = eof_ids[0]
            elif t and t[0] in ("n", "l"):
                for c in t[-1]:
                    fix(c)

        fix(tj)
        return {"ok": tj}

    r = limited(go, 5)
    return r if r is not None else {"other": "Timeout"}


def base_objs():
    use_repo()
    import textx.lang as L

    return [getattr(L, n) for n in BASE_NAMES]


def match_kind(e):
    """what a terminal expression is, by behaviour rather than by class name: "str" (StrMatch and subclasses),
    "re" (a RegExMatch whose value is the matched text), "kw" (a regex-matched terminal that carries a literal of its
    own, textX's KeywordMatch: value claimed to be that literal - the claim is checked against the real terminal
    values), None (not a Match)"""
    use_repo()
    import arpeggio as A

    if isinstance(e, A.StrMatch):
        return "str"
    if isinstance(e, A.RegExMatch):
        return "re" if type(e) is A.RegExMatch or e.to_match == e.to_match_regex else "kw"
    return "other" if isinstance(e, A.Match) else None


def dump_parser20(parser):
    """peg.dump_parser, with Match subclasses the shared bridge does not know by name (KeywordMatch) classified by
    behaviour (the bridge module itself is shared with other properties and left alone)"""
    seen, extra = set(), {}

    def visit(e):
        if id(e) in seen:
            return
        seen.add(id(e))
        n = type(e).__name__
        if n not in peg.KIND and match_kind(e) in ("str", "re", "kw"):
            extra[n] = "str" if match_kind(e) == "str" else "re"
        for c in getattr(e, "nodes", None) or []:
            visit(c)
        if getattr(e, "sep", None) is not None:
            visit(e.sep)

    visit(parser.parser_model)
    if parser.comments_model is not None:
        visit(parser.comments_model)
    old = peg.KIND
    peg.KIND = dict(old, **extra)
    try:
        return peg.dump_parser(parser)
    finally:
        peg.KIND = old


def collect_exprs(parser):
    """fallback when the parser model has something the mirror cannot take: all expressions, Match nodes tagged, so
    that the real parses and the direct oracle still run (no Lean request)"""
    seen, objs = set(), []

    def visit(e):
        if id(e) in seen:
            return
        seen.add(id(e))
        objs.append(e)
        for c in getattr(e, "nodes", None) or []:
            visit(c)
        if getattr(e, "sep", None) is not None:
            visit(e.sep)

    visit(parser.parser_model)
    if parser.comments_model is not None:
        visit(parser.comments_model)
    nodes = [{"k": {"str": "str", "re": "re", "kw": "re", "other": "re"}.get(match_kind(e), "x")} for e in objs]
    return nodes, objs


def tok_specs(nodes, objs):
    out = []
    for nd, e in zip(nodes, objs):
        if nd["k"] == "str":
            out.append({"k": "str", "lit": e.to_match, "ic": bool(e.ignore_case)})
        elif nd["k"] == "re":
            out.append({"k": "kw", "lit": e.to_match, "ic": bool(e.regex.flags & _re.IGNORECASE)}
                       if match_kind(e) == "kw" else {"k": "re"})
        else:
            out.append({"k": "other"})
    return out


def match_objs(nodes, objs):
    """descriptors of the Match objects built from grammar literals (base types and EOF excluded); for regex-based
    ones the flag is that of the *compiled* object they match with"""
    base = base_objs()
    out = []
    for nd, e in zip(nodes, objs):
        if any(e is b for b in base):
            continue
        if nd["k"] == "str":
            out.append(["str", e.to_match, bool(e.ignore_case)])
        elif nd["k"] == "re":
            ic = bool(e.regex.flags & _re.IGNORECASE)
            if match_kind(e) == "kw":
                out.append(["kw", e.to_match, e.to_match_regex, ic])
            else:
                out.append(["re", e.to_match_regex, ic])
    return out


def build_mm(grammar, files, cfg, tmp):
    """the meta-model of a (possibly multi-file) grammar -> outcome"""
    use_repo()
    from textx import metamodel_from_file, metamodel_from_str

    if not files:
        return outcome(lambda: metamodel_from_str(grammar, **cfg))
    import tempfile

    d = tempfile.mkdtemp(prefix="g", dir=tmp)
    for name, text in list(files.items()) + [("main.tx", grammar)]:
        with open(_os.path.join(d, name), "w", encoding="utf-8") as f:
            f.write(text)
    return outcome(lambda: metamodel_from_file(_os.path.join(d, "main.tx"), **cfg))


def observe_side(entry, case, tmp, keep):
    """a meta-model of the case's history: construct it, note what its literals were compiled to, use it"""
    own = entry.get("grammar")
    o = build_mm(own or case["grammar"], None if own else case.get("files"), entry["cfg"], tmp)
    if "ok" not in o:
        return {"grammar_error": o}
    mm = o["ok"]
    keep.append(mm)
    rec = {}
    try:
        nodes, _top, _c, objs = dump_parser20(mm._parser_blueprint.clone())
        rec["matchobjs"] = match_objs(nodes, objs)
    except peg.Unsupported as e:
        rec["nomirror"] = str(e)
    rec["loads"] = []
    for t in entry.get("texts", []):
        r = limited(lambda: outcome(lambda: mm.model_from_str(t)), 5)
        rec["loads"].append("ok" if "ok" in r else "err" if "err" in r else str(r.get("other")))
    return rec


_PRISTINE = None


_PLAIN = (int, bool, str, float, type(None), tuple, frozenset, bytes)


def _state_cells():
    """(owner, owner name, attribute, value) for every module-level and class-level attribute of the textX and
    Arpeggio modules that holds plain data (dict / list / set, numbers, strings, tuples, None) or a functools cache"""
    import sys as _sys

    out = []
    for mname, mod in sorted(_sys.modules.items()):
        if mod is None or not (mname == "textx" or mname.startswith("textx.") or mname == "arpeggio"
                               or mname.startswith("arpeggio.")):
            continue
        for k, v in list(vars(mod).items()):
            if k.startswith("__"):
                continue
            if type(v) in (dict, list, set) or type(v) in _PLAIN or (
                    hasattr(v, "cache_clear") and getattr(v, "__module__", None) == mname):
                out.append((mod, mname, k, v))
            elif isinstance(v, type) and getattr(v, "__module__", None) == mname:
                for ck, cv in list(vars(v).items()):
                    if not ck.startswith("__") and (type(cv) in (dict, list, set) or type(cv) in _PLAIN):
                        out.append((v, f"{mname}.{v.__name__}", ck, cv))
    return out


def reset_process_state():
    """Bring the process-wide state that survives a meta-model back to what it was when the code under test had
    just been imported: the regex cache of `re`, every module-level / class-level container of the textX and Arpeggio
    modules (contents restored in place; plain values rebound; attributes created later are left alone), functools
    caches.  A case is then observed after exactly the history it lists itself: what earlier
    cases of the same worker process left behind neither masks nor fakes a failure, and a replay (fresh process)
    sees what the run saw.  (`VERIF_C20_FORK=1` runs every case in a forked child instead - the same guarantee for
    any kind of state, at a few hundred milliseconds per case.)"""
    global _PRISTINE
    use_repo()
    import arpeggio  # noqa: F401
    import textx  # noqa: F401
    import textx.lang  # noqa: F401
    import textx.metamodel  # noqa: F401
    import textx.model  # noqa: F401
    import textx.scoping  # noqa: F401

    _re.purge()
    if _PRISTINE is None:
        import importlib
        import pkgutil

        for pkg in (textx, arpeggio):  # modules imported lazily later must be part of the picture
            for m in pkgutil.walk_packages(pkg.__path__, pkg.__name__ + "."):
                if ".cli" in m.name or "tests" in m.name:
                    continue
                try:
                    importlib.import_module(m.name)
                except Exception:
                    pass
    cells = _state_cells()
    if _PRISTINE is None:
        _PRISTINE = {}
        for owner, oname, k, v in cells:
            if not hasattr(v, "cache_clear"):
                _PRISTINE[(oname, k)] = (v, _copy.copy(v))
        return
    for owner, oname, k, v in cells:
        if hasattr(v, "cache_clear"):
            v.cache_clear()
            continue
        ref = _PRISTINE.get((oname, k))
        if ref is None:
            continue
        saved = ref[1]
        if type(saved) in _PLAIN:
            if type(v) is not type(saved) or v != saved:
                setattr(owner, k, saved)
            continue
        if ref[0] is not v or v == saved:
            continue
        if type(v) is list:
            v[:] = saved
        else:
            v.clear()
            v.update(saved)


def run_forked(fn):
    """fn() in a forked child -> its (picklable) value.  Every case starts from the same pristine process state: the
    only meta-models that exist before the one under test are those the case itself constructs (module-level state of
    textX / Arpeggio / re filled by earlier cases of the same worker neither masks nor fakes a failure, and a replay
    sees exactly what the run saw)."""
    import pickle
    import signal
    import shutil  # noqa: F401  (everything the child needs is imported before the fork: importing is not history)
    import tempfile  # noqa: F401
    import traceback  # noqa: F401

    use_repo()
    import arpeggio  # noqa: F401
    import textx  # noqa: F401
    import textx.lang  # noqa: F401
    import textx.exceptions  # noqa: F401

    r, w = _os.pipe()
    pid = _os.fork()
    if pid == 0:
        code = 1
        try:
            _os.close(r)
            signal.alarm(0)
            try:
                data = pickle.dumps(("ok", fn()))
            except BaseException as e:  # reported by the parent as a crash of the implementation harness
                import traceback

                data = pickle.dumps(("exc", f"{type(e).__name__}: {e}", traceback.format_exc()[-1500:]))
            with _os.fdopen(w, "wb") as f:
                f.write(data)
            code = 0
        finally:
            _os._exit(code)
    _os.close(w)
    try:
        with _os.fdopen(r, "rb") as f:
            data = f.read()
        _, status = _os.waitpid(pid, 0)
        pid = None
    finally:
        if pid is not None:  # the runner's per-case alarm fired while waiting: the child must not linger
            try:
                _os.kill(pid, signal.SIGKILL)
                _os.waitpid(pid, 0)
            except OSError:
                pass
    if not data:
        raise RuntimeError(f"the process running the case died (wait status {status})")
    res = pickle.loads(data)
    if res[0] == "exc":
        raise RuntimeError(res[1] + "\n" + res[2])
    return res[1]


def run_one(mm, nodes, objs, text, mirror=True):
    """parse + load one text on the real code"""
    use_repo()
    from arpeggio import Match, NoMatch, NonTerminal, Terminal
    from textx.exceptions import TextXSyntaxError

    d = {"text": text}
    base = base_objs()
    ids = {id(o): i for i, o in enumerate(objs)}
    eof_ids = [i for i, o in enumerate(objs) if type(o).__name__ == "EndOfFile"]
    parser = mm._parser_blueprint.clone()
    tree = None

    def do_parse():
        nonlocal tree
        try:
            tree = parser.parse(text)
        except TextXSyntaxError as e:
            return {"nomatch": getattr(e.__cause__, "position", None)}
        except NoMatch as e:
            return {"nomatch": e.position}
        except RecursionError:
            return {"other": "RecursionError"}
        except Exception as e:
            return {"other": type(e).__name__, "msg": str(e)[:200]}
        return None

    r = limited(do_parse, 5)
    if r is not None:
        d["parse"] = r
        tree = None
    if tree is not None:
        tj = peg.tree_json(tree, ids) if mirror else None
        vals, spans, mvals = [], [], []
        grp1 = bool(getattr(mm, "use_regexp_group", False))

        def fix(t, node):
            if t and t[0] == "t":
                if t[1] == -1 and t[3] == 0 and eof_ids:
                    t[1] = eof_ids[0]
            elif t and t[0] in ("n", "l"):
                for c, cn in zip(t[-1], node):
                    fix(c, cn)

        def leaves(node):
            if isinstance(node, Terminal):
                vals.append(node.value)
                rule = node.rule
                mvals.append(node.value)
                if grp1 and match_kind(rule) == "re" and rule.regex.groups == 1:
                    # use_regexp_group: a regex literal with exactly one group yields the group (measured on the
                    # compiled regex itself, not taken from the terminal)
                    m1 = rule.regex.match(text, node.position)
                    if m1 is not None and m1.group(1) is not None:
                        mvals.append(m1.group(1))
                lit = isinstance(rule, Match) and match_kind(rule) != "other" and not any(rule is b for b in base)
                if lit and len(node.value):
                    spans.append([node.position, node.position + len(node.value)])
            elif isinstance(node, (NonTerminal, list)):
                for c in node:
                    leaves(c)

        if mirror:
            fix(tj, tree)
        leaves(tree)
        d["parse"] = {"ok": tj}
        d["vals"] = vals
        d["spans"] = spans
        d["mvals"] = sorted(set(v for v in mvals if isinstance(v, str)))

    def do_load():
        return dump_model(mm.model_from_str(text))

    o = limited(lambda: outcome(do_load), 5)
    if "err" in o:
        e = o["err"]
        o = {"err": [e["cls"], e["line"], e["col"]]}
    d["load"] = o
    d["rows"] = [real_row(e, text) if nd["k"] in ("str", "re") else None for nd, e in zip(nodes, objs)]
    return d


def variants_of(text, spans, rng, k, exhaustive=False):
    """case variants of `text` changing only cased characters inside `spans`"""
    pos = [i for a, b in spans for i in range(a, b) if i < len(text) and has_case(text[i])]
    pos = sorted(set(pos))
    if not pos:
        return []
    cs = list(text)
    if exhaustive and len(pos) <= 6:  # every variant of the literal-matched letters
        out = []
        for mask in range(1, 1 << len(pos)):
            o = list(cs)
            for j, i in enumerate(pos):
                if mask >> j & 1:
                    o[i] = flip(o[i])
            out.append("".join(o))
        return out

    def mk(f):
        out = list(cs)
        for i in pos:
            out[i] = f(i, cs[i])
        return "".join(out)

    cands = [
        mk(lambda i, c: c.upper()),
        mk(lambda i, c: c.lower()),
        mk(lambda i, c: flip(c)),
        mk(lambda i, c: flip(c) if rng.chance(0.5) else c),
        mk(lambda i, c: flip(c) if rng.chance(0.3) else c),
    ]
    one = rng.choice(pos)
    cands.append(mk(lambda i, c: flip(c) if i == one else c))
    out = []
    for y in rng.shuffle(cands):
        if y != text and y not in out and len(y) == len(text):
            out.append(y)
    return out[:k]


def wild_variant(text, rng):
    pos = [i for i, c in enumerate(text) if has_case(c)]
    if not pos:
        return None
    cs = list(text)
    for i in pos:
        if rng.chance(0.4):
            cs[i] = flip(cs[i])
    y = "".join(cs)
    return y if y != text else None


# ---- the property, decided on observations ------------------------------------
def struct_diff(a, b, path="root"):
    """None if the two dumps have the same structure (strings up to letter case), else where they differ"""
    if isinstance(a, list) or isinstance(b, list):
        if not (isinstance(a, list) and isinstance(b, list)):
            return f"{path}: list vs non-list"
        if len(a) != len(b):
            return f"{path}: list lengths {len(a)} vs {len(b)}"
        for i, (x, y) in enumerate(zip(a, b)):
            r = struct_diff(x, y, f"{path}[{i}]")
            if r:
                return r
        return None
    if not (isinstance(a, dict) and isinstance(b, dict)):
        return None if a == b else f"{path}: {a!r} vs {b!r}"
    if "root" in a and "root" in b:
        return struct_diff(a["root"], b["root"], path)
    if "p" in a or "p" in b:
        if a.get("p") != b.get("p"):
            return f"{path}: type {a.get('p')} vs {b.get('p')}"
        if a["p"] == "str":
            return None if a["v"].lower() == b["v"].lower() else f"{path}: {a['v']!r} vs {b['v']!r}"
        return None if a.get("v") == b.get("v") else f"{path}: {a.get('v')!r} vs {b.get('v')!r}"
    if "ref" in a or "ref" in b:
        return None if a == b else f"{path}: reference {a} vs {b}"
    if a.get("cls") != b.get("cls"):
        return f"{path}: class {a.get('cls')} vs {b.get('cls')}"
    an, bn = [x[0] for x in a.get("attrs", [])], [x[0] for x in b.get("attrs", [])]
    if an != bn:
        return f"{path}: attributes {an} vs {bn}"
    for (n, x), (_, y) in zip(a.get("attrs", []), b.get("attrs", [])):
        r = struct_diff(x, y, f"{path}.{n}")
        if r:
            return r
    return None


def text_values(dump, textual):
    """[(path, kind, value)] for attributes declared textual"""
    out = []

    def go(o, path):
        if isinstance(o, list):
            for i, x in enumerate(o):
                go(x, f"{path}[{i}]")
        elif isinstance(o, dict) and "attrs" in o:
            m = textual.get(o.get("cls"), {})
            for n, v in o["attrs"]:
                if n in m:
                    for i, x in enumerate(v if isinstance(v, list) else [v]):
                        if isinstance(x, dict) and x.get("p") == "str":
                            out.append((f"{path}.{n}[{i}]", m[n], x["v"]))
                go(v, f"{path}.{n}")
    go(dump.get("root"), "root")
    return out


def value_failure(d, textual):
    """failure of one accepted text on its own: every value of an attribute whose sources are single terminals is
    (a) the value of a terminal of the real parse tree of that text (Terminal.value: the grammar's spelling for string
    literals incl. keyword matches, the input as written otherwise - what `termValue` / C20_values_keep_case are
    tied to; the first group under use_regexp_group), (b) for attributes only assigned from string literals one of
    the grammar's spellings, (c) for ID / regex attributes a piece of the input as written"""
    if not textual or "ok" not in d["load"]:
        return None
    tvals = set(d["mvals"]) if "mvals" in d else None
    for p, k, a in text_values(d["load"]["ok"], textual):
        if a == "":
            continue  # the default of an attribute that was not assigned on this path (or an empty regex match)
        if isinstance(k, dict) and "lit" in k:
            if a not in k["lit"]:
                return (f"value {a!r} at {p} (only ever assigned from the string literals {k['lit']}) is not the "
                        f"grammar's spelling, text {d['text']!r}")
        elif isinstance(k, dict):
            if a not in k["mixed"] and a not in d["text"]:
                return f"value {a!r} at {p} is neither a literal of {k['mixed']} nor the text as written in {d['text']!r}"
        elif a not in d["text"]:
            return f"value {a!r} at {p} is not the text as written in {d['text']!r}"
        if tvals is not None and a not in tvals:
            return (f"value {a!r} at {p} is not the value of any terminal of the parse tree of {d['text']!r} "
                    f"(terminal values {sorted(tvals)[:12]})")
    return None


def pair_failure(x, y, textual):
    """property failure for an accepted text x and a variant y of its literal-matched characters, or None"""
    if y["load"].get("other") == "Timeout":
        return None  # wall-clock limit hit (machine load): undecided, counted in the evidence
    if "ok" not in y["load"]:
        return f"variant {y['text']!r} of accepted {x['text']!r} is rejected: {str(y['load'])[:160]}"
    r = struct_diff(x["load"]["ok"], y["load"]["ok"])
    if r:
        return f"variant {y['text']!r} of {x['text']!r} changes the model: {r}"
    if textual:
        vx, vy = text_values(x["load"]["ok"], textual), text_values(y["load"]["ok"], textual)
        for (p, k, a), (_, _, b) in zip(vx, vy):
            if k == "id" and a != b:
                return f"ID value at {p} changed with the case of literal text: {a!r} vs {b!r}"
            if isinstance(k, dict) and "lit" in k and a != b:
                return (f"variant {y['text']!r} of {x['text']!r} changes the model: value of the string literal at "
                        f"{p} is {a!r} vs {b!r}")
        return value_failure(y, textual)
    return None


def self_failure(x, textual):
    return value_failure(x, textual)


class Prop(Check):
    ID = "C20"
    LEAN_MODULE = "TextxVerif.Props.C20"
    THEOREMS = [
        "Peg.Case.C20_tok_str",
        "Peg.Case.C20_tok_str_exact",
        "Peg.Case.C20_tok",
        "Peg.Case.C20_compile_ignore_case",
        "Peg.Case.C20_compile_history",
        "Peg.Case.C20_partial",
        "Peg.Case.C20_partial_tree",
        "Peg.Case.C20_values_keep_case",
        "Peg.Case.C20_full_false",
        "Peg.parse_congr",
        "Peg.run_congr",
        "Peg.Case.C20_engine_foldInv",
        "Peg.Case.C20_kwRe_foldInv",
        "Peg.Case.C20_kwRe_foldInv_pyMatch",
        "Peg.Case.C20_engine_terminals",
        "Peg.Case.C20_partial_engine",
        "Peg.Case.C20_compiled_allIc",
        "Peg.Case.C20_basetypes_ascii",
        "Re.m_fold",
        "Re.pyMatch_fold",
        "Peg.run_congrK",
    ]
    DRIVER = "Drivers/Case.lean"
    QUICK_CASES = 420
    THOROUGH_CASES = 5000
    CASE_TIMEOUT = 90
    RULE = ("generated grammars (random: common/abstract/match rules, all operators, separators, eolterm, predicates, "
            "suppression, rule modifiers, Comment rule; string literals from a wide vocabulary: mixed-case keywords, random "
            "words, non keyword-like spellings with punctuation / quotes / blanks / backslashes / leading digits, word "
            "separators, written with either quote and with escape sequences (\\\\ \\' \\\" \\n \\t \\xNN \\uNNNN "
            "\\UNNNNNNNN octal); regex literals with letters, escaped slashes, backslashes; targeted: keyword/regex/"
            "separator/ID templates; definitions + references through ID; the templates also as multi-file grammars "
            "(import), a template with string literals as right-hand sides of assignments (=, alternatives, += with "
            "separator, *= through a match rule that is a choice of literals)) compiled with ignore_case=True x autokwd / "
            "skipws / ws / memoization options x model-construction options use_regexp_group (35 %) / "
            "auto_init_attributes=False (8 %) x HISTORIES (28 % of the "
            "cases: 1-2 meta-models constructed and used earlier in the same process and / or one constructed after the "
            "meta-model under test and before its texts are parsed - the same grammar or another grammar with the same "
            "literals, with ignore_case and / or autokwd flipped; every case starts from the process state of a fresh "
            "import) x derived and mutated texts x up to 3 (quick) / 6 (thorough) case variants of the literal-matched "
            "characters + 1 variant of arbitrary characters; non-trivial = an accepted text with at least one variant "
            "differing in a character matched by a string or regex literal of the grammar")
    MODELLED = ("hand-modelled: StrMatch._parse with ignore_case, Terminal.value (grammar literal for StrMatch and "
                "KeywordMatch, matched text for RegExMatch), the class / flag choice of visit_str_match / autokwd branch / "
                "visit_re_match and RegExMatch.compile through the process-wide regex cache, threaded through the case's "
                "history of meta-model constructions (buildMM / buildAll, Peg/Case.lean) on top of the Arpeggio mirror "
                "(Peg/Arp.lean); tie X: mirror outcome and terminal values vs real parser for every text and variant, Lean "
                "string rows vs real StrMatch._parse at every position, buildMM vs the real Match objects (kind, pattern, "
                "flags of the compiled regex object) of the meta-model under test and of every meta-model of its history, "
                "prediction of C20_partial vs real outcomes; regex matching is an input table measured on the real `re` "
                "objects; unescaping of string literals (decode_escapes) is not modelled (the generator knows the decoded "
                "literal; tie through the Match objects and the parses); model construction from the parse tree is not "
                "modelled (observed by the oracle on the real code); parser models the mirror cannot take are still parsed "
                "and judged by the direct oracle (evidence: no_mirror_cases)")
    ASSUMPTIONS = [
        "re.IGNORECASE: a regex token compiled with the flag (and the case-closed base-type regexes ID, INT, FLOAT, "
        "STRICTFLOAT, STRING) matches the same lengths on texts equal up to letter case (hypothesis RxFoldInv of "
        "C20_partial; checked on every generated pair: driver field hyp.rxeq, base type BOOL is the exception = known finding)",
        "str.lower() acts character-wise on the generated alphabet (ASCII + é É ä Ä ü Ü; no U+0130 / final sigma); the "
        "driver's table lowerTab is compared with the real comparison through the string rows",
        "whitespace sets (metamodel ws, rule ws modifiers) contain no cased characters (hypothesis WsNeutral; decided by the driver)",
    ]

    # ---- generation ---------------------------------------------------------
    def gen(self, rng, n, tier):
        for i in range(n):
            r = rng.fork(i)
            # a third of the cases have a history of other meta-models in the same process; those lean towards the
            # high-yield templates and towards autokwd (keyword literals are the ones compiled through shared state)
            hist = r.chance(0.33)
            stream = r.weighted([("random", 3), ("simple", 4), ("link", 2)] if hist else
                                [("random", 6), ("simple", 3), ("link", 1)])
            cfg = dict(r.choice(CFGS))
            cfg["ignore_case"] = True if r.chance(0.93) else False
            if r.chance(0.55 if hist else 0.35):
                cfg["autokwd"] = True
            if r.chance(0.25):
                cfg["memoization"] = True
            # configurations of the model construction (tree -> objects): the values the model gets from terminals
            rc = r.fork("mmcfg")
            if rc.chance(0.35):
                cfg["use_regexp_group"] = True
            if rc.chance(0.08):
                cfg["auto_init_attributes"] = False
            yield self.make_case(r, stream, cfg, tier, p_history=1.0 if hist else 0.0)

    @staticmethod
    def make_case(r, stream, cfg, tier, p_history=0.3, p_files=0.3):
        if stream == "random":
            g = relit(G.GrammarGen(r, links=False).grammar(), r)
            case = {"grammar": render_grammar20(g, r.fork("render")), "cfg": cfg, "texts": sentences20(g, r, 2, 1),
                    "lits": grammar_lits(g), "textual": textual_attrs(g)}
        else:
            gtext, texts, lits, textual = simple_grammar(r) if stream == "simple" else link_grammar(r)
            case = {"grammar": gtext, "cfg": cfg, "texts": texts, "lits": lits, "textual": textual}
            if r.chance(p_files):  # the same language with its rules spread over files (import)
                sp = split_files(gtext)
                if sp:
                    case["grammar"], case["files"] = sp
        case["stream"] = stream
        if tier != "quick" and stream == "simple" and r.chance(0.15):
            case["exhaustive"] = True  # all 2^k variants when the text has k <= 6 literal-matched letters
        case["vseed"] = r.next()
        case["nvar"] = 3 if tier == "quick" else 6
        if r.chance(p_history):
            add_history(case, r.fork("history"))
        return case

    # ---- implementation -------------------------------------------------------
    def impl(self, case):
        if _os.environ.get("VERIF_C20_FORK"):
            return run_forked(lambda: self._impl_guarded(case))
        reset_process_state()
        return self._impl_guarded(case)

    def _impl_guarded(self, case):
        import shutil
        import tempfile

        # grammar files of multi-file cases live in a temp dir outside the trees (only created when needed)
        tmp = tempfile.mkdtemp(prefix="c20-", dir="/tmp") if case.get("files") else None
        try:
            return self._impl(case, tmp)
        except _Limit:
            # a nested limit fired outside its guarded region (heavy machine load): nothing observed, nothing claimed
            return {"aborted": True, "late_timeout": True}
        finally:
            if tmp:
                shutil.rmtree(tmp, ignore_errors=True)

    def _impl(self, case, tmp):
        use_repo()
        cfg = case["cfg"]
        keep = []  # every meta-model of the case stays alive until the end
        hist = [observe_side(e, case, tmp, keep) for e in case.get("history", [])]
        o = build_mm(case["grammar"], case.get("files"), cfg, tmp)
        if "ok" not in o:
            return {"grammar_error": o, "hist": hist}
        mm = o["ok"]
        later = [observe_side(e, case, tmp, keep) for e in case.get("later", [])]
        p0 = mm._parser_blueprint.clone()
        mirror = True
        try:
            nodes, top, comments, objs = dump_parser20(p0)
            res = {"nodes": nodes, "top": top, "comments": comments, "skipws": bool(p0.skipws), "ws": p0.ws,
                   "memo": bool(p0.memoization), "toks": tok_specs(nodes, objs), "matchobjs": match_objs(nodes, objs),
                   "groups": []}
        except peg.Unsupported as e:
            # the mirror cannot take this parser model: the real parses and the direct oracle still run
            mirror = False
            nodes, objs = collect_exprs(p0)
            res = {"nomirror": str(e), "groups": []}
        res["hist"], res["later"] = hist, later
        rng = Rng(case.get("vseed", 0))
        textual = case.get("textual") or {}
        base = base_objs()
        bool_idx = [i for i, e in enumerate(objs) if e is base[1]]
        res["bool_nodes"] = bool_idx
        import time

        deadline = time.time() + CASE_BUDGET

        def timed_out(d):
            return "Timeout" in (d["parse"].get("other"), d["load"].get("other")) or time.time() > deadline

        for t in case["texts"]:
            if time.time() > deadline:
                res["aborted"] = True
                break
            x = run_one(mm, nodes, objs, t, mirror)
            grp = {"x": x, "ys": []}
            if timed_out(x):  # machine load (or a hanging implementation): do not pile up further waits
                res["groups"].append(grp)
                res["aborted"] = True
                break
            ys = []
            if "ok" in x["load"] and x.get("spans"):
                ys = [(y, False) for y in variants_of(t, x["spans"], rng.fork("v"), case.get("nvar", 4),
                                                      case.get("exhaustive", False))]
            for y in case.get("variants", {}).get(t, []):
                if all(y != z for z, _ in ys) and y != t and len(y) == len(t):
                    ys.append((y, False))
            w = wild_variant(t, rng.fork("w"))
            if w is not None and all(w != y for y, _ in ys):
                ys.append((w, True))
            for y, wild in ys:
                d = run_one(mm, nodes, objs, y, mirror)
                d["wild"] = wild
                if not wild and "ok" in x["load"]:
                    # a fixed corpus variant must stay inside the literal-matched spans to count for the property
                    inside = all(any(a <= i < b for a, b in x["spans"]) for i in range(len(t)) if t[i] != y[i])
                    d["wild"] = not inside
                grp["ys"].append(d)
                if timed_out(d):
                    res["aborted"] = True
                    break
            # classifier input for the BOOL finding: the same pairs with BOOL recompiled case-insensitively
            fails = [d for d in grp["ys"] if not d["wild"] and "ok" in x["load"] and pair_failure(x, d, textual)]
            if fails and bool_idx:
                B = base[1]
                old = B.regex
                try:
                    B.regex = _re.compile(B.to_match_regex, old.flags | _re.IGNORECASE)
                    x2 = run_one(mm, nodes, objs, t, mirror)
                    left = []
                    for d in fails:
                        y2 = run_one(mm, nodes, objs, d["text"], mirror)
                        # (an original that BOOL-with-IGNORECASE rejects leaves no accepted text to vary: gone as well)
                        f = pair_failure(x2, y2, textual) if "ok" in x2["load"] else None
                        if f:
                            left.append(f)
                    grp["bool_ci_left"] = left
                    grp["bool_rows_differ"] = all(any(x["rows"][i] != d["rows"][i] for i in bool_idx) for d in fails)
                finally:
                    B.regex = old
            res["groups"].append(grp)
        # C21 in the mirror: the same grammar with autokwd=False, constructed after everything else of the case (so
        # the observations above are those of the listed history); its parser model is what `Lang.autokwd` starts from
        if mirror and cfg.get("autokwd") and not res.get("aborted"):
            o2 = build_mm(case["grammar"], case.get("files"), dict(cfg, autokwd=False), tmp)
            if "ok" in o2:
                try:
                    n2, top2, c2, objs2 = dump_parser20(o2["ok"]._parser_blueprint.clone())
                    if top2 == res["top"] and c2 == res["comments"]:
                        res["off"] = {"nodes": n2, "toks": tok_specs(n2, objs2)}
                        for grp in res["groups"]:
                            for d in [grp["x"]] + grp["ys"]:
                                if time.time() > deadline:
                                    break
                                d["parse_off"] = parse_only(o2["ok"], objs2, d["text"])
                    else:
                        res["off_error"] = "top / comments index differs"
                except peg.Unsupported as e:
                    res["off_error"] = str(e)
            else:
                res["off_error"] = "grammar error without autokwd"
        return res

    # ---- model ------------------------------------------------------------------
    @staticmethod
    def _cfgj(cfg):
        return {"ic": bool(cfg.get("ignore_case")), "autokwd": bool(cfg.get("autokwd"))}

    def _sides(self, case, key):
        return [{"cfg": self._cfgj(e["cfg"]), "lits": e.get("lits") if e.get("grammar") else case.get("lits", [])}
                for e in case.get(key, [])]

    def model_req(self, case, obs):
        if "groups" not in obs or "nomirror" in obs:
            return None
        extra = set()
        for grp in obs["groups"]:
            for d in [grp["x"]] + grp["ys"]:
                extra.update(c for c in d["text"] if ord(c) > 127)
        for t in obs["toks"]:
            extra.update(c for c in t.get("lit", "") if ord(c) > 127)
        tab = sorted([c, c.lower()] for c in extra if len(c.lower()) == 1 and c.lower() != c)
        base = {"op": "c20", "nodes": obs["nodes"], "top": obs["top"], "comments": obs["comments"],
                "memo": obs["memo"], "skipws": obs["skipws"], "ws": obs["ws"], "toks": obs["toks"], "tab": tab,
                "lits": case.get("lits", []), "cfg": self._cfgj(case["cfg"]),
                "history": self._sides(case, "history"), "later": self._sides(case, "later")}
        chars = set(extra)
        for t in obs["toks"]:
            chars.update(t.get("lit", ""))
        base["cc"] = cc_of(chars)
        if obs.get("off"):
            base["off"] = obs["off"]
        reqs = []
        for grp in obs["groups"]:
            inputs = []
            n = 0
            for d in [grp["x"]] + grp["ys"]:
                rx = [r if obs["toks"][i]["k"] in ("re", "kw") else None for i, r in enumerate(d["rows"])]
                inputs.append({"text": d["text"], "rx": rx})
                n = max(n, len(d["text"]))
            reqs.append({"inputs": inputs, "fuel": min(20000, 60 + 8 * (n + 2) * (len(obs["nodes"]) + 2))})
        return {"op": "batch", "base": base, "reqs": reqs}

    @staticmethod
    def _same(real, model):
        if "ok" in real:
            return model.get("ok") == real["ok"]
        if "nomatch" in real:
            return model.get("nomatch") == real["nomatch"]
        if real.get("other") == "Timeout":
            return True  # wall-clock limit hit (machine load): not comparable, counted in the evidence
        if real.get("other") in ("RecursionError", "MemoryError"):
            return model.get("err") == "fuel"
        return False

    def compare(self, case, obs, out):
        if "outs" not in out:
            return f"model rejected the request: {str(out)[:200]}"
        if len(out["outs"]) != len(obs["groups"]):
            return "wrong number of answers"
        for grp, o in zip(obs["groups"], out["outs"]):
            if "outs" not in o:
                return f"model rejected the request: {str(o)[:200]}"
            ds = [grp["x"]] + grp["ys"]
            for d, m in zip(ds, o["outs"]):
                if not self._same(d["parse"], m["res"]):
                    return f"text {d['text']!r}: real parse {str(d['parse'])[:300]} vs mirror {str(m['res'])[:300]}"
                if "ok" in d["parse"] and m["vals"] != d["vals"]:
                    return f"text {d['text']!r}: terminal values {d['vals']} vs model {m['vals']}"
                for i, row in m["strrows"]:
                    if row != d["rows"][i]:
                        return (f"text {d['text']!r}: StrMatch {obs['toks'][i]} rows differ: real {d['rows'][i]} vs "
                                f"model {row}")
                # keyword matches: the row the Lean regex engine computes for `lit\\b` (what C20_kwRe_foldInv and
                # C21_same_run are about) is the row of the real compiled regex object
                for i, row in m.get("kwrows", []):
                    if row != d["rows"][i]:
                        return (f"text {d['text']!r}: KeywordMatch {obs['toks'][i]} rows differ: real {d['rows'][i]} vs "
                                f"Lean regex engine {row}")
            # autokwd in the mirror: `Lang.autokwd` of the parser model built without autokwd is the parser model under
            # test; on inputs without a glued keyword the two real parses agree (C21_same_run)
            if obs.get("off"):
                akw = o.get("akw")
                if not akw:
                    return "no autokwd answer from the model"
                if not akw["model"]:
                    return "Lang.autokwd of the parser model built with autokwd=False is not the parser model under test"
                for j, d in enumerate(ds):
                    if "parse_off" not in d or "Timeout" in (d["parse"].get("other"), d["parse_off"].get("other")):
                        continue
                    if akw["uniform"] and akw["nogl"][j]:
                        if not akw["same"][j]:
                            return f"text {d['text']!r}: C21_same_run hypotheses hold but the two model runs differ"
                        if d["parse_off"] != d["parse"]:
                            return (f"text {d['text']!r}: no glued keyword, but the real parses with / without autokwd "
                                    f"differ: {str(d['parse'])[:200]} vs {str(d['parse_off'])[:200]}")
            # the stated assumption RxFoldInv, on the real `re` objects: every regex token except the known
            # case-sensitive base type BOOL has the same row on a text and on each of its case variants
            if case["cfg"].get("ignore_case"):
                for d in grp["ys"]:
                    for i, t in enumerate(obs["toks"]):
                        if t["k"] in ("re", "kw") and i not in obs["bool_nodes"] and d["rows"][i] != grp["x"]["rows"][i]:
                            return (f"assumption RxFoldInv fails for regex token {i} ({obs['nodes'][i].get('rule')!r}): "
                                    f"rows differ on {grp['x']['text']!r} / {d['text']!r}")
            # what the visitor built vs buildMM (kinds, and the flags the objects really match with; spelling up to
            # case) - for the meta-model under test and for every other meta-model of the case's history
            if "lits" in case:
                sides = [("", obs, o["compiled"])]
                for key, ckey in (("hist", "hist_compiled"), ("later", "later_compiled")):
                    for n, (rec, comp) in enumerate(zip(obs.get(key, []), o.get(ckey, []))):
                        sides.append((f"{key}[{n}] ", rec, comp))
                for tag, rec, comp in sides:
                    if "matchobjs" not in rec:
                        continue
                    exp = set()
                    for c in comp:
                        if c["k"] == "kw":
                            exp.add(("kw", c["v"].lower(), c["pat"].lower(), c["ic"]))
                        else:
                            exp.add((c["k"], c["v"].lower(), c["ic"]))
                    for m in rec["matchobjs"]:
                        key_ = tuple(x.lower() if isinstance(x, str) else x for x in m)
                        if key_ not in exp:
                            return (f"{tag}Match object {tuple(m)} is not what buildMM yields for the grammar's literals "
                                    f"after this history")
            # prediction of C20_partial on the real code
            hyp = o["hyp"]
            for j, d in enumerate(grp["ys"]):
                if hyp["allic"] and hyp["wsneutral"] and hyp["foldeq"][j] and hyp["rxeq"][j]:
                    if "Timeout" in (d["parse"].get("other"), grp["x"]["parse"].get("other")):
                        continue
                    if d["parse"] != grp["x"]["parse"]:
                        return (f"hypotheses of C20_partial hold for {grp['x']['text']!r} / {d['text']!r} but the real "
                                f"outcomes differ: {str(grp['x']['parse'])[:200]} vs {str(d['parse'])[:200]}")
        return None

    # ---- oracle ----------------------------------------------------------------
    def oracle(self, case, obs):
        if "groups" not in obs or not case["cfg"].get("ignore_case"):
            return None
        textual = case.get("textual") or {}
        for grp in obs["groups"]:
            x = grp["x"]
            f = self_failure(x, textual)
            if f:
                return f
            if "ok" not in x["load"]:
                continue
            for d in grp["ys"]:
                if d["wild"]:
                    f = self_failure(d, textual)
                else:
                    f = pair_failure(x, d, textual)
                if f:
                    return f
        return None

    def classify(self, case, obs, failure):
        if "groups" not in obs:
            return None
        textual = case.get("textual") or {}
        hit = False
        for grp in obs["groups"]:
            x = grp["x"]
            if self_failure(x, textual):
                return None
            if "ok" not in x["load"]:
                continue
            fails = [d for d in grp["ys"] if (self_failure(d, textual) if d["wild"] else pair_failure(x, d, textual))]
            if not fails:
                continue
            if grp.get("bool_ci_left") == [] and grp.get("bool_rows_differ"):
                hit = True
            else:
                return None
        return KF_BOOL if hit else None

    def nontrivial(self, case, obs):
        if not case["cfg"].get("ignore_case"):
            return False
        for grp in obs.get("groups", []):
            if "ok" in grp["x"]["load"] and any(not d["wild"] for d in grp["ys"]):
                return True
        return False

    def sample_view(self, case, obs):
        v = {"grammar": case["grammar"], "cfg": case["cfg"], "stream": case.get("stream")}
        if "groups" in obs:
            v["texts"] = [{"text": g["x"]["text"], "load": str(g["x"]["load"])[:100],
                           "variants": [[d["text"], d["wild"], str(d["load"])[:60]] for d in g["ys"]]}
                          for g in obs["groups"]]
        else:
            v["obs"] = obs
        return v

    def extra_evidence(self, cases, obs, outs):
        groups = [g for o in obs for g in o.get("groups", [])]
        acc = [g for g in groups if "ok" in g["x"]["load"]]
        nv = sum(1 for g in acc for d in g["ys"] if not d["wild"])
        hyp_ok = hyp_all = 0
        for o in outs:
            for g in (o or {}).get("outs", []) if o else []:
                h = g.get("hyp")
                if h:
                    for a, b in zip(h["foldeq"], h["rxeq"]):
                        hyp_all += 1
                        hyp_ok += bool(h["allic"] and h["wsneutral"] and a and b)
        def flips(c):
            return [e for e in c.get("history", []) + c.get("later", [])
                    if bool(e["cfg"].get("ignore_case")) != bool(c["cfg"].get("ignore_case"))]
        esc = _re.compile(r"""(?<!\\)(?:\\\\)*\\[^\\]""")
        return {"no_mirror_cases": sum(1 for o in obs if "nomirror" in o),
                "no_mirror_reasons": sorted({o["nomirror"] for o in obs if "nomirror" in o})[:5],
                "keyword_match_cases": sum(1 for o in obs if any(t.get("k") == "kw" for t in o.get("toks", []))),
                "history_cases": sum(1 for c in cases if c.get("history") or c.get("later")),
                "history_cases_ignore_case_flipped": sum(1 for c in cases if flips(c)),
                "multi_file_cases": sum(1 for c in cases if c.get("files")),
                "cases_with_escape_sequences": sum(1 for c in cases if esc.search(_re.sub(r"/[^/\n]*/", "", c["grammar"]))),
                "cases_with_non_keyword_letter_literals": sum(
                    1 for c in cases if any(l["k"] == "str" and any(has_case(ch) for ch in l["v"])
                                            and not _re.fullmatch(r"[^\d\W]\w*", l["v"]) for l in c.get("lits", []))),
                "texts": len(groups), "accepted_texts": len(acc), "literal_variants": nv,
                "aborted_cases": sum(1 for o in obs if o.get("aborted")),
                "timeouts": sum(1 for g in groups for d in [g["x"]] + g["ys"]
                                if "Timeout" in (d["parse"].get("other"), d["load"].get("other"))),
                "wild_variants": sum(1 for g in groups for d in g["ys"] if d["wild"]),
                "variants_accepted": sum(1 for g in acc for d in g["ys"] if not d["wild"] and "ok" in d["load"]),
                "pairs_with_theorem_hypotheses": hyp_ok, "pairs": hyp_all,
                "grammar_errors": sum(1 for o in obs if "grammar_error" in o),
                "exhaustive_groups": sum(1 for c, o in zip(cases, obs) if c.get("exhaustive") for g in o.get("groups", [])
                                         if sum(1 for d in g["ys"] if not d["wild"]) in (1, 3, 7, 15, 31, 63)),
                "streams": {s: sum(1 for c in cases if c.get("stream") == s) for s in ("random", "simple", "link", "corpus")},
                "autokwd_cases": sum(1 for c in cases if c["cfg"].get("autokwd")),
                "use_regexp_group_cases": sum(1 for c in cases if c["cfg"].get("use_regexp_group")),
                "autokwd_and_use_regexp_group_cases": sum(1 for c in cases if c["cfg"].get("use_regexp_group")
                                                          and c["cfg"].get("autokwd") and c["cfg"].get("ignore_case")),
                "auto_init_attributes_off_cases": sum(1 for c in cases if c["cfg"].get("auto_init_attributes") is False),
                "cases_with_literal_valued_attributes": sum(
                    1 for c in cases if any(isinstance(k, dict) for m in (c.get("textual") or {}).values()
                                            for k in m.values())),
                "literal_attribute_values_checked": sum(
                    1 for c, o in zip(cases, obs) for g in o.get("groups", []) for d in [g["x"]] + g["ys"]
                    if "ok" in d["load"] for _p, k, _v in text_values(d["load"]["ok"], c.get("textual") or {})
                    if isinstance(k, dict)),
                "attribute_values_tied_to_tree_terminals": sum(
                    1 for c, o in zip(cases, obs) for g in o.get("groups", []) for d in [g["x"]] + g["ys"]
                    if "ok" in d["load"] and "mvals" in d
                    for _ in text_values(d["load"]["ok"], c.get("textual") or {})),
                "autokwd_off_models": sum(1 for o in obs if o.get("off")),
                "autokwd_off_errors": sorted({o["off_error"] for o in obs if o.get("off_error")})[:5],
                "texts_parsed_with_and_without_autokwd": sum(1 for g in groups for d in [g["x"]] + g["ys"]
                                                             if "parse_off" in d),
                "texts_without_glued_keyword": sum(sum(1 for b in (o2.get("akw") or {}).get("nogl", []) if b)
                                                   for o in outs if o for o2 in o.get("outs", [])),
                "engine_keyword_rows": sum(len(m.get("kwrows", [])) for o in outs if o for o2 in o.get("outs", [])
                                           for m in o2.get("outs", [])),
                "ignore_case_off_cases": sum(1 for c in cases if not c["cfg"].get("ignore_case"))}

    def shrink(self, case):
        for key in ("history", "later"):
            es = case.get(key, [])
            for k in range(len(es)):
                c = dict(case)
                c[key] = es[:k] + es[k + 1:]
                if not c[key]:
                    del c[key]
                yield c
        if len(case["texts"]) > 1:
            for t in case["texts"]:
                yield dict(case, texts=[t])
        for key in ("history", "later"):
            for k, e in enumerate(case.get(key, [])):
                if e.get("texts"):
                    c = dict(case)
                    c[key] = [dict(x, texts=[]) if n == k else x for n, x in enumerate(case[key])]
                    yield c
        if case.get("nvar", 4) > 1:
            yield dict(case, nvar=1)

    def extra_search(self, rng, tier, broken):
        for i in range(150):
            r = rng.fork(i)
            cfg = {"ignore_case": True}
            if r.chance(0.5):
                cfg["autokwd"] = True
            if r.fork("mmcfg").chance(0.5):
                cfg["use_regexp_group"] = True
            case = self.make_case(r, "simple", cfg, tier, p_history=0.5)
            case["nvar"] = 6
            yield case
