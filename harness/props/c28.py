"""C28 — model loading errors point at the offending text.

Implementation side: projects of 1..4 model files (harness/props/c28_lang.py)
with one injected error: a syntax error (garbage token inserted / a token
replaced by garbage / a mandatory token dropped), a reference to an unknown
object, a reference that stays postponed for ever, or a reference to a name
defined twice (PlainName) — located in the main file or in an imported one; the
other references follow random postponement schedules.  Observed: class / kind,
`filename`, `line`, `col` of the raised TextXError (and, for syntax errors,
Arpeggio's failure position `NoMatch.position`).

Lean side (Drivers/Positions.lean, op `error_loc`): `LinkLoc.run` on the same
texts, reference offsets and provider answers; for syntax errors the failure
position reported by Arpeggio is an input, attributed to the file the error
was injected in.

Direct oracle: from the texts alone — the reported file must be the file the
offending text was written to (None for strings) and (line, col) must be the
line / column of the offending text's first character in that file.
"""
import copy
import os

from harness.core import Check, use_repo
from harness.props import c28_lang as L

REPLACEABLE = {"kw", "arrow", "colon", "open", "close", "semi", "comma", "bang"}
DELETABLE = {"arrow", "colon"}


def classify_error(e):
    use_repo()
    from textx.exceptions import TextXSemanticError, TextXSyntaxError

    if isinstance(e, TextXSyntaxError):
        return "syntax"
    if isinstance(e, TextXSemanticError):
        if getattr(e, "err_type", None) == "Unknown object":
            return "unknown"
        msg = str(getattr(e, "message", ""))
        if msg.startswith("Unresolvable cross references"):
            return "unresolvable"
        if msg.endswith("is not unique."):
            return "notunique"
    return "other"


class Prop(Check):
    ID = "C28"
    LEAN_MODULE = "TextxVerif.Props.C28"
    THEOREMS = [
        "LinkLoc.C28_linecol", "LinkLoc.C28_linecol_identifies", "LinkLoc.C28_syntax", "LinkLoc.C28_syntax_raised",
        "LinkLoc.C28_ref", "LinkLoc.C28_total", "LinkLoc.C28_unresolvable_pinned_false",
        "LinkLoc.C28_notunique_pinned_false",
        "LinkLoc.C28_linecol_cr_dead", "LinkLoc.C28_unresolvable_first", "LinkLoc.C28_unresolvable_raised",
        "LinkLoc.C28_unresolvable_iff", "LinkLoc.C28_giveup_round_unique", "LinkLoc.C28_unresolvable_computed",
        "LinkLoc.C28_spec_reflects", "LinkLoc.C28_ref_strong", "LinkLoc.C28_linecol_meaning",
    ]
    DRIVER = "Drivers/Positions.lean"
    QUICK_CASES = 480
    THOROUGH_CASES = 40000
    PROCS_THOROUGH = 4  # builders share the machine; raise together with THOROUGH_CASES on a free one
    RULE = ("projects of 1..4 model files (main + imports, strings for single files), plain-name and qualified-name "
            "providers, random layout (blank lines, comments, tabs, non-ASCII), random postponement schedules, one "
            "injected error of each kind (syntax: insert / replace / drop a token; unknown object; reference postponed "
            "for ever; name defined twice); non-trivial = an error was raised whose offending text is in an imported "
            "file or not on the first line of the main file")
    MODELLED = ("hand-modelled: arpeggio Parser.pos_to_linecol, model.py _parse (TextXSyntaxError), resolve_one_step "
                "(Unknown object), main resolution loop (Unresolvable cross references), providers.py PlainName "
                "(not unique) as LinkLoc.run; tie X op error_loc on the same texts / offsets / provider answers; "
                "Arpeggio's furthest-failure position is an input of the model (NoMatch.position observed), its "
                "identity with the injected offset is checked by the direct oracle; not exhibited: the parser itself")
    ASSUMPTIONS = [
        "positions handed to pos_to_linecol lie inside the text (<= len): true for parse-tree nodes and NoMatch.position",
        "a scope provider is a function of (reference, number of earlier calls for it); the wrapper used by the harness is",
        "models are resolved round-robin in load order (main first, imports depth-first) as get_included_models returns them "
        "(compared for loads ending in 'unresolvable': the complete sequence of provider calls against LinkLoc.askTrace)",
    ]

    # ------------------------------------------------------------------ gen
    def gen(self, rng, n, tier):
        for k in range(n):
            kind = rng.weighted([("syntax", 5), ("unknown", 5), ("unresolvable", 4), ("notunique", 4), ("none", 1),
                                 ("garbage", 1)])
            r = rng.fork(f"case{k}")
            case = self.make(r, kind)
            if case is not None:
                yield case

    def make(self, rng, kind):
        mode = "plain" if kind == "notunique" else None
        # how the files get to know each other (see c28_lang.gen_project): import statements, a global
        # repository of registered files, builtin models — the last two also with a STRING as main model,
        # the only way a model without file name takes part in a multi-file project
        link = rng.weighted([("import", 6), ("global", 3), ("builtin", 2)])
        if link == "import":
            case = L.gen_project(rng, mode=mode)
        else:
            case = L.gen_project(rng, mode=mode, link=link, as_str=rng.chance(0.6))
        case["kind"] = kind
        case["tools"] = rng.chance(0.2)
        if not case["str"] and rng.chance(0.15) and not any(0 in f["imports"] for f in case["files"]):
            # (no import cycle through the main file: textX would read the main file from disk for it)
            case["vname"] = True  # main text given as a string + file_name (file not on disk), imports still work
        # files whose text is read by the observed load (builtin models are finished before)
        live = L.file_order(case)
        refs = [(fi, r) for fi, r in L.all_refs(case) if fi in live]
        if kind == "notunique" and link != "import" and rng.chance(0.6):
            # prefer a reference whose target lives in another file than the reference
            holders = {}
            for fi, f in enumerate(case["files"]):
                for nm in L.item_names(f["elems"]):
                    holders[nm] = fi
            far = [(fi, r) for fi, r in refs if holders.get(r["target"]) != fi]
            refs = far or refs
        if kind == "none":
            return case
        if kind == "garbage":
            # malformed stream: the main text is garbage from its first character on / somewhere inside
            R = L.render(case)
            fi = rng.choice(live)
            case["inject"] = {"kind": "syntax", "file": fi, "tok": rng.choice([0, len(R.tokens[fi])]), "how": "insert",
                              "garbage": rng.choice(L.GARBAGE) * rng.randint(1, 3)}
            case["kind"] = "syntax"
            return case
        if kind == "syntax":
            R = L.render(case)
            fi = rng.choice(live)
            toks = R.tokens[fi]
            how = rng.weighted([("insert", 7), ("replace", 2), ("delete", 1)])
            if how == "insert":
                k = rng.below(len(toks) + 1)
            else:
                roles = REPLACEABLE if how == "replace" else DELETABLE
                cand = [i for i, t in enumerate(toks) if t[3] in roles]
                if not cand:
                    how, k = "insert", rng.below(len(toks) + 1)
                else:
                    k = rng.choice(cand)
            case["inject"] = {"kind": "syntax", "file": fi, "tok": k, "how": how, "garbage": rng.choice(L.GARBAGE)}
            return case
        if not refs:
            return None
        if kind == "unknown":
            fi, r = rng.choice(refs)
            r["unknown"] = True
            r["target"] = "nope%d" % r["id"]
            path = [r["target"]]
            if case["mode"] == "fqn" and rng.chance(0.5):
                pk = [p for p in L.item_paths(case).values() if len(p) > 1]
                if pk:
                    path = rng.choice(pk)[:-1] + path
            r["target_path"] = path
            return case
        if kind == "unresolvable":
            for fi, r in rng.sample(refs, rng.weighted([(1, 4), (2, 2), (3, 1)])):
                r["wait"] = L.FOREVER
            return case
        if kind == "notunique":
            fi, r = rng.choice(refs)
            name = r["target"]
            # the file that defines the target
            def holder(elems):
                for e in elems:
                    if e["k"] == "item" and e["name"] == name:
                        return elems
                    if e["k"] == "pkg":
                        h = holder(e["elems"])
                        if h is not None:
                            return h
                return None

            for di, f in enumerate(case["files"]):
                if holder(f["elems"]) is not None:
                    pkgs = [f["elems"]]

                    def collect(elems):
                        for e in elems:
                            if e["k"] == "pkg":
                                pkgs.append(e["elems"])
                                collect(e["elems"])

                    collect(f["elems"])
                    where = rng.choice(pkgs)
                    where.insert(rng.below(len(where) + 1), {"k": "item", "name": name, "dup": True})
                    case["dup"] = {"name": name, "file": di}
                    return case
        return None

    # ----------------------------------------------------------------- impl
    def impl(self, case):
        R = L.render(case)
        model, exc, log, tmp, mm = L.load_project(case, R, bool(case.get("tools")))
        try:
            if exc is None:
                return {"outcome": "ok", "log": log}
            use_repo()
            from textx.exceptions import TextXError

            if not isinstance(exc, TextXError):
                return {"outcome": "other", "type": type(exc).__name__, "msg": str(exc)[:200], "log": log}
            fn = getattr(exc, "filename", None)
            nmpos = None
            cause = getattr(exc, "__cause__", None)
            if cause is not None and hasattr(cause, "position"):
                nmpos = cause.position
            return {"outcome": "err", "cls": type(exc).__name__, "kind": classify_error(exc),
                    "file": None if fn is None else os.path.basename(str(fn)),
                    "dir_ok": fn is None or tmp is None or os.path.dirname(os.path.abspath(str(fn))) == os.path.abspath(tmp),
                    "line": exc.line, "col": exc.col, "nmpos": nmpos, "log": log}
        finally:
            L.cleanup(tmp)

    # ---------------------------------------------------------------- model
    def model_req(self, case, obs):
        R = L.render(case)
        nm = None
        inj = case.get("inject")
        if inj and inj.get("kind") == "syntax":
            pos = obs.get("nmpos") if obs.get("outcome") == "err" and obs.get("kind") == "syntax" else None
            if pos is None and R.inject_offset is not None:
                pos = R.inject_offset[1]
            nm = {inj["file"]: pos}
        elif obs.get("outcome") == "err" and obs.get("kind") == "syntax":
            # a syntax error nobody injected: let the model say what it thinks (no error) -> disagreement
            nm = None
        files, rootidx = L.lean_files(case, R, nm)
        dup = case.get("dup")

        def final(r):
            if r["unknown"]:
                return "U"
            if dup and r["target"] == dup["name"]:
                return ["N", rootidx.get(dup["file"], 0)]
            return ["R", None, 0, 0]

        return {"op": "error_loc", "files": files, "ans": L.answer_table(case, R, final)}

    def compare(self, case, obs, out):
        if "err" in out and isinstance(out["err"], str):
            return f"model rejected the request: {out}"
        if obs["outcome"] == "other":
            return f"implementation raised {obs['type']} ({obs['msg']}); model: {out}"
        if "crash" in out:
            return f"model predicts a non-textX exception; implementation: {obs['outcome']}"
        if any(rid is None for rid, _ in obs.get("log", [])):
            return ("a scope provider was asked for a reference at a (file, offset) that is not the start of a "
                    "reference text of the project (the reference offsets handed to the model are not the real ones)")
        if "ok" in out:
            if obs["outcome"] != "ok":
                return f"model loads the project; implementation raised {obs.get('kind')} at {obs.get('file')}:{obs.get('line')}:{obs.get('col')}"
            return None
        e = out["err"]
        if obs["outcome"] != "err":
            return f"model predicts {e}; implementation loaded the project"
        got = (obs["kind"], obs["file"], obs["line"], obs["col"])
        want = (e["kind"], e["file"], e["line"], e["col"])
        if got != want:
            return f"error (kind, file, line, col): implementation {got}, model {want}"
        if e["kind"] == "unresolvable":
            # the declarative specification (LinkLocSpec.lean: giveUpRound / firstPending / askTrace,
            # theorem C28_unresolvable_computed) against the real code: location, and the complete
            # sequence of scope-provider calls (rounds 0..K, models in load order, pending
            # references in text order, each asked once per round)
            spec = out.get("spec")
            if not spec:
                return f"the specification predicts no give-up round; loop model and implementation: {want}"
            swant = ("unresolvable", spec["file"], spec["line"], spec["col"])
            if got != swant:
                return f"error (kind, file, line, col): implementation {got}, specification {swant}"
            asked = [rid for rid, _ in obs.get("log", [])]
            if asked != spec["asked"]:
                return (f"scope-provider calls (reference ids in order): implementation {asked}, "
                        f"specification {spec['asked']} ({spec['rounds']} rounds)")
        return None

    # --------------------------------------------------------------- oracle
    def oracle(self, case, obs):
        if obs["outcome"] == "other":
            return f"loading raised a non-textX exception {obs['type']}: {obs['msg']}"
        if obs["outcome"] == "ok":
            return None  # no error raised: nothing to locate (the correspondence reports a missing error)
        R = L.render(case)
        kind = obs["kind"]
        want_file = lambda fi: None if case["str"] and fi == 0 else L.fname(fi)  # noqa: E731
        if not obs.get("dir_ok", True):
            return f"error names a file outside the project directory ({obs['file']})"
        cands = []  # (file index, offset) of offending texts for this kind of error
        if kind == "syntax":
            if R.inject_offset is not None:
                cands = [R.inject_offset]
        elif kind == "unknown":
            cands = [(r["file"], r["start"]) for r in R.refs if r["unknown"]]
        elif kind == "notunique":
            dup = case.get("dup")
            if dup:
                cands = [(r["file"], r["start"]) for r in R.refs if r["target"] == dup["name"] and not r["unknown"]]
        elif kind == "unresolvable":
            last = {}
            for rid, what in obs.get("log", []):
                last[rid] = what
            cands = [(r["file"], r["start"]) for r in R.refs if last.get(r["id"]) == "P"]
        else:
            return f"unexpected error class {obs['cls']} while loading"
        if not cands:
            return (f"{kind} error at {obs['file']}:{obs['line']}:{obs['col']} but the project contains no offending "
                    f"text of that kind")
        got = (obs["file"], obs["line"], obs["col"])
        wants = []
        for fi, off in cands:
            line, col = L.linecol(R.texts[fi], off)
            wants.append((want_file(fi), line, col))
        if got not in wants:
            return (f"{kind} error reported at (file, line, col) = {got}; the offending text is at "
                    f"{wants[0] if len(wants) == 1 else wants}")
        return None

    def nontrivial(self, case, obs):
        if obs.get("outcome") != "err":
            return False
        return obs.get("file") not in (None, L.fname(0)) or (obs.get("line") or 0) > 1

    def sample_view(self, case, obs):
        R = L.render(case)
        return {"kind": case.get("kind"), "mode": case["mode"], "str": case["str"], "texts": R.texts,
                "inject": case.get("inject"), "impl": {k: v for k, v in obs.items() if k != "log"}}

    def extra_evidence(self, cases, obs, model_outs):
        dist = {}
        imported = 0
        for c, o in zip(cases, obs):
            if not isinstance(o, dict) or "__crash__" in o:
                continue
            k = o.get("kind") if o.get("outcome") == "err" else o.get("outcome")
            dist[k] = dist.get(k, 0) + 1
            if o.get("outcome") == "err" and o.get("file") not in (None, L.fname(0)):
                imported += 1
        return {"distribution": {"outcome": dist, "errors_in_imported_files": imported,
                                 "multi_file": sum(1 for c in cases if len(c["files"]) > 1),
                                 "strings": sum(1 for c in cases if c["str"]),
                                 "link": {k: sum(1 for c in cases if c.get("link", "import") == k)
                                          for k in ("import", "global", "builtin")},
                                 "string_with_file_name": sum(1 for c in cases if c.get("vname")),
                                 "string_main_with_files": sum(1 for c in cases if c["str"] and len(c["files"]) > 1),
                                 "string_main_error_about_file": self._cross(cases, obs)}}

    @staticmethod
    def _cross(cases, obs):
        """errors located in a string main model whose reference targets an item defined in a file"""
        n = 0
        for c, o in zip(cases, obs):
            if not isinstance(o, dict) or o.get("outcome") != "err" or not c["str"] or len(c["files"]) < 2:
                continue
            if o.get("file") is None and o.get("kind") in ("notunique", "unresolvable"):
                n += 1
        return n

    # --------------------------------------------------------------- shrink
    def shrink(self, case):
        """drop one top-level / nested element that nothing depends on"""
        if (case.get("inject") or {}).get("kind") == "syntax":
            return  # token indices would shift
        needed = {r["target"] for _, r in L.all_refs(case)}

        def variants(elems, rebuild):
            for i, e in enumerate(elems):
                if e["k"] == "item" and (e["name"] in needed):
                    continue
                yield rebuild(elems[:i] + elems[i + 1:])
                if e["k"] == "pkg":
                    yield from variants(e["elems"], lambda sub, i=i, e=e: rebuild(elems[:i] + [dict(e, elems=sub)] + elems[i + 1:]))
                if e["k"] == "use" and len(e["targets"]) > 1:
                    for j in range(len(e["targets"])):
                        yield rebuild(elems[:i] + [dict(e, targets=e["targets"][:j] + e["targets"][j + 1:])] + elems[i + 1:])

        for fi, f in enumerate(case["files"]):
            for new_elems in variants(f["elems"], lambda x: x):
                c = copy.deepcopy(case)
                c["files"][fi]["elems"] = copy.deepcopy(new_elems)
                if L.all_refs(c):
                    yield c

    def extra_search(self, rng, tier, broken):
        return list(self.gen(rng, 1500, tier))
