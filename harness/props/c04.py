"""C04 — built-in base types convert text to values faithfully.

Three kinds of cases, all against the real code of the tree under test:

  tokens  `Model: v*=TYPE;` loaded from a text made of literals and separators
          -> the list of converted values (or the error position).  Lean side:
          `BaseTypes.tokens` (generated regexes + generated conversion lambdas).
          The direct oracle compares the values with the Python values the
          literals were written from (property statement, no model).
  re      the live compiled regex of a base type (`lang.X.regex.match(text, pos)`)
          against `Re.pyMatch` on the generated AST: engine + translator.
  proc    the live default conversion lambdas against `Gen.Procs`.

A tokens case may carry `hist` (round X04): the line is then loaded through a *fresh* meta-model
(`v*=` / `v+=` / `v=TYPE`, construction parameters) that went through a history of
`register_obj_processors` calls (on it and on another meta-model) and earlier loads; at the end the
built-in conversion of the type is in force by the documented semantics ("registration replaces the
previous one") and the property's conclusion applies.  Lean side: `Registry.after`.
"""
import math
import re

from harness.core import Check, use_repo

TYPES = ["STRING", "INT", "FLOAT", "STRICTFLOAT", "NUMBER", "BOOL"]
REGEXES = ["ID", "BOOL", "INT", "FLOAT", "STRICTFLOAT", "STRING"]
BOOLS = [("True", True), ("true", True), ("False", False), ("false", False), ("0", False), ("1", True)]
STR_ALPHA = ["a", " ", '"', "'", "\\", "\n"]
UNI = ["é", "ß", "λ", "Ж", "中", "٣", "𝟙", " ", " ", "😀", "é", "\t", "\r"]
WS = " \t\n\r"

_mm_cache = {}


def _mm(ty):
    use_repo()
    if ty not in _mm_cache:
        from textx import metamodel_from_str

        _mm_cache[ty] = metamodel_from_str(f"Model: v*={ty};")
    return _mm_cache[ty]


def cps(s):
    return [ord(c) for c in s]


# ---------------------------------------------------------------------- histories (round X04)
# The property speaks about the *built-in* conversions.  They have to be in force on every meta-model on which no
# user processor is currently registered for the base type -- whatever happened before on this meta-model (earlier
# registrations that were replaced since: "registration of new object processors will replace previous"), on other
# meta-models of the same process, and whatever construction parameters that do not concern base types were given.
BASE_KEYS = ["INT", "FLOAT", "STRICTFLOAT", "BOOL", "STRING", "NUMBER"]
RELEVANT = {"NUMBER": ["NUMBER", "INT", "STRICTFLOAT"]}


def _hex(x):
    try:
        return int(x, 16)
    except Exception:
        return x


USER_PROCS = {  # user processors a history may register for a base type (none of them is a faithful conversion)
    "hex": _hex,
    "raw": lambda x: x,
    "tag": lambda x: "<" + str(x) + ">",
    "len": lambda x: len(str(x)),
    "obj": lambda o: None,  # for the user class `Model`
}
OPT_KEYS = ["memoization", "use_regexp_group", "autokwd"]


def relevant_keys(ty):
    return RELEVANT.get(ty, [ty])


def hist_grammar(case):
    h = case.get("hist") or {}
    return f"Model: v{h.get('form', '*=')}{case['type']};"


def builtins_in_force(case):
    """does the documented semantics put the built-in conversion of the case's type in force at the final parse?
    (the last registration on the meta-model under test mentions none of the type's keys)"""
    h = case.get("hist")
    if not h:
        return True
    last = None
    for st in h.get("steps", []):
        if st["op"] == "reg" and st["on"] == "self":
            last = st
    return last is None or not any(k in last["procs"] for k in relevant_keys(case["type"]))


INFORCE_KEYS = BASE_KEYS + ["Model", "ID"]


def reg_history(case):
    """the register_obj_processors calls on the meta-model under test, in order (what `Registry.after` folds over)"""
    return [[[k, v] for k, v in st["procs"].items()] for st in case["hist"].get("steps", [])
            if st["op"] == "reg" and st["on"] == "self"]


def in_force(mm):
    """which callable the meta-model's processor table binds to every key: 'builtin' / 'user:NAME' / 'none'
    (None when the table is not where the class docstring says it is: then nothing is compared)"""
    tab = getattr(mm, "_obj_processors", None)
    if not isinstance(tab, dict):
        return None
    names = {id(f): n for n, f in USER_PROCS.items()}
    out = []
    for k in INFORCE_KEYS:
        f = tab.get(k)
        out.append("none" if f is None else "user:" + names[id(f)] if id(f) in names else "builtin")
    return out


def run_history(case):
    """a fresh meta-model with the case's construction parameters, taken through the case's history"""
    from textx import metamodel_from_str

    h = case["hist"]
    g = hist_grammar(case)
    opts = {k: True for k in OPT_KEYS if h.get("opts", {}).get(k)}
    other = metamodel_from_str(g, **opts) if h.get("other_first") else None
    mm = metamodel_from_str(g, **opts)
    for st in h.get("steps", []):
        if st["op"] == "reg":
            if st["on"] == "self":
                target = mm
            else:
                if other is None:
                    other = metamodel_from_str(g, **opts)
                target = other
            target.register_obj_processors({k: USER_PROCS[v] for k, v in st["procs"].items()})
        elif st["op"] == "parse":
            target = mm if st["on"] == "self" else other
            if target is not None:
                try:
                    target.model_from_str(uncps(st["text"]))
                except Exception:
                    pass  # earlier loads may fail (syntax errors, a user processor that raises)
        else:
            raise ValueError(st["op"])
    return mm


def uncps(l):
    return "".join(chr(c) for c in l)


def cc_of(text):
    """Python's classification of the non-ASCII characters of a text."""
    d, w, s = [], [], []
    for ch in sorted(set(text)):
        if ord(ch) < 128:
            continue
        if re.match(r"\d", ch):
            d.append(ord(ch))
        elif re.match(r"\w", ch):
            w.append(ord(ch))
        if re.match(r"\s", ch):
            s.append(ord(ch))
    return {"d": d, "w": w, "s": s, "f": []}


def escape(q, s):
    return s.replace(q, "\\" + q)


def encode(q, s):
    return q + escape(q, s) + q


def value_view(v):
    if isinstance(v, bool):
        return {"b": v}
    if isinstance(v, int):
        return {"i": str(v)}
    if isinstance(v, float):
        return {"f": v.hex() if math.isfinite(v) else repr(v)}
    if isinstance(v, str):
        return {"s": cps(v)}
    return {"other": type(v).__name__}


def expected_view(item):
    k = item["k"]
    if k == "str":
        return {"s": item["s"]}
    if k == "int":
        return {"i": item["v"]}
    if k == "float":
        return {"f": item["v"]}
    if k == "bool":
        return {"b": item["v"]}
    raise ValueError(k)


def item_text(item):
    if item["k"] == "str":
        return encode(item["q"], uncps(item["s"]))
    return item["text"]


def build_text(items, seps, tail=""):
    out = []
    for i, it in enumerate(items):
        out.append(seps[i] if i < len(seps) else " ")
        out.append(item_text(it))
    return "".join(out) + tail


class Prop(Check):
    ID = "C04"
    LEAN_MODULE = "TextxVerif.Props.C04"
    THEOREMS = [
        "BaseTypes.C04_string_match",
        "BaseTypes.C04_string_value",
        "BaseTypes.C04_string",
        "BaseTypes.C04_string_line",
        "BaseTypes.C04_string_trailing_backslash_false",
        "BaseTypes.C04_int_lit",
        "BaseTypes.C04_int",
        "BaseTypes.C04_float",
        "BaseTypes.C04_bool",
        "BaseTypes.C04_int_only",
        "BaseTypes.C04_number_line",
        "BaseTypes.C04_number_line_unseparated_false",
        "BaseTypes.C04_int_line",
        "BaseTypes.C04_float_line",
        "BaseTypes.C04_bool_line",
        "BaseTypes.C04_number_text",
        "BaseTypes.C04_number_line_text",
        "BaseTypes.C04_float_text",
        "BaseTypes.C04_line_checked",
        "BaseTypes.C04_string_text",
        "BaseTypes.C04_scanner_exact",
        "BaseTypes.C04_strInt_kind",
        "BaseTypes.C04_registration_replaces",
    ]
    DRIVER = "Drivers/Re.lean"
    PROCS_THOROUGH = 3
    QUICK_CASES = 600
    THOROUGH_CASES = 30000
    RULE = ("tokens cases: a text of 1..4 literals of one base type (strings over {a,space,\",',\\,newline} exhaustively "
            "up to a bounded length and random longer / Unicode ones in both quotings; ints and floats in every literal "
            "form; all BOOL spellings) with separators and continuations, through `Model: v*=TYPE;`; re cases: 40 texts "
            "per live regex; proc cases: live conversion lambdas.  non-trivial = a tokens case whose literals all satisfy "
            "the property's hypothesis and that contains an escaped quote, a backslash, a newline, a sign, an exponent, "
            "a '.' or more than one literal; or a re/proc case with at least one match.  history cases (round X04): the same "
            "lines on a fresh meta-model (`v*=`, `v+=`, `v=TYPE`; memoization / use_regexp_group / autokwd) taken through "
            "register_obj_processors calls with user processors for base types on it and on another meta-model and through "
            "earlier (also failing) loads, ending with a registration that does not mention the type")
    MODELLED = ("regenerated (tie T): the six base-type regexes of textx/lang.py (Python's re._parser -> Re.R) and the "
                "default conversion lambdas of textx/metamodel.py (ast -> Gen.Procs); hand-modelled: the regex engine "
                "(Re.m vs re.match, tie X op re), `v*=TYPE` + EOF with whitespace skipping (BaseTypes.tokens, tie X op "
                "tokens); the literal forms the theorems quantify over are tied to what Python prints: the Lean scanners "
                "intLit?/floatLit? (proved to be exactly the grammars IntLit.WF / FloatLit.WF asciiCC) classify every "
                "generated literal (str(int), repr, %e, %E, %g, %f, .5, 5., 12e5), `lineHyp` (the decidable hypotheses of "
                "C04_line_checked) is evaluated by the driver on every generated line and compared with the harness's "
                "own hypothesis predicate, the values the theorem promises are compared with the implementation, and "
                "Py.strInt is compared with str(int); the processor table (register_obj_processors = fresh copy of the "
                "defaults updated by the user's dict: Registry.after, theorem C04_registration_replaces) is compared with the "
                "live `_obj_processors` after every generated history; "
                "not exhibited: the numeric value computed by float() (int() is "
                "modelled: Py.intOf), Unicode classification (a parameter; Python's own tables are sent with each case)")
    ASSUMPTIONS = [
        "CPython: float(repr(x)) == x and float() accepts every literal the FLOAT regexes match",
        "sre: an empty loop iteration ends a loop (no loop body of the base-type regexes matches empty)",
        "Unicode classes enter the theorems as a parameter with the sanity facts `Re.Sane` (true of Python's tables)",
    ]
    _translate = None

    def __init__(self):
        from harness import translate_re

        self.TRANSLATE = translate_re.run

    # ------------------------------------------------------------------ generation
    def rand_string(self, rng, tier):
        n = rng.weighted([(0, 1), (1, 2), (2, 3), (3, 3), (5, 3), (9, 2), (20, 1)])
        n = rng.randint(0, n)
        alpha = STR_ALPHA + (UNI if rng.chance(0.4) else []) + ["b", "\\", '"', "'"]
        s = "".join(rng.choice(alpha) for _ in range(n))
        return s

    def rand_int_item(self, rng):
        kind = rng.weighted([("small", 4), ("mid", 3), ("big", 2), ("zero", 1)])
        if kind == "small":
            v = rng.randint(-20, 20)
        elif kind == "mid":
            v = rng.randint(-10**9, 10**9)
        elif kind == "big":
            v = rng.randint(-10**40, 10**40) * rng.randint(1, 10**20)
        else:
            v = 0
        form = rng.weighted([("str", 6), ("plus", 2), ("zeros", 2), ("negzero", 1)])
        text = str(v)
        if form == "plus" and v >= 0:
            text = "+" + text
        elif form == "zeros":
            text = ("-" if v < 0 else "") + "0" * rng.randint(1, 3) + str(abs(v))
        elif form == "negzero" and v == 0:
            text = "-0"
        return {"k": "int", "text": text, "v": str(v)}

    def rand_float_item(self, rng, strict):
        kind = rng.weighted([("simple", 3), ("unit", 2), ("wide", 3), ("tiny", 1), ("huge", 1), ("intlike", 2)])
        if kind == "simple":
            x = rng.randint(-1000, 1000) / rng.choice([1, 2, 4, 8, 10, 100, 3, 7])
        elif kind == "unit":
            x = rng.next() / float(1 << 64)
        elif kind == "wide":
            x = (rng.next() / float(1 << 64) - 0.5) * 10.0 ** rng.randint(-30, 30)
        elif kind == "tiny":
            x = rng.choice([5e-324, 2.2250738585072014e-308, 1e-300, -1e-310])
        elif kind == "huge":
            x = rng.choice([1.7976931348623157e308, -1e308, 1e22, 1e16, 123456789012345678.0])
        else:
            x = float(rng.randint(-50, 50))
        form = rng.weighted([("repr", 5), ("e", 2), ("E", 1), ("g", 2), ("f", 2), ("plus", 1), ("dotfirst", 1),
                             ("dotlast", 1), ("intexp", 1)])
        if form == "repr":
            text = repr(x)
        elif form == "e":
            text = "%.*e" % (rng.randint(0, 17), x)
        elif form == "E":
            text = "%.*E" % (rng.randint(0, 17), x)
        elif form == "g":
            text = "%.*g" % (rng.randint(1, 17), x)
        elif form == "f":
            text = "%.*f" % (rng.randint(0, 6), x) if abs(x) < 1e20 else repr(x)
        elif form == "plus":
            text = ("+" if x >= 0 and not str(x).startswith("-") else "") + repr(x)
        elif form == "dotfirst":
            text = ("-" if rng.chance(0.3) else "") + "." + str(rng.randint(0, 99999))
        elif form == "dotlast":
            text = ("-" if rng.chance(0.3) else "") + str(rng.randint(0, 99999)) + "."
        else:
            text = str(rng.randint(-999, 999)) + rng.choice(["e", "E"]) + rng.choice(["", "+", "-"]) + str(rng.randint(0, 30))
        if text in ("inf", "-inf", "nan") or "inf" in text or "nan" in text:
            text = "1.5"
        if strict and not any(c in text for c in ".eE"):
            text += rng.choice([".", ".0", "e0"])
        v = float(text)
        if not math.isfinite(v):
            text, v = "2.5", 2.5
        return {"k": "float", "text": text, "v": v.hex()}

    def rand_item(self, rng, ty, tier):
        if ty == "STRING":
            return {"k": "str", "q": rng.choice(['"', "'"]), "s": cps(self.rand_string(rng, tier))}
        if ty == "INT":
            return self.rand_int_item(rng)
        if ty == "FLOAT":
            if rng.chance(0.2):  # FLOAT also reads digits only
                it = self.rand_int_item(rng)
                return {"k": "float", "text": it["text"], "v": float(it["text"]).hex()} if abs(int(it["v"])) < 10**300 else self.rand_float_item(rng, False)
            return self.rand_float_item(rng, False)
        if ty == "STRICTFLOAT":
            return self.rand_float_item(rng, True)
        if ty == "NUMBER":
            return self.rand_int_item(rng) if rng.chance(0.45) else self.rand_float_item(rng, True)
        if ty == "BOOL":
            t, v = rng.choice(BOOLS)
            return {"k": "bool", "text": t, "v": v}
        raise ValueError(ty)

    def tokens_case(self, rng, ty, tier):
        n = rng.weighted([(1, 4), (2, 3), (3, 2), (4, 1)])
        items = [self.rand_item(rng, ty, tier) for _ in range(n)]
        seps = [""] + [rng.choice([" ", "\n", "\t", "  ", " \r\n"]) for _ in range(n - 1)]
        if rng.chance(0.2):
            seps[0] = rng.choice([" ", "\n"])
        if ty == "STRING" and rng.chance(0.3):  # strings may touch each other
            seps = [seps[0]] + [rng.choice(["", " "]) for _ in range(n - 1)]
        tail = rng.choice(["", "", " ", "\n"])
        return {"k": "tokens", "type": ty, "items": items, "seps": seps, "tail": tail,
                "text": cps(build_text(items, seps, tail))}

    # ---- histories (round X04)
    def rand_procs(self, rng, ty, must_lack=False, must_have=False):
        """a user registration: processors for some base types and / or the user class"""
        rel = relevant_keys(ty)
        procs = {}
        for k in BASE_KEYS:
            p = 0.6 if k in rel else 0.3
            if k in rel and must_lack:
                continue
            if rng.chance(p) or (must_have and k == rel[-1]):
                procs[k] = rng.choice(["hex", "raw", "tag", "len"])
        if rng.chance(0.3):
            procs["Model"] = "obj"
        return procs

    def sample_text(self, rng, ty, tier):
        if rng.chance(0.3):
            return cps(rng.choice(self.MALFORMED[ty]))
        return self.tokens_case(rng, ty, tier)["text"]

    def rand_hist(self, rng, ty, tier, has_items):
        steps = []
        for _ in range(rng.weighted([(1, 3), (2, 4), (3, 3), (4, 1)])):
            op = rng.weighted([("reg-self", 5), ("reg-other", 2), ("parse-self", 2), ("parse-other", 1)])
            if op.startswith("reg"):
                steps.append({"op": "reg", "on": op[4:], "procs": self.rand_procs(rng, ty, must_have=rng.chance(0.6))})
            else:
                steps.append({"op": "parse", "on": op[6:], "text": self.sample_text(rng, ty, tier)})
        h = {"opts": {k: True for k in OPT_KEYS if rng.chance(0.2)},
             "form": (("=" if has_items == 1 and rng.chance(0.5) else "+=") if has_items and rng.chance(0.4) else "*="),
             "other_first": rng.chance(0.5), "steps": steps}
        probe = {"type": ty, "hist": h}
        if not builtins_in_force(probe):
            # the registration is replaced by one that does not mention the type: the built-in conversion is back
            if rng.chance(0.3):
                steps.append({"op": "parse", "on": "self", "text": self.sample_text(rng, ty, tier)})
            steps.append({"op": "reg", "on": "self", "procs": self.rand_procs(rng, ty, must_lack=True)})
        return h

    def canonical_hists(self, ty):
        """the shortest histories of every kind, for every type and every run"""
        allp = {k: p for k, p in zip(BASE_KEYS, ["hex", "raw", "tag", "raw", "raw", "tag"])}
        others = {k: v for k, v in allp.items() if k not in relevant_keys(ty)}
        sample = {"STRING": '"a" \'b\'', "INT": "10 -3", "FLOAT": "1.5 2", "STRICTFLOAT": "1.5 2e3", "NUMBER": "1 2.5",
                  "BOOL": "true 0"}[ty]
        reg = lambda on, procs: {"op": "reg", "on": on, "procs": procs}  # noqa: E731
        hs = [
            [reg("self", allp), reg("self", {})],
            [reg("self", allp), {"op": "parse", "on": "self", "text": cps(sample)}, reg("self", {"Model": "obj"})],
            [reg("self", allp), reg("self", others)],
            [reg("self", {k: allp[k] for k in relevant_keys(ty)}), reg("self", {}), reg("self", {})],
            [reg("other", allp)],
            [reg("other", allp), {"op": "parse", "on": "other", "text": cps(sample)}, reg("self", {})],
            [reg("self", {}), {"op": "parse", "on": "self", "text": cps("?")}],
        ]
        out = []
        for i, steps in enumerate(hs):
            out.append({"opts": {}, "form": "*=", "other_first": i % 2 == 0, "steps": steps})
        for k in OPT_KEYS:
            out.append({"opts": {k: True}, "form": "+=", "other_first": False, "steps": []})
        out.append({"opts": {}, "form": "=", "other_first": False, "steps": []})
        out.append({"opts": {}, "form": "=", "other_first": False, "steps": hs[0]})
        return out

    def hist_cases(self, rng, n, tier):
        out = []
        r = rng.fork("hist-canonical")
        for ty in TYPES:
            for h in self.canonical_hists(ty):
                c = self.tokens_case(r, ty, tier)
                if h["form"] == "=":  # `v=TYPE` reads exactly one literal
                    c = dict(c, items=c["items"][:1], seps=c["seps"][:1])
                    c["text"] = cps(build_text(c["items"], c["seps"], c["tail"]))
                c["hist"] = h
                c["origin"] = "history-canonical"
                out.append(c)
        r = rng.fork("hist")
        weights = [("STRING", 4), ("INT", 3), ("FLOAT", 3), ("STRICTFLOAT", 2), ("NUMBER", 4), ("BOOL", 2)]
        for _ in range(n):
            ty = r.weighted(weights)
            if r.chance(0.12):
                c = {"k": "tokens", "type": ty, "items": None, "text": cps(r.choice(self.MALFORMED[ty]))}
            else:
                c = self.tokens_case(r, ty, tier)
            c["hist"] = self.rand_hist(r, ty, tier, len(c.get("items") or []))
            out.append(c)
        return out

    MALFORMED = {
        "STRING": ['"abc', "'a", '"a\\"', "abc", '"a" b', "'", '""" ', "'a''", '"a\\\\" "b"', '"\\', "'\\' 'x'", '"a\\" "z"'],
        "INT": ["12abc", "--5", "+", "1 2 x", "1_000", "0x10", "1-2", "1 - 2", "٣", "1.5", "+-1", "5 . 5"],
        "FLOAT": ["1.2.3", "1e", "1e+", ".", "1..2", "5.e3", "٣.٥", "1e5x", "1.5 .5 5.", "-.5e-3", "e5", "1.5e3.2", "1 .e1"],
        "STRICTFLOAT": ["12", "1e5", "1.", ".5", "1.2.3", "12 1.5", "1e", "5.x", "5. x", "٣.٥"],
        "NUMBER": ["12", "1.5", "1e5", "12abc", "1.2.3", "5.x", "5 .x", "1 2.5 3", "+1 -2.", "1e", "٣", "٣.٥ 1", "1.e1 1", "0.1.2"],
        "BOOL": ["True1", "truex", "true false 0 1", "TRUE", "01", "0 1", "tru", "1true", "false.", "true_", "trueé", "true-"],
    }

    def gen(self, rng, n, tier):
        out = []
        # --- exhaustive strings over the small alphabet (both quotings, three continuations)
        maxlen = 3 if tier == "quick" else 5
        conts = ["", ' "z"', "\n'q'"]

        def rec(prefix, depth):
            yield prefix
            if depth < maxlen:
                for a in STR_ALPHA:
                    yield from rec(prefix + a, depth + 1)

        for s in rec("", 0):
            for q in ('"', "'"):
                for ci, cont in enumerate(conts):
                    items = [{"k": "str", "q": q, "s": cps(s)}]
                    extra = []
                    if cont.strip():
                        inner = cont.strip()
                        extra = [{"k": "str", "q": inner[0], "s": cps(inner[1:-1])}]
                    text = encode(q, s) + cont
                    out.append({"k": "tokens", "type": "STRING", "items": items + extra,
                                "seps": ["", cont[0] if cont else ""], "tail": "", "text": cps(text), "origin": "exhaustive"})
        # --- all BOOL spellings, alone and in sequence
        for t, v in BOOLS:
            for tail in ("", " ", "\n", " 1"):
                items = [{"k": "bool", "text": t, "v": v}]
                if tail == " 1":
                    items.append({"k": "bool", "text": "1", "v": True})
                out.append({"k": "tokens", "type": "BOOL", "items": items, "seps": ["", " "], "tail": "" if tail == " 1" else tail,
                            "text": cps(t + tail)})
        # --- malformed stream
        for ty, texts in self.MALFORMED.items():
            for t in texts:
                out.append({"k": "tokens", "type": ty, "items": None, "text": cps(t)})
        # --- random structured cases
        r = rng.fork("tokens")
        weights = [("STRING", 5), ("INT", 3), ("FLOAT", 3), ("STRICTFLOAT", 2), ("NUMBER", 4), ("BOOL", 1)]
        for _ in range(n):
            out.append(self.tokens_case(r, r.weighted(weights), tier))
        # --- histories: earlier (replaced) registrations of user processors for base types on the same and on another
        #     meta-model, earlier loads, construction parameters; the built-in conversions must be in force at the end
        out.extend(self.hist_cases(rng, (2 * n) // 5, tier))
        # --- random mutations of well-formed texts (drop / duplicate / insert a character)
        r = rng.fork("mut")
        for _ in range(n // 4):
            c = self.tokens_case(r, r.weighted(weights), tier)
            t = uncps(c["text"])
            if t:
                i = r.below(len(t))
                op = r.below(3)
                if op == 0:
                    t = t[:i] + t[i + 1:]
                elif op == 1:
                    t = t[:i] + t[i] + t[i:]
                else:
                    t = t[:i] + r.choice(list("\"'\\.eE+-1 xé_")) + t[i:]
            out.append({"k": "tokens", "type": c["type"], "items": None, "text": cps(t)})
        # --- regex engine vs re
        r = rng.fork("re")
        alpha = {
            "STRING": STR_ALPHA + ["b"],
            "INT": list("0123456789+-. ex٣"),
            "FLOAT": list("0159+-..eE x_٣é"),
            "STRICTFLOAT": list("0159+-..eE x_٣é"),
            "BOOL": ["True", "true", "False", "false", "0", "1", "x", " ", "T", "e", "_", "é", "-"],
            "ID": list("ab1_ é-٣.") + ["́"],
        }
        nre = max(6, n // 40)
        for name in REGEXES:
            for _ in range(nre):
                items = []
                for _ in range(40):
                    ln = r.randint(0, 7)
                    t = "".join(r.choice(alpha[name]) for _ in range(ln))
                    prev = r.choice(alpha[name])[-1:] if r.chance(0.4) else ""
                    items.append([prev, t])
                out.append({"k": "re", "name": name, "items": [[cps(p), cps(t)] for p, t in items]})
        # --- conversion lambdas
        r = rng.fork("proc")
        for _ in range(max(20, n // 10)):
            q = r.choice(['"', "'"])
            body = "".join(r.choice(STR_ALPHA + ["b", "\\", '"', "'"]) for _ in range(r.randint(0, 8)))
            out.append({"k": "proc", "name": "STRING", "text": cps(q + body + q)})
        for t in ["True", "true", "False", "false", "0", "1", "TRUE", "tRuE", "10", "", "x", "FALSE"]:
            out.append({"k": "proc", "name": "BOOL", "text": cps(t)})
        for t in ["12", "-7", "+005", "123456789012345678901234567890"]:
            out.append({"k": "proc", "name": "INT", "text": cps(t)})
        for t in ["1.5", "-.5e3", "5.", "1E10"]:
            out.append({"k": "proc", "name": "FLOAT", "text": cps(t)})
            out.append({"k": "proc", "name": "STRICTFLOAT", "text": cps(t)})
        return out

    # ------------------------------------------------------------------ implementation
    @staticmethod
    def _with(table, obs):
        if table is not None:
            obs["inforce"] = table
        return obs

    def impl(self, case):
        use_repo()
        k = case["k"]
        text = uncps(case["text"]) if "text" in case else None
        if k == "tokens":
            from textx.exceptions import TextXSyntaxError, TextXError

            table = None
            try:
                mm = run_history(case) if case.get("hist") else _mm(case["type"])
                table = in_force(mm) if case.get("hist") else None
                model = mm.model_from_str(text)
            except TextXSyntaxError as e:
                lines = text.split("\n")
                pos = sum(len(l) + 1 for l in lines[: e.line - 1]) + (e.col - 1)
                return self._with(table, {"ok": False, "pos": pos, "line": e.line, "col": e.col})
            except TextXError as e:
                return self._with(table, {"ok": False, "err": type(e).__name__, "msg": str(e)[:200]})
            except Exception as e:
                return self._with(table, {"ok": False, "exc": type(e).__name__, "msg": str(e)[:200]})
            if isinstance(model, str):  # nothing matched: textX returns the (empty) matched text instead of an object
                return self._with(table, {"ok": True, "vals": [], "noobj": model})
            if (case.get("hist") or {}).get("form") == "=":  # single assignment: the value itself
                return self._with(table, {"ok": True, "vals": [value_view(model.v)]})
            return self._with(table, {"ok": True, "vals": [value_view(v) for v in model.v]})
        if k == "re":
            from textx import lang

            r = getattr(lang, case["name"])
            if not hasattr(r, "regex"):
                r.compile()
            lens = []
            for p, t in case["items"]:
                full = uncps(p) + uncps(t)
                m = r.regex.match(full, len(p))
                lens.append(-1 if m is None else m.end() - len(p))
            return {"lens": lens}
        if k == "proc":
            f = _mm("STRING")._default_obj_processors[case["name"]]
            try:
                return {"val": value_view(f(text))}
            except Exception as e:
                return {"exc": type(e).__name__}
        raise ValueError(k)

    # ------------------------------------------------------------------ model
    def model_req(self, case, obs):
        k = case["k"]
        if k == "tokens":
            req = {"op": "tokens", "type": case["type"], "cc": cc_of(uncps(case["text"])), "text": case["text"]}
            if case.get("items"):
                # how the line was composed: Lean decides the hypotheses of C04_line_checked on it (`hyp`),
                # classifies every literal (`kinds`) and says what the theorem promises (`want`)
                seps = case.get("seps", [])
                req["items"] = [[cps(seps[i] if i < len(seps) else " "), cps(item_text(it))]
                                for i, it in enumerate(case["items"])]
                req["tail"] = cps(case.get("tail", ""))
                ints = [it["v"] for it in case["items"] if it["k"] == "int"]
                if ints:
                    req["ints"] = ints  # Py.strInt against Python's str(int)
            if case.get("hist"):
                req["hist"] = reg_history(case)  # Registry.after: the processor table after the registrations
                req["keys"] = INFORCE_KEYS
            return req
        if k == "re":
            allt = "".join(uncps(p) + uncps(t) for p, t in case["items"])
            return {"op": "match", "name": case["name"], "cc": cc_of(allt),
                    "items": [[(p[0] if p else -1), t] for p, t in case["items"]]}
        if k == "proc":
            if "exc" in obs:
                return None
            return {"op": "proc", "name": case["name"], "text": case["text"]}
        return None

    @staticmethod
    def _same_val(mv, iv):
        """model value vs implementation value view"""
        if "f" in mv:
            try:
                return "f" in iv and float(uncps(mv["f"])).hex() == iv["f"]
            except ValueError:
                return False
        return mv == iv

    def compare(self, case, obs, out):
        if "err" in out:
            return f"model rejected the request: {out}"
        k = case["k"]
        if k == "tokens":
            if case.get("hist"):
                # the processor table: Registry.after (the theorem C04_registration_replaces is about it) against the
                # live table, and against the harness's own predicate "the built-in conversion is in force"
                if "inforce" not in out:
                    return f"model did not answer the registry question: {out}"
                tab = dict(zip(INFORCE_KEYS, out["inforce"]))
                mine = all(tab[key] in ("builtin", "none") for key in relevant_keys(case["type"]))  # NUMBER has no entry
                if mine != builtins_in_force(case):
                    return f"built-in conversion in force for {self.where(case)}: Lean's table says {mine}, the harness {not mine}"
                if obs.get("inforce") is not None and obs["inforce"] != out["inforce"]:
                    return (f"processor table of {self.where(case)}: implementation "
                            f"{dict(zip(INFORCE_KEYS, obs['inforce']))}, Registry.after {tab}")
            if not builtins_in_force(case):
                return None  # a user processor is in force: outside the model and outside the property
            if obs.get("ok") != out.get("ok"):
                return f"{self.where(case)} on {uncps(case['text'])!r}: implementation {obs}, model {out}"
            if obs["ok"]:
                if len(obs["vals"]) != len(out["vals"]) or not all(self._same_val(m, i) for m, i in zip(out["vals"], obs["vals"])):
                    return f"values differ for {self.where(case)} on {uncps(case['text'])!r}: implementation {obs['vals']}, model {out['vals']}"
            elif "pos" in obs:
                mpos = len(case["text"]) - out["left"]
                if mpos != obs["pos"]:
                    return f"error position differs on {uncps(case['text'])!r}: implementation {obs['pos']}, model {mpos}"
            else:
                return f"implementation failed otherwise than with a syntax error: {obs}"
            return self.compare_line(case, obs, out)
        if k == "re":
            if obs["lens"] != out["lens"]:
                bad = [i for i, (a, b) in enumerate(zip(obs["lens"], out["lens"])) if a != b][0]
                p, t = case["items"][bad]
                return (f"regex {case['name']} at {uncps(t)!r} after {uncps(p)!r}: re.match gives {obs['lens'][bad]}, "
                        f"Re.pyMatch on the translated pattern gives {out['lens'][bad]}")
            return None
        if k == "proc":
            if not self._same_val(out["val"], obs["val"]):
                return f"conversion {case['name']}({uncps(case['text'])!r}): implementation {obs['val']}, translated lambda {out['val']}"
            return None
        return None

    def compare_line(self, case, obs, out):
        """the statement-level tie of the line theorems: hypotheses decided by Lean vs the generator's own
        hypothesis predicate, literal forms written by Python vs the literal grammar of the theorems, the
        values `C04_line_checked` promises vs the implementation, `Py.strInt` vs `str(int)`"""
        if "hyp" not in out:
            return None
        text = uncps(case["text"])
        items = case["items"]
        if "strs" in out:
            ints = [it["v"] for it in items if it["k"] == "int"]
            got = [uncps(x) for x in out["strs"]]
            if got != [str(int(v)) for v in ints]:
                return f"str(int) differs: Python {[str(int(v)) for v in ints]}, Py.strInt {got}"
        kinds = out["kinds"]
        for it, kd in zip(items, kinds):
            if it["k"] == "int":
                want = 1
            elif it["k"] == "float":
                want = 2 if any(c in it["text"] for c in ".eE") else 1
            else:
                continue
            if kd != want:
                return (f"literal {it['text']!r} (written by Python for {it['v']}) is classified {kd} by the Lean scanner "
                        f"(expected {want}): it is not of the literal form the C04 theorems quantify over")
        hyp = self.line_hypothesis(case)
        if bool(out["hyp"]) != hyp:
            return (f"hypotheses of the line theorem on {text!r}: Lean decides {out['hyp']}, the harness's predicate says {hyp} "
                    f"(items {[item_text(i) for i in items]}, seps {case.get('seps')}, tail {case.get('tail', '')!r})")
        if hyp:
            if not obs.get("ok"):
                return f"C04_line_checked promises values on {text!r} but the implementation rejects it: {obs}"
            if len(out["want"]) != len(obs["vals"]) or not all(self._same_val(m, i) for m, i in zip(out["want"], obs["vals"])):
                return f"C04_line_checked promises {out['want']} on {text!r}, implementation yields {obs['vals']}"
        return None

    # ------------------------------------------------------------------ direct oracle
    @staticmethod
    def hypothesis(case):
        """do all literals of a tokens case satisfy the property's hypothesis, on a meta-model whose built-in
        conversion of the type is in force?"""
        return Prop.line_hypothesis(case) and builtins_in_force(case)

    @staticmethod
    def line_hypothesis(case):
        """do all literals of a tokens case satisfy the property's hypothesis?"""
        if case["k"] != "tokens" or not case.get("items"):
            return False
        for it in case["items"]:
            if it["k"] == "str" and uncps(it["s"]).endswith("\\"):
                return False
        # numbers / bools must be separated (a boundary follows each literal); strings may touch
        if case["type"] != "STRING":
            seps = case["seps"]
            for i in range(1, len(case["items"])):
                if i >= len(seps) or not seps[i]:
                    return False
        return True

    @staticmethod
    def where(case):
        """the grammar and, if any, the history of a tokens case, for messages"""
        g = f"`{hist_grammar(case)}`"
        h = case.get("hist")
        if not h:
            return g
        steps = []
        for st in h.get("steps", []):
            if st["op"] == "reg":
                steps.append(f"{'mm' if st['on'] == 'self' else 'other_mm'}.register_obj_processors({st['procs']})")
            else:
                steps.append(f"{'mm' if st['on'] == 'self' else 'other_mm'}.model_from_str({uncps(st['text'])!r})")
        opts = ", ".join(f"{k}=True" for k in OPT_KEYS if h.get("opts", {}).get(k))
        return g + (f" ({opts})" if opts else "") + (" after " + "; ".join(steps) if steps else "")

    def oracle(self, case, obs):
        if case["k"] == "tokens" and not builtins_in_force(case):
            return None  # a user processor is registered for the type: the property is about the built-in conversions
        if case["k"] != "tokens":
            if case["k"] == "proc" and case["name"] == "BOOL":
                t = uncps(case["text"])
                for sp, v in BOOLS:
                    if t == sp and obs.get("val") != {"b": v}:
                        return f"BOOL conversion of {t!r} gives {obs} instead of {v}"
            return None
        if not self.hypothesis(case):
            if not obs.get("ok") and "pos" not in obs:
                return f"{self.where(case)} on {uncps(case['text'])!r} failed otherwise than with a syntax error: {obs}"
            return None
        want = [expected_view(it) for it in case["items"]]
        text = uncps(case["text"])
        if not obs.get("ok"):
            return f"{self.where(case)} rejects {text!r} (literals {[item_text(i) for i in case['items']]}): {obs}"
        if obs["vals"] != want:
            return f"{self.where(case)} on {text!r} yields {obs['vals']} instead of {want}"
        return None

    def nontrivial(self, case, obs):
        if case["k"] == "tokens":
            if not self.hypothesis(case):
                return False
            if len(case["items"]) > 1:
                return True
            it = case["items"][0]
            if it["k"] == "str":
                return any(c in uncps(it["s"]) for c in "\"'\\\n")
            if it["k"] == "bool":
                return True
            return any(c in it["text"] for c in "+-.eE")
        if case["k"] == "re":
            return any(l >= 0 for l in obs.get("lens", []))
        return "val" in obs

    # ------------------------------------------------------------------ shrinking / search
    def shrink_hist(self, case):
        """smaller histories: none at all, a step less, default parameters, a registered key less"""
        h = case.get("hist")
        if not h:
            return
        yield {k: v for k, v in case.items() if k != "hist"}
        steps = h.get("steps", [])
        for i in range(len(steps)):
            yield dict(case, hist=dict(h, steps=steps[:i] + steps[i + 1:]))
        if h.get("opts"):
            yield dict(case, hist=dict(h, opts={}))
        if h.get("form", "*=") != "*=":
            yield dict(case, hist=dict(h, form="*="))
        if h.get("other_first"):
            yield dict(case, hist=dict(h, other_first=False))
        for i, st in enumerate(steps):
            if st["op"] == "reg":
                for k in st["procs"]:
                    ps = {a: b for a, b in st["procs"].items() if a != k}
                    yield dict(case, hist=dict(h, steps=steps[:i] + [dict(st, procs=ps)] + steps[i + 1:]))
                for k, v in st["procs"].items():
                    if v not in ("raw", "obj"):
                        yield dict(case, hist=dict(h, steps=steps[:i] + [dict(st, procs=dict(st["procs"], **{k: "raw"}))] + steps[i + 1:]))

    def shrink(self, case):
        if case["k"] == "tokens":
            yield from self.shrink_hist(case)
        if case["k"] != "tokens" or not case.get("items"):
            if case["k"] == "tokens":
                t = uncps(case["text"])
                for i in range(len(t)):
                    yield dict(case, text=cps(t[:i] + t[i + 1:]))
            return
        items, seps = case["items"], case["seps"]

        def mk(its, sps, tail):
            c = {"k": "tokens", "type": case["type"], "items": its, "seps": sps, "tail": tail,
                 "text": cps(build_text(its, sps, tail))}
            if case.get("hist"):
                c["hist"] = case["hist"]
            return c

        if len(items) > 1:
            for i in range(len(items)):
                sps = list(seps)
                if i < len(sps):
                    del sps[i]
                yield mk(items[:i] + items[i + 1:], sps, case.get("tail", ""))
        if case.get("tail"):
            yield mk(items, seps, "")
        if seps and seps[0]:
            yield mk(items, [""] + list(seps[1:]), case.get("tail", ""))
        for i, it in enumerate(items):
            if it["k"] == "str":
                s = it["s"]
                for j in range(len(s)):
                    yield mk(items[:i] + [dict(it, s=s[:j] + s[j + 1:])] + items[i + 1:], seps, case.get("tail", ""))
                for j, c in enumerate(s):
                    if c not in (ord("a"), 34, 39, 92):
                        yield mk(items[:i] + [dict(it, s=s[:j] + [ord("a")] + s[j + 1:])] + items[i + 1:], seps, case.get("tail", ""))

    def extra_search(self, rng, tier, broken):
        out = []
        r = rng.fork("extra")
        weights = [("STRING", 3), ("INT", 3), ("FLOAT", 3), ("STRICTFLOAT", 3), ("NUMBER", 4), ("BOOL", 1)]
        for _ in range(4000):
            out.append(self.tokens_case(r, r.weighted(weights), tier))
        out[400:400] = self.hist_cases(rng.fork("extra-hist"), 800, tier)
        return out

    def sample_view(self, case, obs):
        c = dict(case)
        if "text" in c:
            c["text_str"] = uncps(c["text"])
        return {"case": c, "impl": obs}

    def extra_evidence(self, cases, obs, outs):
        kinds = {}
        hyp = 0
        for c in cases:
            key = c["k"] + (":" + c.get("type", c.get("name", "")) if c["k"] != "re" else ":" + c["name"])
            kinds[key] = kinds.get(key, 0) + 1
            if self.hypothesis(c):
                hyp += 1
        ex = sum(1 for c in cases if c.get("origin") == "exhaustive")
        hc = [c for c in cases if c.get("hist")]
        hist = {"cases": len(hc), "under_hypothesis": sum(1 for c in hc if self.hypothesis(c)),
                "with_replaced_registration_for_the_type": sum(
                    1 for c in hc if any(st["op"] == "reg" and st["on"] == "self" and
                                         any(k in st["procs"] for k in relevant_keys(c["type"])) for st in c["hist"]["steps"])),
                "with_registration_on_another_metamodel": sum(
                    1 for c in hc if any(st["op"] == "reg" and st["on"] == "other" for st in c["hist"]["steps"])),
                "with_earlier_loads": sum(1 for c in hc if any(st["op"] == "parse" for st in c["hist"]["steps"])),
                "with_construction_parameters": sum(1 for c in hc if c["hist"].get("opts")),
                "with_plus_assignment": sum(1 for c in hc if c["hist"].get("form") == "+="),
                "with_single_assignment": sum(1 for c in hc if c["hist"].get("form") == "=")}
        outs = [o for o in (outs or []) if isinstance(o, dict)]
        return {"distribution": kinds, "tokens_cases_under_hypothesis": hyp, "histories": hist,
                "lines_whose_hypotheses_lean_decided_true": sum(1 for o in outs if o.get("hyp") is True),
                "lines_whose_hypotheses_lean_decided_false": sum(1 for o in outs if o.get("hyp") is False),
                "literals_classified_by_lean_scanner": sum(len(o.get("kinds", [])) for o in outs),
                "ints_compared_with_strInt": sum(len(o.get("strs", [])) for o in outs),
                "exhaustive": {"strings_over_6_char_alphabet_cases": ex},
                "regex_texts_compared": sum(len(c["items"]) for c in cases if c["k"] == "re")}
