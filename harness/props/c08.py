"""C08 — reference lists keep the textual order of the references.

Implementation side: lists of references (`+=`, `*=` with separator, repeated
plain assignment) resolved by a schedule-driven scope provider: reference number
k of a list is postponed on its first sched[k] calls.  The observed resolution
sequence is replayed through the Lean model (`Resolve.listAfter`).
"""
from harness.core import Check, use_repo

GRAMMAR = r"""
Model: items*=Item lists*=RefList;
Item: 'item' name=ID;
RefList: Plus | Star | Multi;
Plus: 'plus' name=ID ':' targets+=[Item] ('&' more+=[Item][','])? ';';
Star: 'star' name=ID ':' targets*=[Item][','] ';';
Multi: 'multi' name=ID ':' targets=[Item] targets=[Item] (targets=[Item])? ';';
"""


class NonTermination(Exception):
    pass


class Prop(Check):
    ID = "C08"
    LEAN_MODULE = "TextxVerif.Props.C08"
    THEOREMS = ["Resolve.C08_order", "Resolve.C08_targets", "Resolve.C08_prefix_sorted", "Resolve.C08_append_false"]
    DRIVER = "Drivers/Resolve.lean"
    QUICK_CASES = 500
    THOROUGH_CASES = 8000
    RULE = ("1..3 reference lists (+=, *= with separator, repeated plain assignment, two list attributes per object) of "
            "<=6 references each with a random postponement schedule (0..3 rounds per reference); non-trivial = some "
            "reference is resolved after a textually later one of the same list")
    MODELLED = ("hand-modelled: model.py resolve_one_step list branch (Resolve.insertByPos/listAfter); tie X: final list "
                "vs model replay of the observed resolution sequence; schedules are arbitrary (history-dependent)")

    def gen(self, rng, n, tier):
        for _ in range(n):
            nitems = rng.randint(1, 4)
            lists = []
            for li in range(rng.randint(1, 3)):
                kind = rng.choice(["plus", "plus2", "star", "multi"])
                if kind == "multi":
                    k = rng.randint(2, 3)
                elif kind == "star":
                    k = rng.randint(0, 6)
                else:
                    k = rng.randint(1, 6)
                refs = [rng.below(nitems) for _ in range(k)]
                more = [rng.below(nitems) for _ in range(rng.randint(1, 4))] if kind == "plus2" else []
                sched = [rng.weighted([(0, 5), (1, 3), (2, 2), (3, 1)]) for _ in range(len(refs) + len(more))]
                lists.append({"kind": kind, "refs": refs, "more": more, "sched": sched})
            # a round in which nothing resolves ends the loop (C09): make the waits contiguous 0..m
            vals = sorted({w for l in lists for w in l["sched"]})
            rank = {w: i for i, w in enumerate(vals)}
            for l in lists:
                l["sched"] = [rank[w] for w in l["sched"]]
            yield {"nitems": nitems, "lists": lists}

    def render(self, case):
        """text + for every reference its (list index, attr, index in attr, position)."""
        text = "".join(f"item i{k}\n" for k in range(case["nitems"]))
        meta = []
        for li, l in enumerate(case["lists"]):
            kind = l["kind"]
            head = {"plus": "plus", "plus2": "plus", "star": "star", "multi": "multi"}[kind]
            text += f"{head} L{li} :"
            sep = "," if kind == "star" else ""
            for j, t in enumerate(l["refs"]):
                if j and sep:
                    text += " ,"
                text += " "
                meta.append((li, "targets", j, len(text), t))
                text += f"i{t}"
            if l["more"]:
                text += " &"
                for j, t in enumerate(l["more"]):
                    if j:
                        text += " ,"
                    text += " "
                    meta.append((li, "more", j, len(text), t))
                    text += f"i{t}"
            text += " ;\n"
        return text, meta

    def impl(self, case):
        use_repo()
        from textx import metamodel_from_str
        from textx.exceptions import TextXError
        from textx.scoping import Postponed

        text, meta = self.render(case)
        bypos = {}
        n_per_list = {}
        for (li, attr, j, pos, t) in meta:
            base = len(case["lists"][li]["refs"]) if attr == "more" else 0
            bypos[pos] = (li, attr, j, case["lists"][li]["sched"][base + j], t)
        mm = metamodel_from_str(GRAMMAR)
        calls = {}
        total = [0]
        log = []
        limit = 10 * (len(meta) + 2)

        def provider(obj, attr, obj_ref):
            total[0] += 1
            if total[0] > limit:
                raise NonTermination("provider called too often")
            li, a, j, wait, t = bypos[obj_ref.position]
            c = calls.get(obj_ref.position, 0)
            calls[obj_ref.position] = c + 1
            if c < wait:
                return Postponed()
            log.append([li, a, j, obj_ref.position, t])
            from textx import get_model

            return next(i for i in get_model(obj).items if i.name == obj_ref.obj_name)

        mm.register_scope_providers({"*.*": provider})
        try:
            model = mm.model_from_str(text)
        except NonTermination as e:
            return {"outcome": "nonterm", "msg": str(e), "log": log}
        except TextXError as e:
            return {"outcome": "error", "type": type(e).__name__, "msg": str(e)[:200], "log": log}
        except Exception as e:
            return {"outcome": "other", "type": type(e).__name__, "msg": str(e)[:200], "log": log}
        out = {"outcome": "ok", "log": log, "lists": []}
        for l in model.lists:
            d = {}
            for a in ("targets", "more"):
                v = getattr(l, a, None)
                if isinstance(v, list):
                    d[a] = [int(x.name[1:]) for x in v]
                elif v is not None:
                    d[a] = "scalar:" + str(getattr(v, "name", v))
            out["lists"].append(d)
        return out

    # one Lean request per case: all (list, attr) sequences concatenated with disjoint position ranges
    def model_req(self, case, obs):
        if obs["outcome"] != "ok":
            return None
        seq = []
        for k, (li, a, j, pos, t) in enumerate(obs["log"]):
            group = li * 2 + (1 if a == "more" else 0)
            seq.append([k, group * 100000 + pos, group * 1000 + t])
        return {"op": "list", "seq": seq}

    def compare(self, case, obs, out):
        if "err" in out:
            return f"model rejected request {out}"
        exp = {}
        for v in out["list"]:
            exp.setdefault(v // 1000, []).append(v % 1000)
        for li, d in enumerate(obs["lists"]):
            for a in ("targets", "more"):
                got = d.get(a, [])
                want = exp.get(li * 2 + (1 if a == "more" else 0), [])
                if isinstance(got, str) or got != want:
                    return f"list {li}.{a}: implementation {got}, model replay of the resolution sequence {want}"
        return None

    def oracle(self, case, obs):
        if obs["outcome"] != "ok":
            return f"loading failed: {obs['outcome']} {obs.get('type')} {obs.get('msg')}"
        for li, l in enumerate(case["lists"]):
            d = obs["lists"][li]
            if d.get("targets") != l["refs"]:
                return f"list {li}.targets = {d.get('targets')} but the references are written in the order {l['refs']}"
            if l["more"] and d.get("more") != l["more"]:
                return f"list {li}.more = {d.get('more')} but the references are written in the order {l['more']}"
        return None

    def nontrivial(self, case, obs):
        last = {}
        for (li, a, j, pos, t) in obs.get("log", []):
            if last.get((li, a), -1) > j:
                return True
            last[(li, a)] = max(last.get((li, a), -1), j)
        return False

    def shrink(self, case):
        for c in self._shrink(case):
            vals = sorted({w for l in c["lists"] for w in l["sched"]})
            rank = {w: i for i, w in enumerate(vals)}
            yield {"nitems": c["nitems"], "lists": [dict(l, sched=[rank[w] for w in l["sched"]]) for l in c["lists"]]}

    def _shrink(self, case):
        for li in range(len(case["lists"])):
            if len(case["lists"]) > 1:
                yield {"nitems": case["nitems"], "lists": case["lists"][:li] + case["lists"][li + 1:]}
        for li, l in enumerate(case["lists"]):
            if l["kind"] in ("plus", "plus2", "star") and len(l["refs"]) > 1:
                for j in range(len(l["refs"])):
                    l2 = dict(l, refs=l["refs"][:j] + l["refs"][j + 1:], sched=l["sched"][:j] + l["sched"][j + 1:])
                    yield {"nitems": case["nitems"], "lists": case["lists"][:li] + [l2] + case["lists"][li + 1:]}

    def extra_search(self, rng, tier, broken):
        return list(self.gen(rng, 2000, tier))
