"""C08 — reference lists keep the textual order of the references.

Implementation side: a *history* of model loads with ONE metamodel.  Every load
is a model text (1..3 files, ImportURI loading) whose reference lists — `+=`,
`*=` with separator, repeated plain assignment, two list attributes on one
object (one after the other or interleaved), a list on the root object, a list
rule without leading keyword, lists nested in containers — are resolved by a
schedule-driven scope provider: a reference is postponed on its first `wait`
calls.  The layout of the text (lists before / after / between the items they
refer to, leading white-space / comment or none at all so that a reference may
sit at offset 0, token gaps) is part of the case, so are the metamodel
configuration (provider registration key, user classes, tool support,
memoization) and what happens between the loads (model kept alive or dropped
and collected, a load that fails).  The observed resolution sequence of every
load is replayed through the Lean model (`RefList.history`, Drivers/RefList.lean).

Case format (v2):
  {"v": 2,
   "mm": {"root": "none"|"head"|"tail", "prov": "any"|"exact"|"attr"|"cls",
          "src": [S, S, S] — WHERE the scope provider of `targets` / `more` / `order` comes from (absent = all "reg"):
                 "reg" a callable registered at the metamodel that postpones by counting (`sched`),
                 "gram" an RREL expression written in the grammar (`[Item|ID|elems.(~to)*]`, attached to the
                        cross-reference; nothing registered for the attribute),
                 "regrrel" the same RREL expression registered at the metamodel (`Class.attr` / `*.attr`),
                 "none" no provider at all (textX's default provider),
          "user": [rule names with a user class], "pool": bool (user classes recycle the instances of dropped
          models: identities recur), "tools": bool, "memo": bool},
   "loads": [{"drop": bool, "lead": str, "gap": str,
              "files": [{"imports": [file index..], "root": LIST?, "elems": [ELEM..]}..]}..]}
  ELEM = {"k": "item", "n": K}                                  defines item iK (K unique in the load)
       | {"k": "ptr", "n": N, "to": ["i", K] | ["p", M]}        `ptr pN > iK|pM`: pointer to an item / to another
                                                                 pointer of the same file (acyclic); `to` is a single
                                                                 reference resolved by the RREL `elems.(~to)*`
       | {"k": "plus"|"star"|"multi"|"bare"|"alt", "refs": [[A, K]..], "sched": [W..], "via": [N|-1..]?}
       | {"k": "box", "e": [ELEM..]}                            (no items inside)
  LIST = {"refs": [[2, K]..], "sched": [W..]}                    the root object's list `order`
  A = 0 (`targets`) | 1 (`more`) | 2 (`order`), K = item referred to (-1: an undefined name),
  W = number of provider calls answered with Postponed (-1: always postponed); only for "reg" attributes.
  "via" (attributes with an RREL provider only): the reference is written as the NAME OF POINTER N; the RREL provider
  walks over the pointer's `to` (`needs_to_be_resolved`) and answers Postponed as long as the resolver reports it
  unresolved — the schedule is then imposed by the text, not by a counter; K is the item the chain ends at.
The old format {"nitems", "lists": [{"kind", "refs", "more", "sched"}]} is still read (one load).
"""
import gc
import os
import re
import shutil
import tempfile

from harness.core import Check, use_repo

ATTRS = ["targets", "more", "order"]
CLASS_OF = {"plus": "Plus", "star": "Star", "multi": "Multi", "bare": "Bare", "alt": "Alt", "box": "Box", "item": "Item",
            "ptr": "Ptr"}
NONLIST = ("item", "ptr")
RREL = "elems.(~to)*"
SRCS = ("reg", "gram", "regrrel", "none")
PTR_KEY = 10000  # object key of pointer N in the requests to the model: PTR_KEY + N, attribute 3 (`to`)
USER_ABLE = ["Plus", "Star", "Multi", "Bare", "Alt", "Box", "Model", "Item"]
LEADS = ["", " ", "\n", "// c\n", "/* é\U0001F600 */", "\n\n  "]
GAPS = [" ", "", "\n", "  ", " /*c*/ ", "\t"]


def src_of(mm, a):
    """where the scope provider of list attribute `a` comes from"""
    return (mm.get("src") or ["reg"] * 3)[a]


def by_rrel(mm, a):
    return src_of(mm, a) in ("gram", "regrrel")


def logged(mm, a):
    """the harness sees every call of the attribute's provider (it is, or wraps, the registered callable)"""
    return src_of(mm, a) in ("reg", "regrrel")


def grammar(mm):
    t, m, o = (f"[Item|ID|{RREL}]" if src_of(mm, a) == "gram" else "[Item]" for a in range(3))
    head = f"order*={o}[','] ';'" if mm["root"] == "head" else ""
    tail = f"'order' order*={o}" if mm["root"] == "tail" else ""
    return rf"""
Model: imports*=Import {head} elems*=Elem {tail};
Import: 'import' importURI=STRING;
Elem: Item | Ptr | ListElem;
ListElem: Plus | Star | Multi | Alt | Box | Bare;
Item: 'item' name=ID;
Ptr: 'ptr' name=ID '>' to=[Item|ID|{RREL}];
Plus: 'plus' name=ID ':' targets+={t} ('&' more+={m}[','])? ';';
Star: 'star' name=ID ':' targets*={t}[','] ';';
Multi: 'multi' name=ID ':' targets={t} targets={t} (targets={t})? ';';
Alt: 'alt' name=ID ':' ('+' targets+={t} | '!' more+={m})* ';';
Box: 'box' name=ID '{{' elems*=ListElem '}}';
Bare: targets+={t}[','] ('&' more+={m}[','])? ';';
Comment: /\/\/.*?$|\/\*(.|\n)*?\*\//;
"""


class NonTermination(Exception):
    pass


class UnknownPosition(Exception):
    pass


# --------------------------------------------------------------------------
# case structure
# --------------------------------------------------------------------------
def norm(case):
    """old single-load format -> v2"""
    if case.get("v") == 2:
        return case
    elems = [{"k": "item", "n": k} for k in range(case["nitems"])]
    for l in case["lists"]:
        kind = "plus" if l["kind"] == "plus2" else l["kind"]
        refs = [[0, t] for t in l["refs"]] + [[1, t] for t in l.get("more", [])]
        elems.append({"k": kind, "refs": refs, "sched": list(l["sched"])})
    return {"v": 2, "mm": {"root": "none", "prov": "any", "user": [], "pool": False, "tools": False, "memo": False},
            "loads": [{"drop": False, "lead": "", "gap": " ", "files": [{"imports": [], "elems": elems}]}]}


def valid_elem(e):
    k, refs = e["k"], e.get("refs", [])
    a = [r[0] for r in refs]
    if k in NONLIST:
        return True
    if k == "box":
        return all(c["k"] not in NONLIST and valid_elem(c) for c in e["e"])
    if len(e["sched"]) != len(refs) or any(x not in (0, 1) for x in a):
        return False
    if "via" in e and len(e["via"]) != len(refs):
        return False
    if k in ("plus", "bare"):
        return a.count(0) >= 1 and a == sorted(a)
    if k == "star":
        return a.count(1) == 0
    if k == "multi":
        return a.count(1) == 0 and 2 <= len(a) <= 3
    return k == "alt"


def lists_of_file(f, mm):
    """list-holding objects of a file: [(obj key, element or root LIST)], root = key 0, the others in pre-order"""
    out = []
    if mm["root"] != "none":
        out.append((0, f.get("root") or {"refs": [], "sched": []}))
    n = [0]

    def go(es):
        for e in es:
            if e["k"] == "box":
                go(e["e"])
            elif e["k"] not in NONLIST:
                n[0] += 1
                out.append((n[0], e))

    go(f["elems"])
    return out


def ptrs_of(f):
    return {e["n"]: e["to"] for e in f["elems"] if e["k"] == "ptr"}


def chase(ptrs, n):
    """the item the chain of pointer `n` ends at (None: dangling / cyclic)"""
    seen = set()
    while n in ptrs and n not in seen:
        seen.add(n)
        kind, x = ptrs[n]
        if kind == "i":
            return x
        n = x
    return None


def via_of(l, j, mm):
    """pointer through which reference j of the list is written (-1: by the item's own name)"""
    a, t = l["refs"][j]
    v = (l.get("via") or [])
    return v[j] if j < len(v) and v[j] >= 0 and t >= 0 and by_rrel(mm, a) else -1


def ref_targets(f, l, mm):
    """[(attr, item)] of the list: what its references are to resolve to"""
    ptrs = ptrs_of(f)
    out = []
    for j, (a, t) in enumerate(l["refs"]):
        v = via_of(l, j, mm)
        out.append((a, t if v < 0 else chase(ptrs, v)))
    return out


def dangling(case):
    """a pointer / `via` that leads nowhere (shrinking must not produce it)"""
    for load in case["loads"]:
        for f in load["files"]:
            ptrs = ptrs_of(f)
            if any(chase(ptrs, n) is None for n in ptrs):
                return True
            for _, l in lists_of_file(f, case["mm"]):
                if any(t is None for _, t in ref_targets(f, l, case["mm"])):
                    return True
    return False


def expected_lists(f, mm):
    """{(obj key, attr index): [K..]} for every list attribute of the file"""
    exp = {}
    for key, l in lists_of_file(f, mm):
        kinds = {2} if key == 0 else ({0, 1} if l["k"] in ("plus", "bare", "alt") else {0})
        for a in kinds:
            exp[(key, a)] = [t for (x, t) in ref_targets(f, l, mm) if x == a]
    return exp


def load_fails(load, mm):
    for f in load["files"]:
        for _, l in lists_of_file(f, mm):
            if any(t < 0 for _, t in l["refs"]) or any(w < 0 for w in l["sched"]):
                return True
    return False


def zero_unscheduled(load, mm):
    """only a "reg" provider counts its calls: the `sched` entry of any other reference means nothing"""
    for f in load["files"]:
        for _, l in lists_of_file(f, mm):
            l["sched"] = [w if src_of(mm, a) == "reg" else 0 for (a, _), w in zip(l["refs"], l["sched"])]


def rank_waits(load, mm):
    """a round in which nothing resolves ends the resolver loop: make the waits of a load contiguous 0..m"""
    zero_unscheduled(load, mm)
    ls = [l for f in load["files"] for _, l in lists_of_file(f, mm)]
    vals = sorted({w for l in ls for w in l["sched"] if w >= 0})
    rank = {w: i for i, w in enumerate(vals)}
    for l in ls:
        l["sched"] = [rank[w] if w >= 0 else -1 for w in l["sched"]]


def render_file(fi, f, load, mm):
    """text of one model file and its references — those of the list attributes and the `to` of the pointers
    ("ptr": True, object PTR_KEY + N, attribute 3):
    [{"file", "obj", "attr", "j", "pos", "tgt", "wait", "dep"}] in textual order; "dep" = index (in this list) of
    the pointer reference the RREL provider of the reference walks over, or None"""
    ptrs = ptrs_of(f)
    toks = []  # (text, ref record or None)
    for j in f["imports"]:
        toks += [("import", None), (f'"f{j}.m"', None)]
    counter = [0]
    names = [0]

    def ref(key, a, j, t, w, via=-1):
        if via >= 0:
            t = chase(ptrs, via)
        toks.append((f"p{via}" if via >= 0 else f"i{t}" if t >= 0 else "nx",
                     {"file": fi, "obj": key, "attr": a, "j": j, "tgt": t, "via": via,
                      "wait": w if src_of(mm, a) == "reg" else 0}))

    def emit_root(l):
        for j, ((a, t), w) in enumerate(zip(l["refs"], l["sched"])):
            if j and mm["root"] == "head":
                toks.append((",", None))
            ref(0, 2, j, t, w, via_of(l, j, mm))

    def emit(e):
        k = e["k"]
        if k == "item":
            toks.extend([("item", None), (f"i{e['n']}", None)])
            return
        if k == "ptr":
            kind, x = e["to"]
            toks.extend([("ptr", None), (f"p{e['n']}", None), (">", None),
                         (f"{kind}{x}", {"file": fi, "obj": PTR_KEY + e["n"], "attr": 3, "j": 0, "ptr": True,
                                         "tgt": chase(ptrs, e["n"]), "via": x if kind == "p" else -1, "wait": 0})])
            return
        names[0] += 1
        if k == "box":
            toks.extend([("box", None), (f"B{names[0]}", None), ("{", None)])
            for c in e["e"]:
                emit(c)
            toks.append(("}", None))
            return
        counter[0] += 1
        key = counter[0]
        if k != "bare":
            toks.extend([(k, None), (f"L{names[0]}", None), (":", None)])
        idx = [0, 0]
        prev = None
        for n, ((a, t), w) in enumerate(zip(e["refs"], e["sched"])):
            if k == "alt":
                if a != prev:
                    toks.append(("+" if a == 0 else "!", None))
            elif a == 1 and prev != 1:
                toks.append(("&", None))
            elif idx[a] and (k in ("star", "bare") or a == 1):
                toks.append((",", None))
            ref(key, a, idx[a], t, w, via_of(e, n, mm))
            idx[a] += 1
            prev = a
        toks.append((";", None))

    if mm["root"] == "head":
        emit_root(f.get("root") or {"refs": [], "sched": []})
        toks.append((";", None))
    for e in f["elems"]:
        emit(e)
    if mm["root"] == "tail":
        toks.append(("order", None))
        emit_root(f.get("root") or {"refs": [], "sched": []})

    def wordy(c):
        return c.isalnum() or c in '_"'

    text = load.get("lead", "")
    refs = []
    prev = None
    for tok, rec in toks:
        if prev is not None:
            gap = load.get("gap", " ")
            if gap == "" and wordy(prev[-1]) and wordy(tok[0]):
                gap = " "
            text += gap
        if rec is not None:
            refs.append(dict(rec, pos=len(text)))
        text += tok
        prev = tok
    where = {r["obj"] - PTR_KEY: n for n, r in enumerate(refs) if r.get("ptr")}
    for r in refs:
        r["dep"] = where.get(r["via"]) if r["via"] >= 0 else None
    return text + "\n", refs


def list_refs(refs):
    return [r for r in refs if not r.get("ptr")]


def rounds_of(refs):
    """the resolver round in which each reference of a file resolves (None: never).  A counting provider answers on
    call number `wait`; an RREL provider that walks over a pointer answers once the resolver reports the pointer's
    `to` resolved, which it does from the round AFTER the one that resolved it (`parser._crossrefs` is replaced at
    the end of a pass)"""
    memo = {}

    def go(n, depth=0):
        if n not in memo:
            r = refs[n]
            if r["wait"] < 0 or r["tgt"] is None or r["tgt"] < 0 or depth > len(refs):
                memo[n] = None
            elif r["dep"] is None:
                memo[n] = r["wait"]
            else:
                d = go(r["dep"], depth + 1)
                memo[n] = None if d is None else max(r["wait"], d + 1)
        return memo[n]

    return [go(n) for n in range(len(refs))]


def make_user_class(name, pooled):
    """user class for rule `name`; a pooled class recycles the instances the harness gives back when a model is
    dropped (object-pool `__new__`): the objects of the next model then have the very identities (`id()`) of
    objects of a dropped one — what CPython does by chance with collected objects, made deterministic"""
    free = []

    def __init__(self, **kw):
        for k, v in kw.items():
            setattr(self, k, v)

    def __new__(cls, *a, **kw):
        return free.pop(0) if free else object.__new__(cls)

    ns = {"__init__": __init__, "_c08_free": free}
    if pooled:
        ns["__new__"] = __new__
    return type(name, (), ns)


def recycle(models):
    """give the instances of pooled user classes of dropped models back to their pools (creation order)"""
    def go(o):
        if isinstance(o, list):
            for x in o:
                go(x)
            return
        kids = [getattr(o, "elems", None)]
        free = getattr(type(o), "_c08_free", None)
        if free is not None and "__new__" in type(o).__dict__:
            o.__dict__.clear()
            free.append(o)
        for k in kids:
            if k:
                go(k)

    for m in models:
        go(m)


OWNERS = {"Plus": [0, 1], "Star": [0], "Multi": [0], "Bare": [0, 1], "Alt": [0, 1], "Model": [2]}


def provider_keys(style, mm=None, want="reg"):
    """registration keys of the providers of the attributes whose source is `want`.  A key that covers several
    attributes (`*.*`, `Class.*`) is only right when every attribute it would be looked up for is meant to get this
    provider; an RREL expression in the grammar takes precedence over any registration, so "gram" does not count"""
    mm = mm or {}
    mine = [a for a in range(3) if src_of(mm, a) == want]
    others = [a for a in range(3) if src_of(mm, a) not in (want, "gram")]
    if not mine:
        return []
    if others and style in ("any", "cls"):
        style = "exact"
    if style == "any":
        return ["*.*"]
    keys = set()
    for cls, attrs in OWNERS.items():
        for a in attrs:
            if a in mine:
                keys.add({"exact": f"{cls}.{ATTRS[a]}", "attr": f"*.{ATTRS[a]}", "cls": f"{cls}.*"}[style])
    return sorted(keys)


class Prop(Check):
    ID = "C08"
    LEAN_MODULE = "TextxVerif.Props.C08"
    THEOREMS = ["Resolve.C08_order", "Resolve.C08_targets", "Resolve.C08_prefix_sorted", "Resolve.C08_prefix_sublist",
                "Resolve.C08_schedule_independent", "Resolve.C08_append_false",
                "RefList.C08_keyed_order", "RefList.C08_keyed_positions", "RefList.C08_history_order",
                "RefList.C08_shared_book_false", "RefList.C08_falsy_position_false",
                "Resolve.C08_append_spec", "RefList.C08_loop_keyed", "RefList.C08_loop_keyed_files",
                "RefList.C08_loop_keyed_result", "RefList.C08_loopQ_keyed",
                "RefList.C08_schedule_keyed", "RefList.C08_schedule_keyed_result"]
    DRIVER = "Drivers/RefList.lean"
    QUICK_CASES = 500
    THOROUGH_CASES = 8000
    PROCS_QUICK = 3
    _frozen_pid = None
    RULE = ("histories of 1..6 model loads with one metamodel (texts reloaded or new, models dropped+collected or kept, "
            "loads that fail); per load 1..3 files with reference lists (+=, *= with separator, repeated plain assignment, "
            "two list attributes per object in sequence or interleaved, root-object list, keyword-less list rule, lists in "
            "containers) of <=6 references, a random postponement schedule (0..3 rounds per reference), random layout "
            "(lists before/after/between the items, leading blank/comment/nothing incl. a reference at offset 0, token "
            "gaps) and metamodel configuration (provider key style, user classes, tool support, memoization); the SOURCE "
            "of each list attribute's scope provider is generated too: callable registered at the metamodel (counting "
            "schedule) / RREL expression in the grammar / the same RREL registered / none (default provider), incl. "
            "metamodels nobody registered anything at; RREL references go through pointers (chains of <=4 links) so that "
            "the RREL provider itself postpones them round after round; "
            "non-trivial = some reference is resolved after a textually later one of the same list")
    MODELLED = ("hand-modelled: model.py resolve_one_step list branch at the level of _list_ref_positions / attribute lists "
                "(RefList.resolve/run/history; fused form Resolve.insertByPos/listAfter); tie X: every list of every load "
                "vs model replay of the observed resolution sequences; schedules are arbitrary (history-dependent); "
                "loop model under the case's schedule = Resolve.loopO with depOracle (counting + needs_to_be_resolved "
                "dependencies with the stale _crossrefs of a running pass), its sequence compared for the providers the "
                "harness can watch, its lists for all; "
                "not exhibited: a global model repository shared by the loads, references created by tools (no position)")

    # ------------------------------------------------------------------ generator
    def gen(self, rng, n, tier):
        for _ in range(n):
            yield self.gen_one(rng)

    def gen_list(self, rng, kind, items, sched_w, mm=None, own=None, ptrs=()):
        """`own` / `ptrs`: the items / pointers of the list's own file — what a provider other than the registered
        callable (RREL without `+m`, the default provider) can see"""
        l = self.gen_list0(rng, kind, items, sched_w)
        mm = mm or {}
        if any(src_of(mm, a) != "reg" for a in range(3)):
            pv = rng.choice([0.0, 0.3, 0.6, 0.9])
            l["via"] = [-1] * len(l["refs"])
            for j, (a, _) in enumerate(l["refs"]):
                if src_of(mm, a) != "reg":
                    l["refs"][j][1] = rng.choice(own)
                    if by_rrel(mm, a) and ptrs and rng.chance(pv):
                        l["via"][j] = rng.choice(list(ptrs))
                        l["refs"][j][1] = chase(dict(ptrs), l["via"][j])
        return l

    def gen_list0(self, rng, kind, items, sched_w):
        pick = lambda: rng.choice(items)  # noqa: E731
        if kind == "multi":
            refs = [[0, pick()] for _ in range(rng.randint(2, 3))]
        elif kind == "star":
            refs = [[0, pick()] for _ in range(rng.randint(0, 6))]
        elif kind == "alt":
            refs = [[rng.below(2), pick()] for _ in range(rng.randint(0, 7))]
        else:  # plus, bare
            refs = [[0, pick()] for _ in range(rng.randint(1, 6))]
            if rng.chance(0.4):
                refs += [[1, pick()] for _ in range(rng.randint(1, 4))]
        return {"k": kind, "refs": refs, "sched": [rng.weighted(sched_w) for _ in refs]}

    def gen_load(self, rng, mm, may_fail, bulk=False):
        nfiles = 1 if bulk else rng.weighted([(1, 15), (2, 3), (3, 2)])
        if all(src_of(mm, a) != "reg" for a in range(3)):
            nfiles = 1  # the imports are loaded by the registered callable (wrapped in ImportURI)
        nptr = [0]
        nitems = rng.randint(1, 4)
        owner = [rng.below(nfiles) for _ in range(nitems)]
        for fi in range(nfiles):  # no empty file (it would yield a str model)
            if fi not in owner:
                owner.append(fi)
        items = list(range(len(owner)))
        sched_w = rng.choice([[(0, 5), (1, 3), (2, 2), (3, 1)], [(0, 1), (1, 1)], [(0, 3), (1, 1), (2, 1), (3, 1)]])
        files = []
        for fi in range(nfiles):
            imports = []
            if fi + 1 < nfiles:
                imports = [j for j in range(fi + 1, nfiles) if rng.chance(0.5)]
            its = [{"k": "item", "n": k} for k in items if owner[k] == fi]
            own = [k for k in items if owner[k] == fi]
            ptrs = {}
            if any(by_rrel(mm, a) for a in range(3)):
                # pointers: to an item of the file or to an earlier pointer (chains: one more round per link)
                for _ in range(rng.weighted([(0, 1), (1, 3), (2, 3), (3, 2), (4, 1)])):
                    n = nptr[0]
                    nptr[0] += 1
                    ptrs[n] = ["p", rng.choice(sorted(ptrs))] if ptrs and rng.chance(0.4) else ["i", rng.choice(own)]
            lists = []
            for _ in range(rng.randint(8, 16) if bulk else rng.randint(1, 3) if fi == 0 else rng.randint(0, 2)):
                kind = rng.weighted([("plus", 4), ("star", 2), ("multi", 1), ("bare", 2), ("alt", 2)])
                lists.append(self.gen_list(rng, kind, items, sched_w, mm, own, ptrs))
            if len(lists) >= 2 and rng.chance(0.2):
                lists = [{"k": "box", "e": lists[:-1]}, lists[-1]] if rng.chance(0.5) else [{"k": "box", "e": lists}]
            order = rng.weighted([("items-first", 4), ("lists-first", 3), ("mixed", 3)])
            elems = its + lists if order == "items-first" else lists + its if order == "lists-first" else rng.shuffle(its + lists)
            for n, to in ptrs.items():  # anywhere between the top-level elements, in any order
                elems.insert(rng.below(len(elems) + 1), {"k": "ptr", "n": n, "to": to})
            f = {"imports": imports, "elems": elems}
            if mm["root"] != "none":
                k = rng.randint(0, 5)
                f["root"] = {"refs": [[2, rng.choice(items)] for _ in range(k)],
                             "sched": [rng.weighted(sched_w) for _ in range(k)]}
                if src_of(mm, 2) != "reg":
                    f["root"]["refs"] = [[2, rng.choice(own)] for _ in range(k)]
                    f["root"]["via"] = [-1] * k
                    for j in range(k):
                        if by_rrel(mm, 2) and ptrs and rng.chance(0.5):
                            f["root"]["via"][j] = rng.choice(sorted(ptrs))
                            f["root"]["refs"][j][1] = chase(ptrs, f["root"]["via"][j])
            files.append(f)
        for fi in range(1, nfiles):  # every file is reachable from the main one
            if not any(fi in files[j]["imports"] for j in range(fi)):
                files[rng.below(fi)]["imports"].append(fi)
                for f in files:
                    f["imports"].sort()
        load = {"drop": rng.chance(0.7), "lead": rng.weighted(list(zip(LEADS, [6, 1, 2, 2, 1, 1]))),
                "gap": rng.weighted(list(zip(GAPS, [6, 3, 1, 1, 1, 1]))), "files": files}
        if may_fail and rng.chance(0.1):
            ls = [l for f in files for _, l in lists_of_file(f, mm) if l["refs"]]
            if ls:
                l = rng.choice(ls)
                j = rng.below(len(l["refs"]))
                if rng.chance(0.5) or src_of(mm, l["refs"][j][0]) != "reg":
                    l["refs"][j][1] = -1
                    if "via" in l:
                        l["via"][j] = -1
                else:
                    l["sched"][j] = -1
        rank_waits(load, mm)
        return load

    def reschedule(self, rng, load, mm):
        """the same text once more, under another schedule"""
        import copy

        load = copy.deepcopy(load)
        sched_w = rng.choice([[(0, 5), (1, 3), (2, 2), (3, 1)], [(0, 1), (1, 1)]])
        for f in load["files"]:
            for _, l in lists_of_file(f, mm):
                for j, (a, t) in enumerate(l["refs"]):
                    if t < 0:
                        l["refs"][j][1] = min(e["n"] for e in f["elems"] if e["k"] == "item")
                l["sched"] = [rng.weighted(sched_w) for _ in l["refs"]]
        load["drop"] = rng.chance(0.7)
        rank_waits(load, mm)
        return load

    def gen_one(self, rng):
        mm = {"root": rng.weighted([("none", 5), ("head", 3), ("tail", 1)]),
              "prov": rng.weighted([("any", 4), ("exact", 2), ("attr", 1), ("cls", 1)]),
              "user": rng.subset(USER_ABLE, 0.5) if rng.chance(0.3) else [],
              "tools": rng.chance(0.2), "memo": rng.chance(0.15)}
        mm["pool"] = bool(mm["user"]) and rng.chance(0.6)
        # WHERE the scope provider comes from (the property speaks of "a scope provider", not of a registered one):
        # registered callable / RREL in the grammar / RREL registered / none (default provider), per list attribute
        how = rng.weighted([("reg", 9), ("gram", 4), ("unregistered", 2), ("each", 5)])
        if how == "gram":
            mm["src"] = ["gram"] * 3
        elif how == "unregistered":  # nothing registered at the metamodel at all
            mm["src"] = [rng.choice(["gram", "none"]) for _ in range(3)]
        elif how == "each":
            mm["src"] = [rng.weighted([("reg", 3), ("gram", 3), ("regrrel", 2), ("none", 1)]) for _ in range(3)]
        # state that outlives a load is typically keyed by object identity, and CPython hands the id() of a
        # collected object out again: "bulk" histories reload models with many list-holding objects so that
        # identities of dropped models do recur
        bulk = rng.chance(0.12)
        nloads = rng.randint(3, 6) if bulk else rng.weighted([(1, 4), (2, 3), (3, 2), (4, 1), (5, 1), (6, 1)])
        loads = []
        for li in range(nloads):
            if loads and rng.chance(0.7 if bulk else 0.5):
                loads.append(self.reschedule(rng, rng.choice(loads), mm))
            else:
                loads.append(self.gen_load(rng, mm, may_fail=li + 1 < nloads, bulk=bulk))
            if bulk and li + 1 < nloads:
                loads[-1]["drop"] = True
        return {"v": 2, "mm": mm, "loads": loads}

    # ------------------------------------------------------------------ implementation
    def impl(self, case):
        use_repo()
        from textx import get_model, metamodel_from_str
        from textx.exceptions import TextXError
        from textx.scoping import Postponed
        from textx.scoping import providers as sp

        # the loads below call gc.collect(): keep what exists in this (worker) process already — the runner's
        # case list above all — out of these collections, their cost must not grow with the number of cases
        if Prop._frozen_pid != os.getpid():
            gc.collect()
            gc.freeze()
            Prop._frozen_pid = os.getpid()
        case = norm(case)
        mmo = case["mm"]
        classes = [make_user_class(n, bool(mmo.get("pool"))) for n in mmo["user"]]
        mm = metamodel_from_str(grammar(mmo), classes=classes, textx_tools_support=bool(mmo.get("tools")),
                                memoization=bool(mmo.get("memo")))
        cur = {}

        def file_index(m):
            fn = getattr(m, "_tx_filename", None)
            if not fn:
                return 0
            return int(re.fullmatch(r"f(\d+)\.m", os.path.basename(fn)).group(1))

        def all_models(m):
            ms = [m]
            rep = getattr(m, "_tx_model_repository", None)
            if rep is not None:
                ms += [x for x in rep.all_models if x is not m]
            return ms

        def items_of(m):
            return [e for e in m.elems if type(e).__name__ == "Item"]

        def provider(obj, attr, obj_ref):
            cur["total"] += 1
            if cur["total"] > cur["limit"]:
                raise NonTermination("provider called too often")
            if cur.get("none_for") == id(obj_ref):
                return None  # ImportURI asks again on behalf of the imported models
            m = get_model(obj)
            fi = file_index(m)
            rec = cur["table"].get((fi, obj_ref.position))
            if rec is None or ATTRS[rec["attr"]] != attr.name:
                raise UnknownPosition(f"file {fi}: reference {obj_ref.obj_name!r} of {attr.name} reported at position "
                                      f"{obj_ref.position}, where no such reference is written")
            cur["ids"].add(id(obj))
            c = cur["calls"].get((fi, rec["pos"]), 0)
            cur["calls"][(fi, rec["pos"])] = c + 1
            if rec["wait"] < 0 or c < rec["wait"]:
                return Postponed()
            for x in all_models(m):
                for it in items_of(x):
                    if it.name == obj_ref.obj_name:
                        cur["log"].append([fi, rec["obj"], rec["attr"], rec["j"], rec["pos"], rec["tgt"]])
                        return it
            cur["none_for"] = id(obj_ref)
            return None

        from textx.scoping.rrel import create_rrel_scope_provider

        rrel = create_rrel_scope_provider(RREL)

        def rrel_logged(obj, attr, obj_ref):
            """the RREL provider, registered: the harness sees what it answers"""
            res = rrel(obj, attr, obj_ref)
            if res is not None and type(res) is not Postponed:
                fi = file_index(get_model(obj))
                rec = cur["table"].get((fi, obj_ref.position))
                if rec is None or ATTRS[rec["attr"]] != attr.name:
                    raise UnknownPosition(f"file {fi}: reference {obj_ref.obj_name!r} of {attr.name} reported at "
                                          f"position {obj_ref.position}, where no such reference is written")
                cur["ids"].add(id(obj))
                cur["log"].append([fi, rec["obj"], rec["attr"], rec["j"], rec["pos"], rec["tgt"]])
            return res

        multi = any(len(l["files"]) > 1 for l in case["loads"])
        prov = sp.ImportURI(provider) if multi else provider
        reg = {k: prov for k in provider_keys(mmo["prov"], mmo)}
        style = mmo["prov"] if mmo["prov"] in ("exact", "attr") else "exact"
        reg.update({k: rrel_logged for k in provider_keys(style, mmo, "regrrel")})
        if multi and not any(v is prov for v in reg.values()):
            reg["Import.*"] = prov  # never asked (an Import holds no reference), but it loads the imported files
        if reg:  # else: a metamodel nobody registered a provider at
            mm.register_scope_providers(reg)

        out = []
        keep = []
        dropped_ids = set()
        for load in case["loads"]:
            rendered = [render_file(fi, f, load, mmo) for fi, f in enumerate(load["files"])]
            table = {(r["file"], r["pos"]): r for _, refs in rendered for r in list_refs(refs)}
            cur.clear()
            cur.update(table=table, calls={}, log=[], total=0, ids=set(), limit=10 * (len(table) + 2))
            o = {}
            model = None
            tmp = None
            try:
                if len(rendered) == 1:
                    model = mm.model_from_str(rendered[0][0])
                else:
                    tmp = tempfile.mkdtemp(prefix="c08-")
                    for fi, (text, _) in enumerate(rendered):
                        with open(os.path.join(tmp, f"f{fi}.m"), "w", encoding="utf-8") as fh:
                            fh.write(text)
                    model = mm.model_from_file(os.path.join(tmp, "f0.m"))
                o["outcome"] = "ok"
            except NonTermination as e:
                o.update(outcome="nonterm", msg=str(e))
            except UnknownPosition as e:
                o.update(outcome="badpos", msg=str(e))
            except TextXError as e:
                o.update(outcome="error", type=type(e).__name__, msg=str(e)[:200])
            except Exception as e:
                o.update(outcome="other", type=type(e).__name__, msg=str(e)[:200])
            finally:
                if tmp:
                    shutil.rmtree(tmp, ignore_errors=True)
            o["log"] = cur["log"]
            o["reuse"] = len(cur["ids"] & dropped_ids)
            if model is not None:
                try:
                    o["lists"] = self.observe(model, load, mmo, all_models, file_index, items_of)
                except Exception as e:
                    o.update(outcome="shape", msg=f"{type(e).__name__}: {e}"[:200])
            out.append(o)
            if load.get("drop"):
                dropped_ids |= cur["ids"]
                if model is not None and mmo.get("pool"):
                    recycle(all_models(model))
                model = None
                gc.collect()
            else:
                keep.append(model)
                model = None
        return {"loads": out}

    def observe(self, model, load, mmo, all_models, file_index, items_of):
        """{"file:obj:attr": [K..]} for every list attribute (targets told by identity)"""
        ms = {file_index(m): m for m in all_models(model)}
        ident = {}
        for m in ms.values():
            for it in items_of(m):
                ident[id(it)] = int(it.name[1:])

        def val(o, a):
            v = getattr(o, ATTRS[a], None)
            if not isinstance(v, list):
                return "not-a-list:" + type(v).__name__
            return [ident.get(id(x), "?" + str(getattr(x, "name", type(x).__name__))) for x in v]

        lists = {}
        for fi, f in enumerate(load["files"]):
            m = ms[fi]
            objs = []

            def go(mes, ces):
                if len(mes) != len(ces):
                    raise ValueError(f"{len(mes)} objects for {len(ces)} elements")
                for o, e in zip(mes, ces):
                    if type(o).__name__ != CLASS_OF[e["k"]]:
                        raise ValueError(f"object {type(o).__name__} for element {e['k']}")
                    if e["k"] == "box":
                        go(o.elems, e["e"])
                    elif e["k"] not in NONLIST:
                        objs.append(o)

            go(m.elems, f["elems"])
            byk = {0: m}
            for n, o in enumerate(objs):
                byk[n + 1] = o
            for (key, a) in expected_lists(f, mmo):
                lists[f"{fi}:{key}:{a}"] = val(byk[key], a)
        return lists

    # ------------------------------------------------------------------ model
    def model_req(self, case, obs):
        """one resolver run per (successful load, file): the references in the observed resolution order"""
        case = norm(case)
        runs = []
        for load, o in zip(case["loads"], obs["loads"]):
            if o["outcome"] != "ok":
                continue
            for fi in range(len(load["files"])):  # (lists of providers the harness cannot watch are not in the log)
                runs.append([[obj, a, pos, t] for (f, obj, a, j, pos, t) in o["log"] if f == fi])
        # the same loads as *schedules*: the model runs the Postponed loop itself (`Resolve.loopO` with the wait
        # counts of the case) instead of replaying the observed sequence; references per file in textual order
        loads = []
        for load, o in zip(case["loads"], obs["loads"]):
            if o["outcome"] != "ok" or load_fails(load, case["mm"]):
                continue
            loads.append([[[r["obj"], r["attr"], r["pos"], r["tgt"], r["wait"], 0 if r["dep"] is None else r["dep"] + 1]
                           for r in render_file(fi, f, load, case["mm"])[1]]
                          for fi, f in enumerate(load["files"])])
        return {"op": "history", "runs": runs, "loads": loads}

    def compare(self, case, obs, out):
        if "err" in out:
            return f"model rejected request {out}"
        case = norm(case)
        runs = iter(out["runs"])
        for li, (load, o) in enumerate(zip(case["loads"], obs["loads"])):
            if o["outcome"] != "ok":
                continue
            for fi in range(len(load["files"])):
                want = {f"{fi}:{obj}:{a}": v for obj, a, v in next(runs)}
                for key, got in sorted(o["lists"].items()):
                    if key.startswith(f"{fi}:") and logged(case["mm"], int(key.split(":")[2])) and got != want.get(key, []):
                        return (f"load {li} list {key}: implementation {got}, model replay of the resolution "
                                f"sequence {want.get(key, [])}")
        # the loop model under the case's schedule: same resolution sequence per resolver, same lists
        sched = iter(out.get("loads", []))
        for li, (load, o) in enumerate(zip(case["loads"], obs["loads"])):
            if o["outcome"] != "ok" or load_fails(load, case["mm"]):
                continue
            m = next(sched, None)
            if m is None:
                return f"load {li}: no answer of the schedule model"
            if m["pending"]:
                return f"load {li} succeeded but the loop model leaves {m['pending']} references pending"
            for fi, mf in enumerate(m["files"]):
                seen = [[obj, a, pos] for (f, obj, a, j, pos, t) in o["log"] if f == fi]
                pred = [x for x in mf["seq"] if x[1] < 3 and logged(case["mm"], x[1])]
                if seen != pred:
                    return (f"load {li} file {fi}: references resolved in the order {seen} [obj, attr, pos], the loop "
                            f"model under the same schedule resolves {pred}")
                want = {f"{fi}:{obj}:{a}": v for obj, a, v in mf["lists"]}
                for key, got in sorted(o["lists"].items()):
                    if key.startswith(f"{fi}:") and got != want.get(key, []):
                        return (f"load {li} list {key}: implementation {got}, loop model under the same schedule "
                                f"{want.get(key, [])}")
        return None

    def oracle(self, case, obs):
        case = norm(case)
        for li, (load, o) in enumerate(zip(case["loads"], obs["loads"])):
            if load_fails(load, case["mm"]):
                continue  # a reference that never resolves: the load has no reference lists to look at
            if o["outcome"] != "ok":
                return f"load {li} failed: {o['outcome']} {o.get('type')} {o.get('msg')}"
            for fi, f in enumerate(load["files"]):
                for (key, a), want in sorted(expected_lists(f, case["mm"]).items()):
                    got = o["lists"].get(f"{fi}:{key}:{a}")
                    if got != want:
                        return (f"load {li} file {fi} object {key}: {ATTRS[a]} = {got} but the references are "
                                f"written in the order {want} (provider of the attribute: {src_of(case['mm'], a)})")
        return None

    def nontrivial(self, case, obs):
        case = norm(case)
        for load, o in zip(case["loads"], obs.get("loads", [])):
            if o.get("outcome") != "ok":
                continue
            # providers the harness cannot watch: the rounds follow from the text
            for fi, f in enumerate(load["files"]):
                refs = render_file(fi, f, load, case["mm"])[1]
                last = {}
                for r, rnd in zip(refs, rounds_of(refs)):
                    k = (r["obj"], r["attr"])
                    if not r.get("ptr") and rnd is not None:
                        if last.get(k, -1) > rnd:
                            return True
                        last[k] = max(last.get(k, -1), rnd)
        for o in obs.get("loads", []):
            last = {}
            for (fi, obj, a, j, pos, t) in o.get("log", []):
                if last.get((fi, obj, a), -1) > j:
                    return True
                last[(fi, obj, a)] = max(last.get((fi, obj, a), -1), j)
        return False

    def extra_evidence(self, cases, obs, model_outs):
        ev = {"histories": 0, "loads": 0, "loads_after_a_dropped_one": 0, "loads_reusing_object_ids": 0,
              "multi_file_loads": 0, "failing_loads": 0, "references_at_offset_0": 0,
              "offset_0_reference_resolved_late": 0, "user_class_cases": 0,
              "pooled_identity_cases": 0, "metamodels_without_registered_provider": 0,
              "loads_with_rrel_in_grammar": 0, "references_postponed_by_rrel": 0,
              "lists_out_of_order_by_rrel_in_grammar": 0, "lists_by_default_provider": 0,
              "lists_with_two_provider_sources": 0}
        for c, o in zip(cases, obs):
            if not isinstance(o, dict) or "loads" not in o:
                continue
            c = norm(c)
            ev["histories"] += len(c["loads"]) > 1
            ev["user_class_cases"] += bool(c["mm"]["user"])
            ev["pooled_identity_cases"] += bool(c["mm"].get("pool"))
            srcs = [src_of(c["mm"], a) for a in range(3)]
            ev["metamodels_without_registered_provider"] += all(x in ("gram", "none") for x in srcs)
            for load, lo in zip(c["loads"], o["loads"]):
                if lo["outcome"] != "ok":
                    continue
                ev["loads_with_rrel_in_grammar"] += "gram" in srcs
                for fi, f in enumerate(load["files"]):
                    refs = render_file(fi, f, load, c["mm"])[1]
                    rnds = rounds_of(refs)
                    late = {}
                    for r, rnd in zip(refs, rnds):
                        if r.get("ptr") or rnd is None:
                            continue
                        ev["references_postponed_by_rrel"] += r["dep"] is not None
                        k = (r["obj"], r["attr"])
                        if src_of(c["mm"], r["attr"]) == "gram" and late.get(k, -1) > rnd:
                            late[k] = 10 ** 6
                        late[k] = max(late.get(k, -1), rnd)
                    ev["lists_out_of_order_by_rrel_in_grammar"] += sum(v >= 10 ** 6 for v in late.values())
                    for key, l in lists_of_file(f, c["mm"]):
                        used = {src_of(c["mm"], a) for a, _ in l["refs"]}
                        ev["lists_by_default_provider"] += "none" in used
                        ev["lists_with_two_provider_sources"] += len(used) > 1
            dropped = False
            for load, lo in zip(c["loads"], o["loads"]):
                ev["loads"] += 1
                ev["loads_after_a_dropped_one"] += dropped
                ev["loads_reusing_object_ids"] += lo.get("reuse", 0) > 0
                ev["multi_file_loads"] += len(load["files"]) > 1
                ev["failing_loads"] += lo["outcome"] != "ok"
                dropped = dropped or bool(load.get("drop"))
                log = lo.get("log", [])
                for n, (fi, obj, a, j, pos, t) in enumerate(log):
                    if pos == 0:
                        ev["references_at_offset_0"] += 1
                        ev["offset_0_reference_resolved_late"] += any(
                            (x[0], x[1], x[2]) == (fi, obj, a) for x in log[:n])
        return {"explored": ev}

    # ------------------------------------------------------------------ shrinking
    def shrink(self, case):
        import copy

        case = norm(case)
        for c in self._shrink(case):
            c = copy.deepcopy(c)
            if dangling(c):
                continue
            for load in c["loads"]:
                rank_waits(load, c["mm"])
            yield c

    def _shrink(self, case):
        import copy

        loads = case["loads"]
        for li in range(len(loads)):
            if len(loads) > 1:
                yield dict(case, loads=loads[:li] + loads[li + 1:])
        dflt = {"prov": "any", "user": [], "pool": False, "tools": False, "memo": False}
        for k, v in dflt.items():
            if case["mm"].get(k) != v:
                yield dict(case, mm=dict(case["mm"], **{k: v}))
        src = case["mm"].get("src")
        if src and not any(len(ld["files"]) > 1 for ld in loads):
            # (another provider source changes which items are visible from another file)
            if any(x != "reg" for x in src):
                yield dict(case, mm={k: v for k, v in case["mm"].items() if k != "src"})
            for a in range(3):
                if src[a] != "reg":
                    yield dict(case, mm=dict(case["mm"], src=src[:a] + ["reg"] + src[a + 1:]))
        for li, load in enumerate(loads):
            for k, v in (("gap", " "), ("drop", False)):
                if load.get(k) != v:
                    yield dict(case, loads=loads[:li] + [dict(load, **{k: v})] + loads[li + 1:])

            def lists(ld):
                out = []

                def go(es):
                    for e in es:
                        if e["k"] == "box":
                            go(e["e"])
                        elif e["k"] not in NONLIST:
                            out.append(e)

                for f in ld["files"]:
                    if f.get("root"):
                        out.append(f["root"])
                    go(f["elems"])
                return out

            # remove a whole list element / unwrap nothing: only top-level elements of a file
            for fi, f in enumerate(load["files"]):
                for ei, e in enumerate(f["elems"]):
                    if e["k"] != "item":
                        ld = copy.deepcopy(load)
                        del ld["files"][fi]["elems"][ei]
                        yield dict(case, loads=loads[:li] + [ld] + loads[li + 1:])
            # remove one reference
            for n, l in enumerate(lists(load)):
                for j in range(len(l["refs"])):
                    ld = copy.deepcopy(load)
                    l2 = lists(ld)[n]
                    del l2["refs"][j]
                    del l2["sched"][j]
                    if "via" in l2:
                        del l2["via"][j]
                    if "k" not in l2 or valid_elem(l2):
                        yield dict(case, loads=loads[:li] + [ld] + loads[li + 1:])

    def extra_search(self, rng, tier, broken):
        return list(self.gen(rng, 2000, tier))
