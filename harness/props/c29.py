"""C29 — graph exports are well-formed for any model and metamodel.

Implementation side (real code): `textx.export.model_export[_to_file]`,
`metamodel_export[_tofile]` with `DotRenderer` / `PlantUmlRenderer`, the registered
generators of `textx/generators.py`, `dot_escape`, `dot_repr`.

Cases
  kind "model": a generated grammar (classes with name / str / int / float / bool /
      primitive-list / mixed-list / containment / reference attributes), a generated
      object tree with hostile string values, 1..3 model files with hostile file names;
      exported single, through `repo=`, through a global repository, through the file
      API or through the `any -> dot` generator.
  kind "mm": a generated grammar (common / abstract / match rules, hostile string and
      regex matches, base types, OBJECT, references, all multiplicities) exported with
      the DOT or the PlantUML renderer (file object, file API, generators).
  kind "escape": `dot_escape` / `dot_repr` on one hostile string.
  kind "args": the argument checks of `model_export_to_file` (malformed stream).

Tie T: `harness/c29_translate.py` regenerates `Gen/DotExport.lean` from export.py.
Tie X: the Lean model renders the same text from a dump of what the export reads; the
Lean recogniser and the Python DOT parser must agree on the real text.
"""
import io
import os
import re
import shutil
import tempfile

from harness import c29_dot, c29_translate
from harness.core import LEAN_DIR, REPO, Check, use_repo

SPECIAL = '"\\{}|<>\n'
PIECES = ['"', "\\", "{", "}", "|", "<", ">", "\n", "?", "'", "&", ";", ":", "[", "]", "-", "=", ",", "#", "/", "*",
          " ", "\t", "\\n", "\\l", "->", "//", "/*", '\\"', '}"', ']"', '"]', "é", "☃", "&amp;", "%", "@", "x", "ab",
          "Z9", "_", ".", "0", "\r", "\\\\", '\\\\"', "|}", "{|", "<b>", "$", "\nend legend\n", "\n}\n", "\n@enduml\n"]
PLAIN = "abcdefghijklmnopqrstuvwxyzABCDEFGHIJKLMNOPQRSTUVWXYZ0123456789_ "
FNAME_PIECES = ['"', "\\", "{", "}", "|", "<", ">", "\n", "?", "'", "&", ";", " ", "é", "a", "b", "m", "x", "-", "=", "["]
BASES = ["STRING", "INT", "FLOAT", "BOOL", "ID", "NUMBER", "STRICTFLOAT"]
REGEXES = [r"a{2,3}", r"<[^>]*>", r'"[^"]*"', r"\|+", r"[{}]", r"x|y", r"\\+", r"&amp;", r"\n", r"\w+\?", r"[^|]*\|",
           r"\d+", r"'", r"\/\*", r"#.*$", r"a\>b"]


class Opaque:
    """an attribute value of a class textX knows nothing about"""


def hostile(rng, maxlen=30):
    k = rng.weighted([("plain", 2), ("mix", 6), ("limit", 3), ("empty", 1), ("one", 2)])
    if k == "empty":
        return ""
    if k == "plain":
        return "".join(rng.choice(PLAIN) for _ in range(rng.randint(1, 12)))
    if k == "one":
        return rng.choice(PIECES)
    if k == "limit":
        # specials around the truncation limit of dot_repr (20 escaped characters)
        n = rng.randint(14, 21)
        s = "".join(rng.choice(PLAIN) for _ in range(n))
        for _ in range(rng.randint(1, 3)):
            s += rng.choice(PIECES[:10])
        return s + "".join(rng.choice(PLAIN) for _ in range(rng.randint(0, 4)))
    out = ""
    for _ in range(rng.randint(1, 8)):
        out += rng.choice(PIECES) if rng.chance(0.7) else rng.choice(PLAIN)
    return out[:maxlen]


def hostile_fname(rng):
    s = "".join(rng.choice(FNAME_PIECES) for _ in range(rng.randint(1, 6)))
    s = s.strip(" ") or "m"
    if s in (".", ".."):
        s = "m"
    return s


# --------------------------------------------------------------------------
# model cases
# --------------------------------------------------------------------------
ATTR_KINDS = [("name_str", 4), ("name_int", 1), ("str", 4), ("int", 2), ("float", 1), ("bool", 2), ("strs", 3),
              ("ints", 1), ("mixed", 4), ("child", 2), ("children", 3), ("ref", 2), ("refs", 2)]


def gen_classes(rng):
    ncls = rng.randint(1, 3)
    classes = []
    for ci in range(ncls):
        attrs = []
        has_name = False
        for ai in range(rng.randint(1, 5)):
            k = rng.weighted(ATTR_KINDS)
            if k.startswith("name"):
                if has_name:
                    k = "str"
                else:
                    has_name = True
            a = {"n": "name" if k.startswith("name") else f"a{ai}", "k": k, "opt": rng.chance(0.6)}
            if k in ("strs", "ints", "mixed", "children", "refs"):
                a["plus"] = rng.chance(0.5)
            if k in ("child", "children", "ref", "refs"):
                a["c"] = rng.below(ncls)
            attrs.append(a)
        classes.append({"attrs": attrs})
    return classes


def gen_obj(rng, classes, ci, depth, nstr, budget):
    budget[0] -= 1
    vals = {}
    for a in classes[ci]["attrs"]:
        k = a["k"]
        if a["opt"] and rng.chance(0.3):
            continue
        if k in ("name_str", "str"):
            vals[a["n"]] = rng.below(nstr)
        elif k in ("name_int", "int"):
            vals[a["n"]] = rng.randint(0, 99999)
        elif k == "float":
            vals[a["n"]] = rng.choice(["1.5", "0.25", "3e10", "12.0", "1e-7"])
        elif k == "bool":
            vals[a["n"]] = True
        elif k == "strs":
            vals[a["n"]] = [rng.below(nstr) for _ in range(rng.randint(1 if a.get("plus") else 0, 4))]
        elif k == "ints":
            vals[a["n"]] = [rng.randint(0, 999) for _ in range(rng.randint(1 if a.get("plus") else 0, 4))]
        elif k == "mixed":
            items = []
            for _ in range(rng.randint(1 if a.get("plus") else 0, 5)):
                t = rng.weighted([("s", 5), ("i", 2), ("f", 1), ("o", 3 if depth < 3 and budget[0] > 0 else 0)])
                if t == "s":
                    items.append({"s": rng.below(nstr)})
                elif t == "i":
                    items.append({"i": rng.randint(0, 999)})
                elif t == "f":
                    items.append({"f": rng.choice(["1.5", "0.25", "7.0"])})
                else:
                    items.append({"o": gen_obj(rng, classes, rng.below(len(classes)), depth + 1, nstr, budget)})
            vals[a["n"]] = items
        elif k == "child":
            if depth < 3 and budget[0] > 0:
                vals[a["n"]] = gen_obj(rng, classes, a["c"], depth + 1, nstr, budget)
            elif not a["opt"]:
                vals[a["n"]] = {"c": a["c"], "vals": None}  # minimal object, filled by fix_minimal
        elif k == "children":
            n = rng.randint(1 if a.get("plus") else 0, 3) if depth < 3 and budget[0] > 0 else (1 if a.get("plus") else 0)
            vals[a["n"]] = [gen_obj(rng, classes, a["c"], depth + 1, nstr, budget) if depth < 3 and budget[0] > 0
                            else {"c": a["c"], "vals": None} for _ in range(n)]
        elif k in ("ref", "refs"):
            vals[a["n"]] = "REF" if k == "ref" else ["REF"] * rng.randint(1 if a.get("plus") else 0, 3)
    return {"c": ci, "vals": vals}


def minimal_obj(classes, ci, seen=()):
    """smallest object of class ci (mandatory attributes only); None if impossible"""
    if ci in seen:
        return None
    vals = {}
    for a in classes[ci]["attrs"]:
        if a["opt"]:
            continue
        k = a["k"]
        if k in ("name_str", "str"):
            vals[a["n"]] = 0
        elif k in ("name_int", "int"):
            vals[a["n"]] = 7
        elif k == "float":
            vals[a["n"]] = "1.5"
        elif k == "bool":
            vals[a["n"]] = True
        elif k in ("strs",):
            vals[a["n"]] = [0] if a.get("plus") else []
        elif k in ("ints",):
            vals[a["n"]] = [1] if a.get("plus") else []
        elif k == "mixed":
            vals[a["n"]] = [{"i": 1}] if a.get("plus") else []
        elif k == "child":
            m = minimal_obj(classes, a["c"], seen + (ci,))
            if m is None:
                return None
            vals[a["n"]] = m
        elif k == "children":
            if a.get("plus"):
                m = minimal_obj(classes, a["c"], seen + (ci,))
                if m is None:
                    return None
                vals[a["n"]] = [m]
            else:
                vals[a["n"]] = []
        elif k == "ref":
            vals[a["n"]] = "REF"
        elif k == "refs":
            vals[a["n"]] = ["REF"] if a.get("plus") else []
    return {"c": ci, "vals": vals}


def fix_minimal(classes, o):
    """replace {"vals": None} placeholders; returns False when a mandatory cycle makes it impossible"""
    if o["vals"] is None:
        m = minimal_obj(classes, o["c"])
        if m is None:
            return False
        o["vals"] = m["vals"]
    for v in o["vals"].values():
        subs = []
        if isinstance(v, dict) and "c" in v:
            subs = [v]
        elif isinstance(v, list):
            subs = [x if "c" in x else x.get("o") for x in v if isinstance(x, dict)]
        for s in subs:
            if s is not None and not fix_minimal(classes, s):
                return False
    return True


def preorder(classes, o, out):
    """objects in the order of get_children (containment, _tx_attrs order)"""
    out.append(o)
    for a in classes[o["c"]]["attrs"]:
        v = o["vals"].get(a["n"])
        if v is None:
            continue
        if a["k"] == "child":
            preorder(classes, v, out)
        elif a["k"] == "children":
            for x in v:
                preorder(classes, x, out)
        elif a["k"] == "mixed":
            for x in v:
                if "o" in x:
                    preorder(classes, x["o"], out)
    return out


def assign_refs(rng, classes, root):
    """give every "REF" a target: index (in preorder) of an object of the right class;
    drop the attribute when there is none and it is optional; False if impossible"""
    objs = preorder(classes, root, [])
    bycls = {}
    for i, o in enumerate(objs):
        bycls.setdefault(o["c"], []).append(i)
    for o in objs:
        for a in classes[o["c"]]["attrs"]:
            if a["k"] not in ("ref", "refs") or a["n"] not in o["vals"]:
                continue
            cands = bycls.get(a["c"], [])
            if not cands:
                if a["k"] == "refs" and not a.get("plus"):
                    o["vals"][a["n"]] = []
                    continue
                if a["opt"]:
                    del o["vals"][a["n"]]
                    continue
                return False
            if a["k"] == "ref":
                o["vals"][a["n"]] = rng.choice(cands)
            else:
                o["vals"][a["n"]] = [rng.choice(cands) for _ in o["vals"][a["n"]]]
    return True


def grammar_text(classes):
    ncls = len(classes)
    lines = []
    for ci, c in enumerate(classes):
        parts = []
        for a in c["attrs"]:
            n, k = a["n"], a["k"]
            op = "+=" if a.get("plus") else "*="
            if k == "name_str" or k == "str":
                body = f"'{n}' {n}=Str"
            elif k == "name_int" or k == "int":
                body = f"'{n}' {n}=INT"
            elif k == "float":
                body = f"'{n}' {n}=STRICTFLOAT"
            elif k == "bool":
                body = f"{n}?='{n}'"
            elif k == "strs":
                body = f"'{n}' '[' {n}{op}Str[','] ']'"
            elif k == "ints":
                body = f"'{n}' '[' {n}{op}INT[','] ']'"
            elif k == "mixed":
                body = f"'{n}' '[' {n}{op}Val[','] ']'"
            elif k == "child":
                body = f"'{n}' {n}=C{a['c']}"
            elif k == "children":
                body = f"'{n}' '[' {n}{op}C{a['c']} ']'"
            elif k == "ref":
                body = f"'{n}' {n}=[C{a['c']}:Ref]"
            else:
                body = f"'{n}' '[' {n}{op}[C{a['c']}:Ref][','] ']'"
            if k == "bool":
                parts.append(body if not a["opt"] else f"({body})?")
            else:
                parts.append(f"({body})?" if a["opt"] else body)
        lines.append(f"C{ci}: 'c{ci}' '{{' {' '.join(parts)} '}}';")
    lines.append("Val: Str | STRICTFLOAT | INT | " + " | ".join(f"C{i}" for i in range(ncls)) + ";")
    lines.append(r"Str: /s\d+/;")
    lines.append(r"Ref: /r\d+/;")
    return "\n".join(lines) + "\n"


def obj_text(classes, o):
    c = classes[o["c"]]
    parts = [f"c{o['c']}", "{"]
    for a in c["attrs"]:
        n, k = a["n"], a["k"]
        if n not in o["vals"]:
            continue
        v = o["vals"][n]
        if k in ("name_str", "str"):
            parts += [n, f"s{v}"]
        elif k in ("name_int", "int"):
            parts += [n, str(v)]
        elif k == "float":
            parts += [n, v]
        elif k == "bool":
            parts += [n]
        elif k == "strs":
            parts += [n, "[", " , ".join(f"s{x}" for x in v), "]"]
        elif k == "ints":
            parts += [n, "[", " , ".join(str(x) for x in v), "]"]
        elif k == "mixed":
            its = []
            for x in v:
                if "s" in x:
                    its.append(f"s{x['s']}")
                elif "i" in x:
                    its.append(str(x["i"]))
                elif "f" in x:
                    its.append(x["f"])
                else:
                    its.append(obj_text(classes, x["o"]))
            parts += [n, "[", " , ".join(its), "]"]
        elif k == "child":
            parts += [n, obj_text(classes, v)]
        elif k == "children":
            parts += [n, "[", " ".join(obj_text(classes, x) for x in v), "]"]
        elif k == "ref":
            parts += [n, f"r{v}"]
        else:
            parts += [n, "[", " , ".join(f"r{x}" for x in v), "]"]
    parts.append("}")
    return " ".join(parts)


def gen_model_case(rng):
    for _ in range(20):
        classes = gen_classes(rng)
        nstr = rng.randint(1, 6)
        strings = []
        for _ in range(nstr):
            t = rng.weighted([("str", 12), ("int", 1), ("float", 1), ("bool", 1), ("opaque", 1)])
            if t == "str":
                strings.append({"t": "str", "v": hostile(rng)})
            elif t == "int":
                strings.append({"t": "int", "v": rng.randint(0, 9999)})
            elif t == "float":
                strings.append({"t": "float", "v": rng.choice(["2.5", "1e+20", "0.1"])})
            elif t == "bool":
                strings.append({"t": "bool", "v": rng.chance(0.5)})
            else:
                strings.append({"t": "opaque"})
        mode = rng.weighted([("single", 4), ("file", 2), ("repo_arg", 3), ("global", 3), ("generator", 2), ("fileapi", 2),
                             ("repo_str", 1)])
        nfiles = 1 if mode in ("single", "file", "generator", "fileapi") else rng.randint(1, 3)
        files = []
        ok = True
        names = set()
        for _fi in range(nfiles):
            root = gen_obj(rng, classes, 0, 0, nstr, [rng.randint(1, 9)])
            if not fix_minimal(classes, root) or not assign_refs(rng, classes, root):
                ok = False
                break
            fn = hostile_fname(rng)
            while fn in names:
                fn += "x"
            names.add(fn)
            files.append({"fname": fn, "root": root})
        if ok:
            return {"kind": "model", "mode": mode, "classes": classes, "strings": strings, "files": files}
    return {"kind": "model", "mode": "single", "classes": [{"attrs": []}], "strings": [{"t": "str", "v": "x"}],
            "files": [{"fname": "m", "root": {"c": 0, "vals": {}}}]}


# --------------------------------------------------------------------------
# metamodel cases
# --------------------------------------------------------------------------
def gen_mm_case(rng):
    ncom = rng.randint(1, 4)
    nabs = rng.randint(0, 2)
    nmat = rng.randint(0, 3)
    com = [f"R{i}" for i in range(ncom)]
    abst = [f"A{i}" for i in range(nabs)]
    mat = [f"M{i}" for i in range(nmat)]
    rules = []
    for i, r in enumerate(com):
        attrs = []
        for ai in range(rng.randint(0 if i else 1, 5)):
            op = rng.weighted([("=", 5), ("+=", 2), ("*=", 2), ("?=", 1)])
            if op == "?=":
                rhs = {"t": "kw"}
            else:
                t = rng.weighted([("rule", 4), ("base", 4), ("ref", 3), ("obj", 1), ("match", 2 if mat else 0)])
                if t == "rule":
                    rhs = {"t": "rule", "r": rng.choice(com + abst)}
                elif t == "base":
                    rhs = {"t": "base", "b": rng.choice(BASES)}
                elif t == "ref":
                    rhs = {"t": "ref", "r": rng.choice(com + abst)}
                elif t == "obj":
                    rhs = {"t": "ref", "r": "OBJECT"}
                else:
                    rhs = {"t": "rule", "r": rng.choice(mat)}
            attrs.append({"n": rng.choice(["name", f"a{ai}", f"b{ai}"]) if ai == 0 else f"a{ai}", "op": op, "rhs": rhs,
                          "opt": rng.chance(0.4)})
        rules.append({"name": r, "t": "common", "attrs": attrs})
    for i, r in enumerate(abst):
        pool = com + abst[i + 1:] + mat
        alts = rng.sample(pool, rng.randint(1, min(3, len(pool))))
        if not any(a in com for a in alts):
            alts[0] = rng.choice(com)
        rules.append({"name": r, "t": "abstract", "alts": alts})
    for i, r in enumerate(mat):
        alts = []
        for _ in range(rng.randint(1, 3)):
            t = rng.weighted([("s", 5), ("re", 3), ("r", 1 if i + 1 < nmat else 0), ("b", 1)])
            if t == "s":
                s = hostile(rng, 12) or "k"
                if s.endswith("\\"):
                    s += "z"
                alts.append({"s": s})
            elif t == "re":
                alts.append({"re": rng.choice(REGEXES)})
            elif t == "r":
                alts.append({"r": rng.choice(mat[i + 1:])})
            else:
                alts.append({"b": rng.choice(BASES)})
        rules.append({"name": r, "t": "match", "alts": alts, "seq": rng.chance(0.25)})
    renderer = rng.choice(["dot", "puml"])
    via = rng.weighted([("tofile", 5), ("tofile_default", 2), ("fileapi", 2), ("generator", 2)])
    if renderer == "puml" and via == "tofile_default":
        via = "tofile"
    lt = rng.choice([None, None, "ortho", "polyline"]) if renderer == "puml" else None
    return {"kind": "mm", "rules": rules, "renderer": renderer, "via": via, "linetype": lt}


def gstr(s):
    return "'" + s.replace("\\", "\\\\").replace("'", "\\'") + "'"


def mm_grammar_text(case):
    out = []
    for r in case["rules"]:
        if r["t"] == "common":
            parts = [f"'{r['name'].lower()}'"]
            for a in r["attrs"]:
                rhs = a["rhs"]
                if rhs["t"] == "kw":
                    b = f"{a['n']}?='{a['n']}'"
                elif rhs["t"] == "rule":
                    b = f"{a['n']}{a['op']}{rhs['r']}"
                elif rhs["t"] == "base":
                    b = f"{a['n']}{a['op']}{rhs['b']}"
                else:
                    b = f"{a['n']}{a['op']}[{rhs['r']}]"
                parts.append(f"({b})?" if a["opt"] else b)
            out.append(f"{r['name']}: {' '.join(parts)};")
        elif r["t"] == "abstract":
            out.append(f"{r['name']}: {' | '.join(r['alts'])};")
        else:
            alts = []
            for a in r["alts"]:
                if "s" in a:
                    alts.append(gstr(a["s"]))
                elif "re" in a:
                    alts.append("/" + a["re"] + "/")
                elif "r" in a:
                    alts.append(a["r"])
                else:
                    alts.append(a["b"])
            out.append(f"{r['name']}: {(' ' if r.get('seq') else ' | ').join(alts)};")
    return "\n".join(out) + "\n"


# --------------------------------------------------------------------------
# running the real code
# --------------------------------------------------------------------------
def norm_ids(text, idmap):
    def sub(m):
        v = int(m.group(0))
        return str(idmap[v]) if v in idmap else m.group(0)

    return re.sub(r"(?<![0-9A-Za-z_.])[0-9]{7,}(?![0-9A-Za-z_.])", sub, text)


def prim_types():
    use_repo()
    from textx.lang import PRIMITIVE_PYTHON_TYPES

    return PRIMITIVE_PYTHON_TYPES


def dump_graph(roots):
    """What the export reads: every object reachable through `_tx_attrs` values."""
    from textx.const import MULT_ONE, MULT_ONEORMORE, MULT_ZEROORMORE

    prims = prim_types()
    idmap, order, objs = {}, [], []

    def num(o):
        if id(o) not in idmap:
            idmap[id(o)] = 1000001 + len(idmap)
            order.append(o)
        return idmap[id(o)]

    def item(x):
        if x is None:
            return None
        if type(x) in prims:
            return {"p": type(x).__name__, "v": str(x)}
        return {"o": num(x)}

    for r in roots:
        num(r)
    k = 0
    while k < len(order):
        o = order[k]
        k += 1
        cls = o.__class__
        d = {"id": idmap[id(o)], "cls": cls.__name__, "attrs": None}
        if hasattr(cls, "_tx_attrs"):
            d["attrs"] = []
            for name, a in cls._tx_attrs.items():
                v = getattr(o, name)
                many = a.mult in (MULT_ONEORMORE, MULT_ZEROORMORE)
                if v is None:
                    val = None
                elif many:
                    if not isinstance(v, list):
                        raise ValueError("list multiplicity without a list value")
                    val = [item(x) for x in v]
                else:
                    if isinstance(v, list):
                        raise ValueError("scalar multiplicity with a list value")
                    val = item(v)
                d["attrs"].append({"name": name, "cont": bool(a.cont), "req": a.mult in (MULT_ONE, MULT_ONEORMORE),
                                   "val": val})
        objs.append(d)
    return objs, idmap


def run_model_case(case, tmp):
    use_repo()
    from textx import get_children, get_model, metamodel_from_str
    from textx import export as ex

    table = []
    for s in case["strings"]:
        if s["t"] == "str":
            table.append(s["v"])
        elif s["t"] == "int":
            table.append(int(s["v"]))
        elif s["t"] == "float":
            table.append(float(s["v"]))
        elif s["t"] == "bool":
            table.append(bool(s["v"]))
        else:
            table.append(Opaque)
    mode = case["mode"]
    classes = case["classes"]
    mm = metamodel_from_str(grammar_text(classes), global_repository=(mode == "global"))

    def conv(s):
        v = table[int(s[1:])]
        return Opaque() if v is Opaque else v

    mm.register_obj_processors({"Str": conv})

    def provider(obj, attr, obj_ref):
        allobjs = get_children(lambda _: True, get_model(obj))
        return allobjs[int(obj_ref.obj_name[1:])]

    mm.register_scope_providers({"*.*": provider})
    models = []
    for f in case["files"]:
        text = obj_text(classes, f["root"])
        if mode in ("single", "repo_str"):
            models.append(mm.model_from_str(text))
        else:
            path = os.path.join(tmp, f["fname"])
            with open(path, "w", encoding="utf-8") as fh:
                fh.write(text)
            models.append(mm.model_from_file(path))
    out_path = os.path.join(tmp, "out.dot")
    if mode in ("single", "file"):
        f = io.StringIO()
        ex.model_export_to_file(f, models[0])
        text = f.getvalue()
        plan = [("plain", models[0])]
    elif mode == "fileapi":
        ex.model_export(models[0], out_path)
        text = open(out_path, encoding="utf-8", newline="").read()
        plan = [("plain", models[0])]
    elif mode == "generator":
        gen = None
        try:
            from textx.registration import generator_for_language_target

            gen = generator_for_language_target("any", "dot").generator
        except Exception:
            from textx import generators

            g = generators.model_generate_dot
            gen = getattr(g, "generator", g)
        outdir = os.path.join(tmp, "outdir")
        os.makedirs(outdir)
        gen(mm, models[0], outdir, True, False)
        produced = os.listdir(outdir)
        if len(produced) != 1:
            return {"outcome": "nofile", "files": sorted(produced)}
        text = open(os.path.join(outdir, produced[0]), encoding="utf-8", newline="").read()
        plan = [("plain", models[0])]
    elif mode in ("repo_arg", "repo_str"):
        f = io.StringIO()
        ex.model_export_to_file(f, repo=list(models))
        text = f.getvalue()
        plan = [("sub", m) for m in models]
    else:  # global repository
        f = io.StringIO()
        ex.model_export_to_file(f, models[-1])
        text = f.getvalue()
        plan = [("sub", m) for m in models[-1]._tx_model_repository.all_models]
    objs, idmap = dump_graph([m for _, m in plan])
    roots = []
    for k, m in plan:
        if k == "plain":
            roots.append(["plain", idmap[id(m)]])
        else:
            kids = [idmap.get(id(o), 0) for o in get_children(lambda _: True, m)]
            fn = str(m._tx_filename)
            roots.append(["sub", fn.replace(tmp, "TMP"), kids, idmap[id(m)]])
    return {"outcome": "ok", "text": norm_ids(text, idmap).replace(tmp, "TMP"), "objs": objs, "roots": roots}


def run_mm_case(case, tmp):
    use_repo()
    import textx
    from textx import export as ex
    from textx import metamodel_from_file, metamodel_from_str
    from textx.lang import ALL_TYPE_NAMES, BASE_TYPE_NAMES

    gtext = mm_grammar_text(case)
    via = case["via"]
    if via in ("generator", "fileapi"):
        gpath = os.path.join(tmp, "gram.tx")
        with open(gpath, "w", encoding="utf-8") as fh:
            fh.write(gtext)
        mm = metamodel_from_file(gpath)
    else:
        mm = metamodel_from_str(gtext)
    captured = []
    orig = ex.get_unified_classes

    def capture(classes):
        r = orig(classes)
        captured.append(list(r))
        return r

    ex.get_unified_classes = capture
    try:
        renderer = None
        if case["renderer"] == "puml":
            renderer = ex.PlantUmlRenderer(case["linetype"])
        elif via != "tofile_default":
            renderer = ex.DotRenderer()
        if via in ("tofile", "tofile_default"):
            f = io.StringIO()
            ex.metamodel_export_tofile(mm, f, renderer)
            text = f.getvalue()
        elif via == "fileapi":
            out = os.path.join(tmp, "out.txt")
            ex.metamodel_export(mm, out, renderer)
            text = open(out, encoding="utf-8", newline="").read()
        else:
            target = "dot" if case["renderer"] == "dot" else "PlantUML"
            try:
                from textx.registration import generator_for_language_target

                gen = generator_for_language_target("textX", target).generator
            except Exception:
                from textx import generators

                g = generators.metamodel_generate_dot if target == "dot" else generators.metamodel_generate_plantuml
                gen = getattr(g, "generator", g)
            outdir = os.path.join(tmp, "outdir")
            os.makedirs(outdir)
            kw = {"linetype": case["linetype"]} if case["linetype"] else {}
            gen(textx.metamodel_for_language("textx"), mm, outdir, True, False, **kw)
            produced = os.listdir(outdir)
            if len(produced) != 1:
                return {"outcome": "nofile", "files": sorted(produced)}
            text = open(os.path.join(outdir, produced[0]), encoding="utf-8", newline="").read()
            renderer = None
    finally:
        ex.get_unified_classes = orig
    if len(captured) != 1:
        return {"outcome": "unmodelled", "why": f"get_unified_classes called {len(captured)} times"}
    unified = captured[0]
    idmap = {id(c): 1000001 + i for i, c in enumerate(unified)}
    rules = {c for c in unified if c.typ == "match" and c.fqn not in ALL_TYPE_NAMES and c.name not in ALL_TYPE_NAMES}
    if renderer is not None and {id(c) for c in renderer.match_rules} != {id(c) for c in rules}:
        return {"outcome": "unmodelled", "why": "match rule set differs from the renderer's"}
    classes = []
    for c in unified:
        attrs = []
        for a in c.attrs:
            if id(a.cls) not in idmap:
                return {"outcome": "unmodelled", "why": "attribute class outside the unified classes"}
            attrs.append({"name": a.name, "cls": idmap[id(a.cls)], "cls_name": a.cls.name, "cls_fqn": a.cls.fqn,
                          "mult": a.mult, "cont": bool(a.cont), "ref": bool(a.ref)})
        inh = []
        for s in c.inh_by:
            if id(s) not in idmap:
                return {"outcome": "unmodelled", "why": "inheriting class outside the unified classes"}
            inh.append(idmap[id(s)])
        classes.append({"id": idmap[id(c)], "name": c.name, "fqn": c.fqn, "typ": c.typ, "attrs": attrs, "inh_by": inh,
                        "match_str": ex.dot_match_str(c, rules) if c in rules else ""})
    return {"outcome": "ok", "text": norm_ids(text, idmap), "classes": classes, "base": list(BASE_TYPE_NAMES)}


def sort_legend(text):
    """PlantUmlRenderer iterates a set: the order of the legend rows is arbitrary."""
    lines = text.split("\n")
    try:
        a = lines.index("  |= Name  |= Rule details |")
        b = lines.index("end legend")
    except ValueError:
        return text
    return "\n".join(lines[: a + 1] + sorted(lines[a + 1: b]) + lines[b:])


class Prop(Check):
    ID = "C29"
    LEAN_MODULE = "TextxVerif.Props.C29"
    THEOREMS = []  # filled below
    DRIVER = "Drivers/Dot.lean"
    QUICK_CASES = 450
    THOROUGH_CASES = 12000
    PROCS_THOROUGH = 4
    RULE = ("non-trivial = a string containing one of \" \\ { } | < > newline reaches an escaped hole of the export "
            "(object name, attribute value, list item, file name, match-rule body) or dot_repr truncates")
    MODELLED = ("regenerated each run (tie T): dot_escape replace chain, dot_repr limit/delimiters, HEADER "
                "(Gen/DotExport.lean); hand-modelled (tie X, exact text): model_export_to_file incl. _export recursion, "
                "processed set, repo / subgraph handling; metamodel_export_tofile with DotRenderer and PlantUmlRenderer; "
                "inputs taken as data: _tx_attrs meta data, attribute values, id(), get_children, get_unified_classes, "
                "dot_match_str, html.escape (modelled, checked by the text comparison); not exhibited: file-system "
                "errors, set iteration order of PlantUML legend rows (compared sorted)")
    ASSUMPTIONS = [
        "class, attribute and rule names are identifiers (textX grammar); grammar file base names are identifiers",
        "Graphviz >= 2.30 scanner: a backslash inside a quoted string protects the next character",
        "record-label grammar as in Graphviz lib/common/shapes.c parse_reclbl",
        "str() of int / float / bool contains no character that is special in DOT strings or record labels",
    ]

    def TRANSLATE(self=None):
        c29_translate.translate(REPO, LEAN_DIR)

    TRANSLATE = staticmethod(TRANSLATE)

    # ---------------------------------------------------------------- cases
    def gen(self, rng, n, tier):
        for i in range(n):
            r = i % 10
            if r < 5:
                yield gen_model_case(rng)
            elif r < 8:
                yield gen_mm_case(rng)
            elif r < 9 or i % 50 != 9:
                yield {"kind": "escape", "s": hostile(rng, 40)}
            else:
                yield {"kind": "args", "model": rng.chance(0.5), "repo": rng.chance(0.5)}

    # ----------------------------------------------------------------- impl
    def impl(self, case):
        use_repo()
        kind = case["kind"]
        if kind == "escape":
            from textx import export as ex

            try:
                return {"outcome": "ok", "esc": ex.dot_escape(case["s"]), "repr": ex.dot_repr(case["s"]),
                        "repr_int": ex.dot_repr(12), "html": ex.html_escape(case["s"])}
            except Exception as e:
                return {"outcome": "raise", "type": type(e).__name__, "msg": str(e)[:200]}
        if kind == "args":
            from textx import export as ex
            from textx import metamodel_from_str

            m = metamodel_from_str("M: 'm' name=ID;").model_from_str("m x")
            f = io.StringIO()
            try:
                ex.model_export_to_file(f, m if case["model"] else None, [m] if case["repo"] else None)
                return {"outcome": "ok", "text": f.getvalue()[:50], "written": len(f.getvalue())}
            except Exception as e:
                return {"outcome": "raise", "type": type(e).__name__, "written": len(f.getvalue())}
        tmp = tempfile.mkdtemp(prefix="c29-")
        try:
            try:
                if kind == "model":
                    return run_model_case(case, tmp)
                return run_mm_case(case, tmp)
            except Exception as e:
                import traceback

                return {"outcome": "raise", "type": type(e).__name__, "msg": str(e)[:300],
                        "tb": traceback.format_exc()[-800:]}
        finally:
            shutil.rmtree(tmp, ignore_errors=True)

    # ---------------------------------------------------------------- model
    def model_req(self, case, obs):
        if obs.get("outcome") != "ok":
            return None
        k = case["kind"]
        if k == "escape":
            return {"op": "escape", "s": case["s"]}
        if k == "model":
            return {"op": "model", "objs": obs["objs"], "roots": obs["roots"], "text": obs["text"]}
        if k == "mm":
            return {"op": "mm", "classes": obs["classes"], "base": obs["base"], "renderer": case["renderer"],
                    "linetype": case["linetype"], "text": obs["text"]}
        return None

    def compare(self, case, obs, out):
        if "err" in out:
            return f"model rejected the request: {out}"
        k = case["kind"]
        if k == "escape":
            for f in ("esc", "repr", "html"):
                if out[f] != obs[f]:
                    return f"{f}: implementation {obs[f]!r}, model {out[f]!r}"
            return None
        if out.get("text") is None:
            return "model produced no text (fuel / dangling id)"
        if out.get("domain") is not True:
            return "case outside the domain of the theorems (unsafe class / attribute name or open object graph)"
        if k == "mm" and case["renderer"] == "puml":
            if sort_legend(out["text"]) != sort_legend(obs["text"]):
                return "PlantUML text differs: " + first_diff(sort_legend(obs["text"]), sort_legend(out["text"]))
            classes, problem = c29_dot.check_puml(obs["text"])
            if (classes is None) != (out["puml"] is None):
                return f"PlantUML recognisers disagree: python {problem or 'accepts'}, lean {'rejects' if out['puml'] is None else 'accepts'}"
            if classes is not None and classes != out["puml"]:
                return f"PlantUML declared classes: python {classes}, lean {out['puml']}"
            return None
        if out["text"] != obs["text"]:
            return "DOT text differs: " + first_diff(obs["text"], out["text"])
        g, problem = c29_dot.check_dot(obs["text"])
        lean_ok = out["evs"] is not None and out["records"]
        if (problem is None) != lean_ok:
            return f"DOT recognisers disagree: python {problem or 'accepts'}, lean {'accepts' if lean_ok else 'rejects'}"
        if lean_ok:
            lean_nodes = [e[1][2:] for e in out["evs"] if e[0] == "node"]
            py_nodes = [i[1] for i in g.node_stmts]
            if lean_nodes != py_nodes:
                return f"node statements: python {py_nodes}, lean {lean_nodes}"
        return None

    # --------------------------------------------------------------- oracle
    def oracle(self, case, obs):
        k = case["kind"]
        if k == "args":
            want_raise = case["model"] == case["repo"]
            if want_raise != (obs["outcome"] == "raise"):
                return f"model={case['model']} repo={case['repo']}: outcome {obs['outcome']}"
            return None
        if obs.get("outcome") != "ok":
            return f"export failed: {obs.get('outcome')} {obs.get('type')} {obs.get('msg') or obs.get('why') or obs.get('files')}"
        if k == "escape":
            # the escaped value, placed between quotes inside a record field, must stay one string / one field
            for f in ("esc", "repr"):
                text = 'digraph { node[shape=record] n [label="{' + obs[f] + '|x}"] }'
                g, problem = c29_dot.check_dot(text)
                if problem:
                    return f"dot_{'escape' if f == 'esc' else 'repr'}({case['s']!r}) = {obs[f]!r} breaks a record label: {problem}"
                lab = g.nodes[("id", "n")]["attrs"]["label"][1]
                if lab != "{" + obs[f] + "|x}":
                    return f"{f}: the quoted string ends early: {lab!r}"
                if len(c29_dot.record_fields(c29_dot.unquote(lab))[0]) != 2:
                    return f"{f}: the label does not have two fields"
            if obs["repr_int"] != "12":
                return "dot_repr(12) != '12'"
            return None
        if k == "model":
            g, problem = c29_dot.check_dot(obs["text"])
            if problem:
                return problem
            stmts = [i[1] for i in g.node_stmts]
            # node statements inside clusters only list members; the defining ones carry a label
            for o in obs["objs"]:
                nid = ("num", str(o["id"]))
                if nid not in g.nodes or "label" not in g.nodes[nid]["attrs"]:
                    return f"no node for object {o['id']} ({o['cls']})"
                lab = g.nodes[nid]["attrs"]["label"]
                fields = c29_dot.record_fields(c29_dot.unquote(lab[1]))
                if len(fields) != 1 or not isinstance(fields[0], list) or len(fields[0]) != 2:
                    return f"label of object {o['id']} is not a {{name|attrs}} record: {lab[1]!r}"
                if not fields[0][0].endswith(":" + o["cls"]):
                    return f"label of object {o['id']} does not name its class: {lab[1]!r}"
            ids = {str(o["id"]) for o in obs["objs"]}
            labelled = [i for i in stmts if i in ids]
            for nid, node in g.nodes.items():
                if nid[0] == "num" and nid[1] not in ids:
                    return f"node {nid[1]} is not an object of the model"
            return None
        # metamodel
        expected = [c for c in obs["classes"] if c["typ"] in ("common", "abstract")
                    and c["fqn"] not in obs["base"] + ["OBJECT"] and c["name"] not in obs["base"] + ["OBJECT"]]
        if case["renderer"] == "dot":
            g, problem = c29_dot.check_dot(obs["text"])
            if problem:
                return problem
            for c in expected:
                nid = ("num", str(c["id"]))
                if nid not in g.nodes or "label" not in g.nodes[nid]["attrs"]:
                    return f"no node for class {c['name']}"
                fields = c29_dot.record_fields(c29_dot.unquote(g.nodes[nid]["attrs"]["label"][1]))
                want = ("*" if c["typ"] == "abstract" else "") + c["name"]
                if len(fields) != 1 or not isinstance(fields[0], list) or fields[0][0] != want:
                    return f"label of class {c['name']} is not a {{name|attrs}} record"
            return None
        classes, problem = c29_dot.check_puml(obs["text"])
        if problem:
            return "PlantUML not balanced: " + problem
        for c in expected:
            if c["fqn"] not in classes:
                return f"PlantUML does not declare class {c['fqn']}"
        return None

    def nontrivial(self, case, obs):
        if obs.get("outcome") != "ok":
            return False
        k = case["kind"]
        if k == "escape":
            return any(ch in SPECIAL for ch in case["s"]) or len(obs["esc"]) > 20
        if k == "model":
            vals = []
            for o in obs["objs"]:
                for a in o["attrs"] or []:
                    v = a["val"]
                    for x in (v if isinstance(v, list) else [v]):
                        if isinstance(x, dict) and x.get("p") == "str":
                            vals.append(x["v"])
            for r in obs["roots"]:
                if r[0] == "sub":
                    vals.append(r[1])
            return any(ch in SPECIAL for v in vals for ch in v) or any(len(v) > 20 for v in vals)
        if k == "mm":
            return any(ch in SPECIAL for c in obs["classes"] for ch in c["match_str"])
        return False

    # --------------------------------------------------------------- search
    def shrink(self, case):
        k = case["kind"]
        if k == "escape":
            s = case["s"]
            for i in range(len(s)):
                yield {"kind": "escape", "s": s[:i] + s[i + 1:]}
            return
        if k == "model":
            if len(case["files"]) > 1:
                for i in range(len(case["files"])):
                    yield dict(case, files=case["files"][:i] + case["files"][i + 1:])
            if case["mode"] not in ("single", "repo_arg", "repo_str"):
                yield dict(case, mode="repo_arg" if case["mode"] == "global" else "single")
            for i, s in enumerate(case["strings"]):
                if s["t"] != "str":
                    yield dict(case, strings=case["strings"][:i] + [{"t": "str", "v": "x"}] + case["strings"][i + 1:])
                elif len(s["v"]) > 0:
                    v = s["v"]
                    cands = {v[: len(v) // 2], v[len(v) // 2:], v[1:], v[:-1]}
                    for c in sorted(cands, key=len):
                        if c != v:
                            yield dict(case, strings=case["strings"][:i] + [{"t": "str", "v": c}] + case["strings"][i + 1:])
            for fi, f in enumerate(case["files"]):
                if len(f["fname"]) > 1:
                    for c in (f["fname"][1:], f["fname"][:-1]):
                        if c not in (".", "..", "") and c.strip(" ") == c and all(c != g["fname"] for g in case["files"]):
                            yield dict(case, files=case["files"][:fi] + [dict(f, fname=c)] + case["files"][fi + 1:])
                for path, sub in list(walk_objs(case["classes"], f["root"])):
                    for an in list(sub["vals"].keys()):
                        a = next(x for x in case["classes"][sub["c"]]["attrs"] if x["n"] == an)
                        if a["opt"] or (a["k"] in ("strs", "ints", "mixed", "children", "refs") and not a.get("plus")):
                            import copy

                            nf = copy.deepcopy(f)
                            tgt = follow(case["classes"], nf["root"], path)
                            if a["opt"]:
                                del tgt["vals"][an]
                            else:
                                tgt["vals"][an] = []
                            if refs_valid(case["classes"], nf["root"]):
                                yield dict(case, files=case["files"][:fi] + [nf] + case["files"][fi + 1:])
            return
        if k == "mm":
            rules = case["rules"]
            for i, r in enumerate(rules):
                if r["t"] == "match" and len(r["alts"]) > 1:
                    for j in range(len(r["alts"])):
                        yield dict(case, rules=rules[:i] + [dict(r, alts=r["alts"][:j] + r["alts"][j + 1:])] + rules[i + 1:])
                if r["t"] == "match":
                    for j, a in enumerate(r["alts"]):
                        if "s" in a and len(a["s"]) > 1:
                            for c in (a["s"][1:], a["s"][:-1]):
                                if not c.endswith("\\"):
                                    yield dict(case, rules=rules[:i] + [dict(r, alts=r["alts"][:j] + [{"s": c}] + r["alts"][j + 1:])] + rules[i + 1:])
                if r["t"] == "common" and r["attrs"]:
                    for j in range(len(r["attrs"])):
                        yield dict(case, rules=rules[:i] + [dict(r, attrs=r["attrs"][:j] + r["attrs"][j + 1:])] + rules[i + 1:])
            if case["via"] != "tofile":
                yield dict(case, via="tofile")

    def extra_search(self, rng, tier, broken):
        out = []
        # every single special character and pairs of them through every escaped hole
        singles = list('"\\{}|<>\n?') + ['\\"', 'a"b', "a\\", "{|}", "x" * 19 + '"', "x" * 19 + "\\",
                                          "x\nend legend\n}", "x\n@enduml\nz", "</td><td>", "&<"]
        for s in singles:
            out.append({"kind": "escape", "s": s})
        for s in singles:
            out.append({"kind": "model", "mode": "single", "classes": [{"attrs": [
                {"n": "name", "k": "name_str", "opt": False}, {"n": "a1", "k": "str", "opt": False},
                {"n": "a2", "k": "mixed", "opt": False, "plus": True}, {"n": "a3", "k": "strs", "opt": False, "plus": True}]}],
                "strings": [{"t": "str", "v": s}],
                "files": [{"fname": "m", "root": {"c": 0, "vals": {"name": 0, "a1": 0, "a2": [{"s": 0}, {"o": {"c": 0, "vals": {"name": 0, "a1": 0, "a2": [{"i": 1}], "a3": [0]}}}], "a3": [0, 0]}}}]})
            fn = s.replace("/", "_").replace("\x00", "_") or "m"
            if fn not in (".", "..") and fn.strip(" ") == fn:
                out.append({"kind": "model", "mode": "repo_arg", "classes": [{"attrs": [{"n": "a0", "k": "int", "opt": True}]}],
                            "strings": [{"t": "str", "v": "x"}], "files": [{"fname": fn, "root": {"c": 0, "vals": {}}}]})
            if not s.endswith("\\"):
                out.append({"kind": "mm", "renderer": "dot", "via": "tofile", "linetype": None, "rules": [
                    {"name": "R0", "t": "common", "attrs": [{"n": "a0", "op": "=", "rhs": {"t": "rule", "r": "M0"}, "opt": False}]},
                    {"name": "M0", "t": "match", "alts": [{"s": s}]}]})
                out.append({"kind": "mm", "renderer": "puml", "via": "tofile", "linetype": None, "rules": [
                    {"name": "R0", "t": "common", "attrs": [{"n": "a0", "op": "=", "rhs": {"t": "rule", "r": "M0"}, "opt": False}]},
                    {"name": "M0", "t": "match", "alts": [{"s": s}]}]})
        return out + list(self.gen(rng, 1500, tier))

    def sample_view(self, case, obs):
        o = dict(obs)
        for k in ("objs", "classes", "tb"):
            o.pop(k, None)
        if isinstance(o.get("text"), str) and len(o["text"]) > 1500:
            o["text"] = o["text"][:1500] + "…"
        return {"case": case, "impl": o}

    def extra_evidence(self, cases, obs, model_outs):
        kinds = {}
        dot_checked = 0
        for c, o in zip(cases, obs):
            key = c["kind"] + (":" + c.get("mode", c.get("renderer", "")) if c["kind"] in ("model", "mm") else "")
            kinds[key] = kinds.get(key, 0) + 1
        gv = graphviz_crosscheck(cases, obs, limit=8 if len(cases) < 2000 else 60)
        return {"distribution": kinds, "graphviz_crosscheck": gv}


def graphviz_crosscheck(cases, obs, limit):
    """When a Graphviz binary is present: run it on some exported DOT texts and compare its
    verdict with the Python oracle's (validation of the oracle itself, not of textX)."""
    import subprocess

    dot = shutil.which("dot")
    if not dot:
        return {"available": False}
    n = agree = 0
    bad = []
    for c, o in zip(cases, obs):
        if n >= limit:
            break
        if not isinstance(o, dict) or o.get("outcome") != "ok" or "text" not in o:
            continue
        if c["kind"] == "mm" and c["renderer"] != "dot":
            continue
        if c["kind"] not in ("model", "mm"):
            continue
        n += 1
        try:
            p = subprocess.run([dot, "-Tplain"], input=o["text"], capture_output=True, text=True, timeout=20)
            gv_ok = p.returncode == 0 and "Error" not in p.stderr and "syntax" not in p.stderr
        except Exception:
            continue
        _, problem = c29_dot.check_dot(o["text"])
        if gv_ok == (problem is None):
            agree += 1
        else:
            bad.append({"graphviz_ok": gv_ok, "oracle": problem})
    return {"available": True, "checked": n, "agree": agree, "disagreements": bad[:3]}


def first_diff(a, b):
    i = 0
    while i < min(len(a), len(b)) and a[i] == b[i]:
        i += 1
    return f"at offset {i}: implementation {a[max(0, i - 30): i + 30]!r} vs model {b[max(0, i - 30): i + 30]!r}"


def walk_objs(classes, o, path=()):
    yield path, o
    for a in classes[o["c"]]["attrs"]:
        v = o["vals"].get(a["n"])
        if v is None:
            continue
        if a["k"] == "child":
            yield from walk_objs(classes, v, path + ((a["n"], None),))
        elif a["k"] == "children":
            for i, x in enumerate(v):
                yield from walk_objs(classes, x, path + ((a["n"], i),))
        elif a["k"] == "mixed":
            for i, x in enumerate(v):
                if "o" in x:
                    yield from walk_objs(classes, x["o"], path + ((a["n"], i),))


def follow(classes, o, path):
    for an, i in path:
        v = o["vals"][an]
        if i is None:
            o = v
        else:
            o = v[i]["o"] if "o" in v[i] and "c" not in v[i] else v[i]
    return o


def refs_valid(classes, root):
    objs = preorder(classes, root, [])
    for o in objs:
        for a in classes[o["c"]]["attrs"]:
            if a["k"] in ("ref", "refs") and a["n"] in o["vals"]:
                v = o["vals"][a["n"]]
                for t in (v if isinstance(v, list) else [v]):
                    if not isinstance(t, int) or t >= len(objs) or objs[t]["c"] != a["c"]:
                        return False
    return True


Prop.THEOREMS = [
    "Dot.C29_escape_chain",
    "Dot.C29_escape_safe",
    "Dot.C29_repr_safe",
    "Dot.C29_record_label",
    "Dot.C29_render_valid",
    "Dot.C29_model_export_valid",
    "Dot.C29_model_nodes_recognised",
    "Dot.C29_model_export_total",
    "Dot.C29_metamodel_dot_valid",
    "Dot.C29_plantuml_balanced",
    "Dot.C29_model_export_checked",
    "Dot.C29_metamodel_dot_checked",
    "Dot.C29_plantuml_checked",
    "Dot.C29_unescaped_false",
]
