"""C29 — graph exports are well-formed for any model and metamodel.

Implementation side (real code): `textx.export.model_export[_to_file]`,
`metamodel_export[_tofile]` with `DotRenderer` / `PlantUmlRenderer`, the registered
generators of `textx/generators.py`, `dot_escape`, `dot_repr`.

Cases
  kind "model": a generated grammar (classes with name / str / int / float / bool /
      primitive-list / mixed-list / containment / reference attributes), a generated
      object tree with hostile string values, 1..3 model files with hostile file names;
      a *repository situation*: scope provider of the metamodel (plain function, ImportURI
      with glob or search path, GlobalRepo with registered files), metamodel-wide global
      repository or not, import statements between the files (also cyclic) with references
      across files, a history of explicit loads (from file / from string) and the call
      `model_export_to_file(f, model, repo)` with model = one of the loaded models or None and
      repo = None / [] / a list of models / the (possibly empty) `all_models` of a model or
      of the metamodel; through the file object, the file API or the `any -> dot` generator;
      *user classes* (`classes=[...]`) for any of the generated classes with one of the Python
      protocols of `UCLS` (`__len__`/`__iter__`, `__bool__`, `__eq__` with / without `__hash__`):
      falsy, all-equal and unhashable objects in every position (root, value of a single-valued
      containment / reference, item of a containment / mixed / reference list), also
      systematically (`protocol_sweep`); falsy primitive values (0, 0.0, "", False, []).
      (cases with the older field "mode" are read as the corresponding situation.)
  kind "mm": a generated grammar (common / abstract / match rules, hostile string and
      regex matches, base types, OBJECT, references, all multiplicities) exported with
      the DOT or the PlantUML renderer (file object, file API, generators), optionally with user
      classes for common rules.
  kind "escape": `dot_escape` / `dot_repr` on one hostile string.
  kind "args": the argument checks of `model_export_to_file` (malformed stream).

Tie T: `harness/c29_translate.py` regenerates `Gen/DotExport.lean` from export.py.
Tie X: the Lean model renders the same text from a dump of what the export reads; the
Lean recogniser and the Python DOT parser must agree on the real text.
"""
import copy
import glob
import io
import os
import re
import shutil
import tempfile

from harness import c29_dot, c29_translate
from harness.core import LEAN_DIR, REPO, Check, use_repo

SPECIAL = '"\\{}|<>\n'
PIECES = ['"', "\\", "{", "}", "|", "<", ">", "\n", "?", "'", "&", ";", ":", "[", "]", "-", "=", ",", "#", "/", "*",
          " ", "\t", "\\n", "\\l", "->", "//", "/*", '\\"', '}"', ']"', '"]', "é", "☃", "&amp;", "%", "@", "x", "ab",
          "Z9", "_", ".", "0", "\r", "\\\\", '\\\\"', "|}", "{|", "<b>", "$", "\nend legend\n", "\n}\n", "\n@enduml\n"]
PLAIN = "abcdefghijklmnopqrstuvwxyzABCDEFGHIJKLMNOPQRSTUVWXYZ0123456789_ "
FNAME_PIECES = ['"', "\\", "{", "}", "|", "<", ">", "\n", "?", "'", "&", ";", " ", "é", "a", "b", "m", "x", "-", "=", "["]
BASES = ["STRING", "INT", "FLOAT", "BOOL", "ID", "NUMBER", "STRICTFLOAT"]
REGEXES = [r"a{2,3}", r"<[^>]*>", r'"[^"]*"', r"\|+", r"[{}]", r"x|y", r"\\+", r"&amp;", r"\n", r"\w+\?", r"[^|]*\|",
           r"\d+", r"'", r"\/\*", r"#.*$", r"a\>b"]


class Opaque:
    """an attribute value of a class textX knows nothing about"""


def hostile(rng, maxlen=30):
    k = rng.weighted([("plain", 2), ("mix", 6), ("limit", 3), ("empty", 1), ("one", 2)])
    if k == "empty":
        return ""
    if k == "plain":
        return "".join(rng.choice(PLAIN) for _ in range(rng.randint(1, 12)))
    if k == "one":
        return rng.choice(PIECES)
    if k == "limit":
        # specials around the truncation limit of dot_repr (20 escaped characters)
        n = rng.randint(14, 21)
        s = "".join(rng.choice(PLAIN) for _ in range(n))
        for _ in range(rng.randint(1, 3)):
            s += rng.choice(PIECES[:10])
        return s + "".join(rng.choice(PLAIN) for _ in range(rng.randint(0, 4)))
    out = ""
    for _ in range(rng.randint(1, 8)):
        out += rng.choice(PIECES) if rng.chance(0.7) else rng.choice(PLAIN)
    return out[:maxlen]


def hostile_fname(rng):
    s = "".join(rng.choice(FNAME_PIECES) for _ in range(rng.randint(1, 6)))
    s = s.strip(" ") or "m"
    if s in (".", ".."):
        s = "m"
    return s


# --------------------------------------------------------------------------
# model cases
# --------------------------------------------------------------------------
ATTR_KINDS = [("name_str", 4), ("name_int", 1), ("str", 4), ("int", 2), ("float", 1), ("bool", 2), ("strs", 3),
              ("ints", 1), ("mixed", 4), ("child", 2), ("children", 3), ("ref", 2), ("refs", 2)]


def gen_classes(rng):
    ncls = rng.randint(1, 3)
    classes = []
    for ci in range(ncls):
        attrs = []
        has_name = False
        for ai in range(rng.randint(1, 5)):
            k = rng.weighted(ATTR_KINDS)
            if k.startswith("name"):
                if has_name:
                    k = "str"
                else:
                    has_name = True
            a = {"n": "name" if k.startswith("name") else f"a{ai}", "k": k, "opt": rng.chance(0.6)}
            if k in ("strs", "ints", "mixed", "children", "refs"):
                a["plus"] = rng.chance(0.5)
            if k in ("child", "children", "ref", "refs"):
                a["c"] = rng.below(ncls)
            attrs.append(a)
        classes.append({"attrs": attrs})
    return classes


def gen_obj(rng, classes, ci, depth, nstr, budget):
    budget[0] -= 1
    vals = {}
    for a in classes[ci]["attrs"]:
        k = a["k"]
        if a["opt"] and rng.chance(0.3):
            continue
        if k in ("name_str", "str"):
            vals[a["n"]] = rng.below(nstr)
        elif k in ("name_int", "int"):
            vals[a["n"]] = 0 if rng.chance(0.15) else rng.randint(0, 99999)  # 0: a falsy value that is not None
        elif k == "float":
            vals[a["n"]] = rng.choice(["1.5", "0.25", "3e10", "12.0", "1e-7", "0.0"])
        elif k == "bool":
            vals[a["n"]] = True
        elif k == "strs":
            vals[a["n"]] = [rng.below(nstr) for _ in range(rng.randint(1 if a.get("plus") else 0, 4))]
        elif k == "ints":
            vals[a["n"]] = [rng.randint(0, 999) if rng.chance(0.85) else 0 for _ in range(rng.randint(1 if a.get("plus") else 0, 4))]
        elif k == "mixed":
            items = []
            for _ in range(rng.randint(1 if a.get("plus") else 0, 5)):
                t = rng.weighted([("s", 5), ("i", 2), ("f", 1), ("o", 3 if depth < 3 and budget[0] > 0 else 0)])
                if t == "s":
                    items.append({"s": rng.below(nstr)})
                elif t == "i":
                    items.append({"i": rng.randint(0, 999) if rng.chance(0.8) else 0})
                elif t == "f":
                    items.append({"f": rng.choice(["1.5", "0.25", "7.0", "0.0"])})
                else:
                    items.append({"o": gen_obj(rng, classes, rng.below(len(classes)), depth + 1, nstr, budget)})
            vals[a["n"]] = items
        elif k == "child":
            if depth < 3 and budget[0] > 0:
                vals[a["n"]] = gen_obj(rng, classes, a["c"], depth + 1, nstr, budget)
            elif not a["opt"]:
                vals[a["n"]] = {"c": a["c"], "vals": None}  # minimal object, filled by fix_minimal
        elif k == "children":
            n = rng.randint(1 if a.get("plus") else 0, 3) if depth < 3 and budget[0] > 0 else (1 if a.get("plus") else 0)
            vals[a["n"]] = [gen_obj(rng, classes, a["c"], depth + 1, nstr, budget) if depth < 3 and budget[0] > 0
                            else {"c": a["c"], "vals": None} for _ in range(n)]
        elif k in ("ref", "refs"):
            vals[a["n"]] = "REF" if k == "ref" else ["REF"] * rng.randint(1 if a.get("plus") else 0, 3)
    return {"c": ci, "vals": vals}


def minimal_obj(classes, ci, seen=()):
    """smallest object of class ci (mandatory attributes only); None if impossible"""
    if ci in seen:
        return None
    vals = {}
    for a in classes[ci]["attrs"]:
        if a["opt"]:
            continue
        k = a["k"]
        if k in ("name_str", "str"):
            vals[a["n"]] = 0
        elif k in ("name_int", "int"):
            vals[a["n"]] = 7
        elif k == "float":
            vals[a["n"]] = "1.5"
        elif k == "bool":
            vals[a["n"]] = True
        elif k in ("strs",):
            vals[a["n"]] = [0] if a.get("plus") else []
        elif k in ("ints",):
            vals[a["n"]] = [1] if a.get("plus") else []
        elif k == "mixed":
            vals[a["n"]] = [{"i": 1}] if a.get("plus") else []
        elif k == "child":
            m = minimal_obj(classes, a["c"], seen + (ci,))
            if m is None:
                return None
            vals[a["n"]] = m
        elif k == "children":
            if a.get("plus"):
                m = minimal_obj(classes, a["c"], seen + (ci,))
                if m is None:
                    return None
                vals[a["n"]] = [m]
            else:
                vals[a["n"]] = []
        elif k == "ref":
            vals[a["n"]] = "REF"
        elif k == "refs":
            vals[a["n"]] = ["REF"] if a.get("plus") else []
    return {"c": ci, "vals": vals}


def fix_minimal(classes, o):
    """replace {"vals": None} placeholders; returns False when a mandatory cycle makes it impossible"""
    if o["vals"] is None:
        m = minimal_obj(classes, o["c"])
        if m is None:
            return False
        o["vals"] = m["vals"]
    for v in o["vals"].values():
        subs = []
        if isinstance(v, dict) and "c" in v:
            subs = [v]
        elif isinstance(v, list):
            subs = [x if "c" in x else x.get("o") for x in v if isinstance(x, dict)]
        for s in subs:
            if s is not None and not fix_minimal(classes, s):
                return False
    return True


def preorder(classes, o, out):
    """objects in the order of get_children (containment, _tx_attrs order)"""
    out.append(o)
    for a in classes[o["c"]]["attrs"]:
        v = o["vals"].get(a["n"])
        if v is None:
            continue
        if a["k"] == "child":
            preorder(classes, v, out)
        elif a["k"] == "children":
            for x in v:
                preorder(classes, x, out)
        elif a["k"] == "mixed":
            for x in v:
                if "o" in x:
                    preorder(classes, x["o"], out)
    return out


def assign_refs(rng, classes, root):
    """give every "REF" a target: index (in preorder) of an object of the right class;
    drop the attribute when there is none and it is optional; False if impossible"""
    objs = preorder(classes, root, [])
    bycls = {}
    for i, o in enumerate(objs):
        bycls.setdefault(o["c"], []).append(i)
    for o in objs:
        for a in classes[o["c"]]["attrs"]:
            if a["k"] not in ("ref", "refs") or a["n"] not in o["vals"]:
                continue
            cands = bycls.get(a["c"], [])
            if not cands:
                if a["k"] == "refs" and not a.get("plus"):
                    o["vals"][a["n"]] = []
                    continue
                if a["opt"]:
                    del o["vals"][a["n"]]
                    continue
                return False
            if a["k"] == "ref":
                o["vals"][a["n"]] = rng.choice(cands)
            else:
                o["vals"][a["n"]] = [rng.choice(cands) for _ in o["vals"][a["n"]]]
    return True


def grammar_text(classes, wrap=False, imports=False):
    ncls = len(classes)
    lines = []
    if wrap and imports:  # models of a language with import statements: Model(imports, root)
        lines.append("Model: imports*=Import root=C0;")
        lines.append("Import: 'import' importURI=Imp;")
    elif wrap:
        lines.append("Model: 'model' root=C0;")
    for ci, c in enumerate(classes):
        parts = []
        for a in c["attrs"]:
            n, k = a["n"], a["k"]
            op = "+=" if a.get("plus") else "*="
            if k == "name_str" or k == "str":
                body = f"'{n}' {n}=Str"
            elif k == "name_int" or k == "int":
                body = f"'{n}' {n}=INT"
            elif k == "float":
                body = f"'{n}' {n}=STRICTFLOAT"
            elif k == "bool":
                body = f"{n}?='{n}'"
            elif k == "strs":
                body = f"'{n}' '[' {n}{op}Str[','] ']'"
            elif k == "ints":
                body = f"'{n}' '[' {n}{op}INT[','] ']'"
            elif k == "mixed":
                body = f"'{n}' '[' {n}{op}Val[','] ']'"
            elif k == "child":
                body = f"'{n}' {n}=C{a['c']}"
            elif k == "children":
                body = f"'{n}' '[' {n}{op}C{a['c']} ']'"
            elif k == "ref":
                body = f"'{n}' {n}=[C{a['c']}:Ref]"
            else:
                body = f"'{n}' '[' {n}{op}[C{a['c']}:Ref][','] ']'"
            if k == "bool":
                parts.append(body if not a["opt"] else f"({body})?")
            else:
                parts.append(f"({body})?" if a["opt"] else body)
        lines.append(f"C{ci}: 'c{ci}' '{{' {' '.join(parts)} '}}';")
    lines.append("Val: Str | STRICTFLOAT | INT | " + " | ".join(f"C{i}" for i in range(ncls)) + ";")
    lines.append(r"Str: /s\d+/;")
    lines.append(r"Ref: /(x\d+)?r\d+/;")
    if wrap and imports:
        lines.append(r"Imp: /f\d+/;")
    return "\n".join(lines) + "\n"


def ref_text(v):
    """a reference: index k in the own file (`r<k>`) or {"x": file, "r": k} (`x<file>r<k>`)"""
    return f"x{v['x']}r{v['r']}" if isinstance(v, dict) else f"r{v}"


def obj_text(classes, o):
    c = classes[o["c"]]
    parts = [f"c{o['c']}", "{"]
    for a in c["attrs"]:
        n, k = a["n"], a["k"]
        if n not in o["vals"]:
            continue
        v = o["vals"][n]
        if k in ("name_str", "str"):
            parts += [n, f"s{v}"]
        elif k in ("name_int", "int"):
            parts += [n, str(v)]
        elif k == "float":
            parts += [n, v]
        elif k == "bool":
            parts += [n]
        elif k == "strs":
            parts += [n, "[", " , ".join(f"s{x}" for x in v), "]"]
        elif k == "ints":
            parts += [n, "[", " , ".join(str(x) for x in v), "]"]
        elif k == "mixed":
            its = []
            for x in v:
                if "s" in x:
                    its.append(f"s{x['s']}")
                elif "i" in x:
                    its.append(str(x["i"]))
                elif "f" in x:
                    its.append(x["f"])
                else:
                    its.append(obj_text(classes, x["o"]))
            parts += [n, "[", " , ".join(its), "]"]
        elif k == "child":
            parts += [n, obj_text(classes, v)]
        elif k == "children":
            parts += [n, "[", " ".join(obj_text(classes, x) for x in v), "]"]
        elif k == "ref":
            parts += [n, ref_text(v)]
        else:
            parts += [n, "[", " , ".join(ref_text(x) for x in v), "]"]
    parts.append("}")
    return " ".join(parts)


def file_text(case, fi):
    f = case["files"][fi]
    body = obj_text(case["classes"], f["root"])
    if has_imports(case):
        return "".join(f"import f{j}\n" for j in f.get("imports", [])) + body
    if is_wrapped(case):
        return "model " + body
    return body


# --------------------------------------------------------------------------
# repository situations
# --------------------------------------------------------------------------
PROVS = ("own", "import", "import_sp", "globrepo")


def has_imports(case):
    return case.get("prov", "own").startswith("import")


def is_wrapped(case):
    """the model root is an object of a class `Model` around the generated C0 object"""
    return has_imports(case) or bool(case.get("wrapper"))


def make_falsy_class(how):
    """a user class for the model root whose instances are falsy, as container-like classes are
    (`__len__` over the elements of an empty model) """

    def init(self, parent=None, **kw):
        for k, v in kw.items():
            setattr(self, k, v)

    body = {"__init__": init}
    if how == "len":
        body["__len__"] = lambda self: 0
    else:
        body["__bool__"] = lambda self: False
    return type("Model", (), body)


# Python protocols a user class (`classes=[...]` of the metamodel) may define for its instances.  The
# export has to treat such an object like any other: whether an object is part of the model is a matter
# of `is None`, never of its truth value, its `==` or its hash.
#   plain   an ordinary user class
#   len     container-like: `__len__` / `__iter__` over the items of its list attributes (no items: falsy)
#   bool    `__bool__` = its first `?=` attribute (false when not set; always false without such an attribute)
#   eq      `__eq__`: all instances of the class are equal, `__hash__` constant
#   unhash  `__eq__` without `__hash__`: instances are unhashable (what `@dataclass` gives)
UCLS = ("plain", "len", "bool", "eq", "unhash")
LIST_KINDS = ("strs", "ints", "mixed", "children", "refs")


def make_user_class(name, how, spec):
    """user class `name` with protocol `how` for the generated class `spec`"""
    lists = [a["n"] for a in spec["attrs"] if a["k"] in LIST_KINDS]
    flags = [a["n"] for a in spec["attrs"] if a["k"] == "bool"]

    def init(self, parent=None, **kw):
        self.parent = parent
        for k, v in kw.items():
            setattr(self, k, v)

    def items(self):
        out = []
        for n in lists:
            out += getattr(self, n, None) or []
        return out

    body = {"__init__": init}
    if how == "len":
        body["__len__"] = lambda self: len(items(self))
        body["__iter__"] = lambda self: iter(items(self))
    elif how == "bool":
        body["__bool__"] = lambda self: bool(flags and getattr(self, flags[0], False))
    elif how in ("eq", "unhash"):
        body["__eq__"] = lambda self, other: type(other) is type(self)
        body["__hash__"] = (lambda self: 0) if how == "eq" else None
    elif how != "plain":
        raise ValueError("unknown user class protocol")
    return type(name, (), body)


def gen_user_classes(rng, classes):
    """a protocol (or None = the class textX creates) for every generated class"""
    if not rng.chance(0.55):
        return None
    u = [rng.weighted([(None, 3), ("plain", 1), ("len", 3), ("bool", 3), ("eq", 1), ("unhash", 1)]) for _ in classes]
    return u if any(u) else None


def normalize_case(case):
    """cases written before the repository situations existed carry a "mode" """
    if "call" in case:
        return case
    mode = case.get("mode", "single")
    n = len(case["files"])
    c = dict(case, prov="own", mm_global=(mode == "global"), reg=[])
    c.pop("mode", None)
    how = "str" if mode in ("single", "repo_str") else "file"
    if mode in ("single", "file", "fileapi", "generator"):
        c["loads"] = [{"f": 0, "how": how}]
        c["call"] = {"model": 0, "repo": None,
                     "via": {"fileapi": "fileapi", "generator": "generator"}.get(mode, "tofile")}
    elif mode in ("repo_arg", "repo_str"):
        c["loads"] = [{"f": i, "how": how} for i in range(n)]
        c["call"] = {"model": None, "repo": {"t": "list", "of": list(range(n))}, "via": "tofile"}
    else:
        c["loads"] = [{"f": i, "how": "file"} for i in range(n)]
        c["call"] = {"model": n - 1, "repo": None, "via": "tofile"}
    return c


def visible_files(case, fi):
    """files whose objects a reference in file fi may name (`local_models` of the loaded model)"""
    prov = case.get("prov", "own")
    if prov.startswith("import"):
        return [j for j in case["files"][fi].get("imports", []) if j != fi]
    if prov == "globrepo":
        return [j for j in case.get("reg", []) if j != fi]
    return []


def all_refs(classes, root):
    for o in preorder(classes, root, []):
        for a in classes[o["c"]]["attrs"]:
            if a["k"] in ("ref", "refs") and a["n"] in o["vals"]:
                v = o["vals"][a["n"]]
                for t in (v if isinstance(v, list) else [v]):
                    yield a, t


def valid_case(case):
    """structural validity of a (normalised) model case — used by the generator and the shrinker"""
    files, classes = case["files"], case["classes"]
    n = len(files)
    prov = case.get("prov", "own")
    if prov not in PROVS or n == 0 or len({f["fname"] for f in files}) != n:
        return False
    pre = [preorder(classes, f["root"], []) for f in files]
    for fi, f in enumerate(files):
        imps = f.get("imports", [])
        if imps and not prov.startswith("import"):
            return False
        if any(not (0 <= j < n) for j in imps) or len(set(imps)) != len(imps):
            return False
        vis = visible_files(case, fi)
        for a, t in all_refs(classes, f["root"]):
            if isinstance(t, dict):
                if t["x"] not in vis or not (0 <= t["r"] < len(pre[t["x"]])) or pre[t["x"]][t["r"]]["c"] != a["c"]:
                    return False
            elif not isinstance(t, int) or not (0 <= t < len(pre[fi])) or pre[fi][t]["c"] != a["c"]:
                return False
    if any(not (0 <= j < n) for j in case.get("reg", [])) or (case.get("reg") and prov != "globrepo"):
        return False
    loads = case["loads"]
    if not loads:
        return False
    for ld in loads:
        if not (0 <= ld["f"] < n) or ld["how"] not in ("file", "str"):
            return False
        if ld["how"] == "str" and files[ld["f"]].get("imports"):
            return False  # textX cannot resolve imports of a model without a file name
    call = case["call"]
    ks = [] if call["model"] is None else [call["model"]]
    r = call["repo"]
    if r is not None:
        ks += r["of"] if r["t"] == "list" else ([r["of"]] if r["t"] == "own" else [])
        if r["t"] == "mm" and not case.get("mm_global"):
            return False
    if any(not (0 <= k < len(loads)) for k in ks):
        return False
    if case.get("falsy") not in (None, "len", "bool") or (case.get("falsy") and not is_wrapped(case)):
        return False
    u = case.get("ucls")
    if u is not None and (not isinstance(u, list) or len(u) != len(classes) or any(x is not None and x not in UCLS for x in u)):
        return False
    if call["via"] == "generator" and (call["model"] is None or r is not None or loads[call["model"]]["how"] != "file"):
        return False  # the generator derives the output file name from the file name of the model
    return call["via"] in ("tofile", "fileapi", "generator")


def assign_cross_refs(rng, case):
    """let some references point into a file that is visible from the referencing one"""
    classes = case["classes"]
    pre = [preorder(classes, f["root"], []) for f in case["files"]]
    for fi, f in enumerate(case["files"]):
        vis = visible_files(case, fi)
        if not vis:
            continue
        for o in pre[fi]:
            for a in classes[o["c"]]["attrs"]:
                if a["k"] not in ("ref", "refs") or a["n"] not in o["vals"]:
                    continue

                def cross(t):
                    if not rng.chance(0.45):
                        return t
                    j = rng.choice(vis)
                    cands = [k for k, x in enumerate(pre[j]) if x["c"] == a["c"]]
                    return {"x": j, "r": rng.choice(cands)} if cands else t

                v = o["vals"][a["n"]]
                o["vals"][a["n"]] = [cross(t) for t in v] if isinstance(v, list) else cross(v)


def gen_situation(rng, nfiles, files):
    """scope provider, global repository, imports, load history and the call"""
    prov = rng.weighted([("own", 5), ("import", 5), ("import_sp", 1), ("globrepo", 2)])
    mm_global = rng.chance(0.35)
    reg = []
    if prov.startswith("import"):
        for i, f in enumerate(files):
            f["imports"] = [j for j in range(nfiles) if j != i and rng.chance(0.4)]
    elif prov == "globrepo":
        reg = [j for j in range(nfiles) if rng.chance(0.5)]
    loads = []
    for _ in range(rng.weighted([(1, 4), (2, 3), (3, 2)])):
        fi = rng.below(nfiles)
        how = "file" if files[fi].get("imports") or rng.chance(0.6) else "str"
        loads.append({"f": fi, "how": how})
    if mm_global and prov != "own" and rng.chance(0.4):
        # a model loaded from a string after a model loaded from a file: it carries the shared
        # repository of the metamodel without being a member of it
        free = [i for i in range(nfiles) if not files[i].get("imports")]
        if free:
            loads = [{"f": rng.below(nfiles), "how": "file"}] + loads[:1] + [{"f": rng.choice(free), "how": "str"}]
    nl = len(loads)
    last = nl - 1 if rng.chance(0.7) else rng.below(nl)
    shape = rng.weighted([("model", 10), ("model+empty", 2), ("model+own", 2), ("list", 4), ("own", 2),
                          ("mm", 2 if mm_global else 0), ("both", 1), ("neither", 1)])
    if shape == "model":
        call = {"model": last, "repo": None}
    elif shape == "model+empty":
        call = {"model": last, "repo": {"t": "list", "of": []}}
    elif shape == "model+own":
        call = {"model": last, "repo": {"t": "own", "of": last if rng.chance(0.7) else rng.below(nl)}}
    elif shape == "list":
        call = {"model": None, "repo": {"t": "list", "of": [rng.below(nl) for _ in range(rng.randint(1, 3))]}}
    elif shape == "own":
        call = {"model": None, "repo": {"t": "own", "of": last}}
    elif shape == "mm":
        call = {"model": last if rng.chance(0.2) else None, "repo": {"t": "mm"}}
    elif shape == "both":
        call = {"model": last, "repo": {"t": "list", "of": [rng.below(nl)]}}
    else:
        call = {"model": None, "repo": rng.choice([None, {"t": "list", "of": []}])}
    vias = [("tofile", 5), ("fileapi", 2)] + ([("generator", 2)] if shape == "model" and loads[last]["how"] == "file" else [])
    call["via"] = rng.weighted(vias)
    wrapper = prov.startswith("import") or rng.chance(0.3)
    falsy = rng.choice(["len", "bool"]) if wrapper and rng.chance(0.25) else None
    return {"prov": prov, "mm_global": mm_global, "reg": reg, "loads": loads, "call": call,
            "wrapper": wrapper, "falsy": falsy}


def gen_model_case(rng):
    for _ in range(20):
        classes = gen_classes(rng)
        nstr = rng.randint(1, 6)
        strings = []
        for _ in range(nstr):
            t = rng.weighted([("str", 12), ("int", 1), ("float", 1), ("bool", 1), ("opaque", 1)])
            if t == "str":
                strings.append({"t": "str", "v": hostile(rng)})
            elif t == "int":
                strings.append({"t": "int", "v": rng.choice([0, rng.randint(0, 9999)])})
            elif t == "float":
                strings.append({"t": "float", "v": rng.choice(["2.5", "1e+20", "0.1", "0.0"])})
            elif t == "bool":
                strings.append({"t": "bool", "v": rng.chance(0.5)})
            else:
                strings.append({"t": "opaque"})
        legacy = rng.chance(0.4)
        mode = rng.weighted([("single", 4), ("file", 2), ("repo_arg", 3), ("global", 3), ("generator", 2), ("fileapi", 2),
                             ("repo_str", 1)])
        if legacy:
            nfiles = 1 if mode in ("single", "file", "generator", "fileapi") else rng.randint(1, 3)
        else:
            nfiles = rng.randint(1, 3)
        files = []
        ok = True
        names = set()
        for _fi in range(nfiles):
            root = gen_obj(rng, classes, 0, 0, nstr, [rng.randint(1, 9) if legacy else rng.randint(1, 6)])
            if not fix_minimal(classes, root) or not assign_refs(rng, classes, root):
                ok = False
                break
            fn = hostile_fname(rng)
            while fn in names:
                fn += "x"
            names.add(fn)
            files.append({"fname": fn, "root": root})
        if not ok:
            continue
        ucls = gen_user_classes(rng, classes)
        if legacy:
            case = {"kind": "model", "mode": mode, "classes": classes, "strings": strings, "files": files}
            if ucls:
                case["ucls"] = ucls
            return case
        case = {"kind": "model", "classes": classes, "strings": strings, "files": files}
        if ucls:
            case["ucls"] = ucls
        case.update(gen_situation(rng, nfiles, files))
        assign_cross_refs(rng, case)
        if valid_case(case):
            return case
    return {"kind": "model", "mode": "single", "classes": [{"attrs": [{"n": "a0", "k": "int", "opt": True}]}],
            "strings": [{"t": "str", "v": "x"}], "files": [{"fname": "m", "root": {"c": 0, "vals": {}}}]}


# --------------------------------------------------------------------------
# metamodel cases
# --------------------------------------------------------------------------
def gen_mm_case(rng):
    ncom = rng.randint(1, 4)
    nabs = rng.randint(0, 2)
    nmat = rng.randint(0, 3)
    com = [f"R{i}" for i in range(ncom)]
    abst = [f"A{i}" for i in range(nabs)]
    mat = [f"M{i}" for i in range(nmat)]
    rules = []
    for i, r in enumerate(com):
        attrs = []
        for ai in range(rng.randint(0 if i else 1, 5)):
            op = rng.weighted([("=", 5), ("+=", 2), ("*=", 2), ("?=", 1)])
            if op == "?=":
                rhs = {"t": "kw"}
            else:
                t = rng.weighted([("rule", 4), ("base", 4), ("ref", 3), ("obj", 1), ("match", 2 if mat else 0)])
                if t == "rule":
                    rhs = {"t": "rule", "r": rng.choice(com + abst)}
                elif t == "base":
                    rhs = {"t": "base", "b": rng.choice(BASES)}
                elif t == "ref":
                    rhs = {"t": "ref", "r": rng.choice(com + abst)}
                elif t == "obj":
                    rhs = {"t": "ref", "r": "OBJECT"}
                else:
                    rhs = {"t": "rule", "r": rng.choice(mat)}
            attrs.append({"n": rng.choice(["name", f"a{ai}", f"b{ai}"]) if ai == 0 else f"a{ai}", "op": op, "rhs": rhs,
                          "opt": rng.chance(0.4)})
        rules.append({"name": r, "t": "common", "attrs": attrs})
    for i, r in enumerate(abst):
        pool = com + abst[i + 1:] + mat
        alts = rng.sample(pool, rng.randint(1, min(3, len(pool))))
        if not any(a in com for a in alts):
            alts[0] = rng.choice(com)
        rules.append({"name": r, "t": "abstract", "alts": alts})
    for i, r in enumerate(mat):
        alts = []
        for _ in range(rng.randint(1, 3)):
            t = rng.weighted([("s", 5), ("re", 3), ("r", 1 if i + 1 < nmat else 0), ("b", 1)])
            if t == "s":
                s = hostile(rng, 12) or "k"
                if s.endswith("\\"):
                    s += "z"
                alts.append({"s": s})
            elif t == "re":
                alts.append({"re": rng.choice(REGEXES)})
            elif t == "r":
                alts.append({"r": rng.choice(mat[i + 1:])})
            else:
                alts.append({"b": rng.choice(BASES)})
        rules.append({"name": r, "t": "match", "alts": alts, "seq": rng.chance(0.25)})
    renderer = rng.choice(["dot", "puml"])
    via = rng.weighted([("tofile", 5), ("tofile_default", 2), ("fileapi", 2), ("generator", 2)])
    if renderer == "puml" and via == "tofile_default":
        via = "tofile"
    lt = rng.choice([None, None, "ortho", "polyline"]) if renderer == "puml" else None
    case = {"kind": "mm", "rules": rules, "renderer": renderer, "via": via, "linetype": lt}
    if rng.chance(0.4):
        # user classes (`classes=[...]`) for some of the common rules: the exported class objects are the user's
        ucls = [r["name"] for r in rules if r["t"] == "common" and r["attrs"] and rng.chance(0.5)]
        if ucls:
            case["ucls"] = ucls
    return case


def gstr(s):
    return "'" + s.replace("\\", "\\\\").replace("'", "\\'") + "'"


def mm_grammar_text(case):
    out = []
    for r in case["rules"]:
        if r["t"] == "common":
            parts = [f"'{r['name'].lower()}'"]
            for a in r["attrs"]:
                rhs = a["rhs"]
                if rhs["t"] == "kw":
                    b = f"{a['n']}?='{a['n']}'"
                elif rhs["t"] == "rule":
                    b = f"{a['n']}{a['op']}{rhs['r']}"
                elif rhs["t"] == "base":
                    b = f"{a['n']}{a['op']}{rhs['b']}"
                else:
                    b = f"{a['n']}{a['op']}[{rhs['r']}]"
                parts.append(f"({b})?" if a["opt"] else b)
            out.append(f"{r['name']}: {' '.join(parts)};")
        elif r["t"] == "abstract":
            out.append(f"{r['name']}: {' | '.join(r['alts'])};")
        else:
            alts = []
            for a in r["alts"]:
                if "s" in a:
                    alts.append(gstr(a["s"]))
                elif "re" in a:
                    alts.append("/" + a["re"] + "/")
                elif "r" in a:
                    alts.append(a["r"])
                else:
                    alts.append(a["b"])
            out.append(f"{r['name']}: {(' ' if r.get('seq') else ' | ').join(alts)};")
    return "\n".join(out) + "\n"


# --------------------------------------------------------------------------
# running the real code
# --------------------------------------------------------------------------
def norm_ids(text, idmap):
    def sub(m):
        v = int(m.group(0))
        return str(idmap[v]) if v in idmap else m.group(0)

    return re.sub(r"(?<![0-9A-Za-z_.])[0-9]{7,}(?![0-9A-Za-z_.])", sub, text)


def prim_types():
    use_repo()
    from textx.lang import PRIMITIVE_PYTHON_TYPES

    return PRIMITIVE_PYTHON_TYPES


def dump_graph(roots):
    """What the export reads: every object reachable through `_tx_attrs` values."""
    from textx.const import MULT_ONE, MULT_ONEORMORE, MULT_ZEROORMORE

    prims = prim_types()
    idmap, order, objs = {}, [], []

    def num(o):
        if id(o) not in idmap:
            idmap[id(o)] = 1000001 + len(idmap)
            order.append(o)
        return idmap[id(o)]

    def item(x):
        if x is None:
            return None
        if type(x) in prims:
            return {"p": type(x).__name__, "v": str(x)}
        return {"o": num(x)}

    for r in roots:
        num(r)
    k = 0
    while k < len(order):
        o = order[k]
        k += 1
        cls = o.__class__
        d = {"id": idmap[id(o)], "cls": cls.__name__, "attrs": None}
        try:
            if not o:
                d["falsy"] = True  # for the evidence / the non-triviality rule only
        except Exception:
            pass
        if hasattr(cls, "_tx_attrs"):
            d["attrs"] = []
            for name, a in cls._tx_attrs.items():
                v = getattr(o, name)
                many = a.mult in (MULT_ONEORMORE, MULT_ZEROORMORE)
                if v is None:
                    val = None
                elif many:
                    if not isinstance(v, list):
                        raise ValueError("list multiplicity without a list value")
                    val = [item(x) for x in v]
                else:
                    if isinstance(v, list):
                        raise ValueError("scalar multiplicity with a list value")
                    val = item(v)
                d["attrs"].append({"name": name, "cont": bool(a.cont), "req": a.mult in (MULT_ONE, MULT_ONEORMORE),
                                   "val": val})
        objs.append(d)
    return objs, idmap


def run_model_case(case, tmp):
    use_repo()
    from textx import get_children, get_model, metamodel_from_str
    from textx import export as ex
    from textx.scoping import providers as sp

    case = normalize_case(case)
    if not valid_case(case):
        raise ValueError("malformed model case")
    table = []
    for s in case["strings"]:
        if s["t"] == "str":
            table.append(s["v"])
        elif s["t"] == "int":
            table.append(int(s["v"]))
        elif s["t"] == "float":
            table.append(float(s["v"]))
        elif s["t"] == "bool":
            table.append(bool(s["v"]))
        else:
            table.append(Opaque)
    classes = case["classes"]
    files = case["files"]
    fnames = [f["fname"] for f in files]
    prov = case["prov"]
    wrap = is_wrapped(case)
    user_classes = [make_falsy_class(case["falsy"])] if case.get("falsy") else []
    for ci, how in enumerate(case.get("ucls") or []):
        if how:
            user_classes.append(make_user_class(f"C{ci}", how, classes[ci]))
    mm = metamodel_from_str(grammar_text(classes, wrap, has_imports(case)), classes=user_classes,
                            global_repository=bool(case["mm_global"]))

    def conv(s):
        v = table[int(s[1:])]
        return Opaque() if v is Opaque else v

    mm.register_obj_processors({"Str": conv})

    def numbered(m):
        """the objects a reference index counts: get_children order below the C0 root"""
        return get_children(lambda _: True, m.root if wrap else m)

    def own(obj, attr, obj_ref):
        name = obj_ref.obj_name
        m = get_model(obj)
        if name.startswith("x"):
            j, k = name[1:].split("r")
            fn = m._tx_filename
            if fn is None or os.path.basename(fn) != fnames[int(j)]:
                return None
        else:
            k = name[1:]
        return numbered(m)[int(k)]

    if prov == "own":
        provider = own
    elif prov == "import":
        provider = sp.ImportURI(own, importURI_converter=lambda u: glob.escape(fnames[int(u[1:])]))
    elif prov == "import_sp":
        provider = sp.ImportURI(own, search_path=[tmp], importURI_converter=lambda u: fnames[int(u[1:])])
    else:
        provider = sp.GlobalRepo(own)
        for j in case["reg"]:
            provider.register_models(os.path.join(glob.escape(tmp), glob.escape(fnames[j])))
    mm.register_scope_providers({"*.*": provider})
    for fi, f in enumerate(files):
        with open(os.path.join(tmp, f["fname"]), "w", encoding="utf-8") as fh:
            fh.write(file_text(case, fi))
    models = []
    for ld in case["loads"]:
        if ld["how"] == "str":
            models.append(mm.model_from_str(file_text(case, ld["f"])))
        else:
            models.append(mm.model_from_file(os.path.join(tmp, fnames[ld["f"]])))
    call = case["call"]
    marg = None if call["model"] is None else models[call["model"]]
    r = call["repo"]
    if r is None:
        rarg = None
    elif r["t"] == "list":
        rarg = [models[k] for k in r["of"]]
    elif r["t"] == "own":
        rep = getattr(models[r["of"]], "_tx_model_repository", None)
        rarg = rep.all_models if rep is not None else []
    else:
        rarg = mm._tx_model_repository.all_models
    # what the call gets to see: the arguments and the repository carried by the model
    repo_models = None if rarg is None else list(rarg)
    own_models = None
    if marg is not None and hasattr(marg, "_tx_model_repository"):
        own_models = list(marg._tx_model_repository.all_models)
    roots = ([] if marg is None else [marg]) + (repo_models or []) + (own_models or [])
    objs, idmap = dump_graph(roots)

    def mref(m):
        return {"fname": str(m._tx_filename).replace(tmp, "TMP"), "id": idmap[id(m)],
                "kids": [idmap.get(id(o), 0) for o in get_children(lambda _: True, m)]}

    args = {"model": None if marg is None else idmap[id(marg)],
            "repo": None if repo_models is None else [mref(m) for m in repo_models],
            "own": None if own_models is None else [mref(m) for m in own_models]}
    out_path = os.path.join(tmp, "out.dot")
    via = call["via"]
    f = io.StringIO()
    try:
        if via == "tofile":
            ex.model_export_to_file(f, marg, rarg)
            text = f.getvalue()
        elif via == "fileapi":
            ex.model_export(marg, out_path, rarg)
            text = open(out_path, encoding="utf-8", newline="").read()
        else:
            gen = None
            try:
                from textx.registration import generator_for_language_target

                gen = generator_for_language_target("any", "dot").generator
            except Exception:
                from textx import generators

                g = generators.model_generate_dot
                gen = getattr(g, "generator", g)
            outdir = os.path.join(tmp, "outdir")
            os.makedirs(outdir)
            gen(mm, marg, outdir, True, False)
            produced = os.listdir(outdir)
            if len(produced) != 1:
                return {"outcome": "nofile", "files": sorted(produced), "args": args, "objs": objs}
            text = open(os.path.join(outdir, produced[0]), encoding="utf-8", newline="").read()
    except Exception as e:
        return {"outcome": "raise", "type": type(e).__name__, "msg": str(e)[:200], "args": args, "objs": objs}
    return {"outcome": "ok", "text": norm_ids(text, idmap).replace(tmp, "TMP"), "objs": objs, "args": args}


def run_mm_case(case, tmp):
    use_repo()
    import textx
    from textx import export as ex
    from textx import metamodel_from_file, metamodel_from_str
    from textx.lang import ALL_TYPE_NAMES, BASE_TYPE_NAMES

    gtext = mm_grammar_text(case)
    via = case["via"]
    common = {r["name"] for r in case["rules"] if r["t"] == "common" and r["attrs"]}
    if any(n not in common for n in case.get("ucls") or []):
        raise ValueError("malformed metamodel case: user class for a rule that is not a common rule")
    user_classes = [make_user_class(n, "plain", {"attrs": []}) for n in case.get("ucls") or []]
    if via in ("generator", "fileapi"):
        gpath = os.path.join(tmp, "gram.tx")
        with open(gpath, "w", encoding="utf-8") as fh:
            fh.write(gtext)
        mm = metamodel_from_file(gpath, classes=user_classes)
    else:
        mm = metamodel_from_str(gtext, classes=user_classes)
    captured = []
    orig = ex.get_unified_classes

    def capture(classes):
        r = orig(classes)
        captured.append(list(r))
        return r

    ex.get_unified_classes = capture
    try:
        renderer = None
        if case["renderer"] == "puml":
            renderer = ex.PlantUmlRenderer(case["linetype"])
        elif via != "tofile_default":
            renderer = ex.DotRenderer()
        if via in ("tofile", "tofile_default"):
            f = io.StringIO()
            ex.metamodel_export_tofile(mm, f, renderer)
            text = f.getvalue()
        elif via == "fileapi":
            out = os.path.join(tmp, "out.txt")
            ex.metamodel_export(mm, out, renderer)
            text = open(out, encoding="utf-8", newline="").read()
        else:
            target = "dot" if case["renderer"] == "dot" else "PlantUML"
            try:
                from textx.registration import generator_for_language_target

                gen = generator_for_language_target("textX", target).generator
            except Exception:
                from textx import generators

                g = generators.metamodel_generate_dot if target == "dot" else generators.metamodel_generate_plantuml
                gen = getattr(g, "generator", g)
            outdir = os.path.join(tmp, "outdir")
            os.makedirs(outdir)
            kw = {"linetype": case["linetype"]} if case["linetype"] else {}
            gen(textx.metamodel_for_language("textx"), mm, outdir, True, False, **kw)
            produced = os.listdir(outdir)
            if len(produced) != 1:
                return {"outcome": "nofile", "files": sorted(produced)}
            text = open(os.path.join(outdir, produced[0]), encoding="utf-8", newline="").read()
            renderer = None
    finally:
        ex.get_unified_classes = orig
    if len(captured) != 1:
        return {"outcome": "unmodelled", "why": f"get_unified_classes called {len(captured)} times"}
    unified = captured[0]
    idmap = {id(c): 1000001 + i for i, c in enumerate(unified)}
    rules = {c for c in unified if c.typ == "match" and c.fqn not in ALL_TYPE_NAMES and c.name not in ALL_TYPE_NAMES}
    if renderer is not None and {id(c) for c in renderer.match_rules} != {id(c) for c in rules}:
        return {"outcome": "unmodelled", "why": "match rule set differs from the renderer's"}
    classes = []
    for c in unified:
        attrs = []
        for a in c.attrs:
            if id(a.cls) not in idmap:
                return {"outcome": "unmodelled", "why": "attribute class outside the unified classes"}
            attrs.append({"name": a.name, "cls": idmap[id(a.cls)], "cls_name": a.cls.name, "cls_fqn": a.cls.fqn,
                          "mult": a.mult, "cont": bool(a.cont), "ref": bool(a.ref)})
        inh = []
        for s in c.inh_by:
            if id(s) not in idmap:
                return {"outcome": "unmodelled", "why": "inheriting class outside the unified classes"}
            inh.append(idmap[id(s)])
        classes.append({"id": idmap[id(c)], "name": c.name, "fqn": c.fqn, "typ": c.typ, "attrs": attrs, "inh_by": inh,
                        "match_str": ex.dot_match_str(c, rules) if c in rules else ""})
    return {"outcome": "ok", "text": norm_ids(text, idmap), "classes": classes, "base": list(BASE_TYPE_NAMES)}


def sort_legend(text):
    """PlantUmlRenderer iterates a set: the order of the legend rows is arbitrary."""
    lines = text.split("\n")
    try:
        a = lines.index("  |= Name  |= Rule details |")
        b = lines.index("end legend")
    except ValueError:
        return text
    return "\n".join(lines[: a + 1] + sorted(lines[a + 1: b]) + lines[b:])


def situation_sweep():
    """A small systematic sweep over the repository situations on a two-file model (runs on every
    seed): scope provider x global repository x load history x call.  File 0 is the exported
    model `A`, file 1 the other model `B`."""
    classes = [{"attrs": [{"n": "name", "k": "name_str", "opt": False}, {"n": "a1", "k": "ref", "opt": True, "c": 0}]}]
    strings = [{"t": "str", "v": "a|b"}]
    out = []
    for prov in PROVS:
        for mm_global in (False, True):
            if prov == "import_sp" and mm_global:
                continue
            for hist in ("Astr", "Afile", "Afile-sees-B", "Bfile,Astr", "Bfile,Afile", "Afile-sees-B,Bfile"):
                sees = "sees-B" in hist
                if sees and prov == "own":
                    continue
                a_root = {"c": 0, "vals": {"name": 0, "a1": {"x": 1, "r": 0} if sees else 0}}
                files = [{"fname": "A.m", "root": a_root}, {"fname": "B{.m", "root": {"c": 0, "vals": {"name": 0}}}]
                reg = []
                if sees and prov.startswith("import"):
                    files[0]["imports"] = [1]
                elif sees:
                    reg = [1]
                loads = [{"f": {"A": 0, "B": 1}[h[0]], "how": "str" if h.endswith("str") else "file"}
                         for h in hist.replace("-sees-B", "").split(",")]
                ka = next(k for k, ld in enumerate(loads) if ld["f"] == 0)
                calls = [{"model": ka, "repo": None}, {"model": ka, "repo": {"t": "own", "of": ka}}]
                if hist in ("Astr", "Bfile,Astr", "Afile-sees-B"):
                    calls += [{"model": ka, "repo": {"t": "list", "of": []}}, {"model": None, "repo": {"t": "own", "of": ka}}]
                if hist == "Bfile,Afile":
                    calls += [{"model": None, "repo": {"t": "list", "of": [0, 1]}}]
                    if mm_global:
                        calls += [{"model": None, "repo": {"t": "mm"}}]
                for call in calls:
                    c = {"kind": "model", "classes": classes, "strings": strings, "files": copy.deepcopy(files),
                         "prov": prov, "mm_global": mm_global, "reg": list(reg), "loads": copy.deepcopy(loads),
                         "call": dict(call, via="tofile"), "sweep": hist}
                    if valid_case(c):
                        out.append(c)
                    if call is calls[0] and not mm_global and hist in ("Astr", "Afile"):
                        c2 = dict(copy.deepcopy(c), wrapper=True, falsy="len" if hist == "Astr" else "bool")
                        if valid_case(c2):
                            out.append(c2)
                    if call is calls[0]:
                        # the root objects are instances of a user class and all compare equal (hashable or
                        # not): model A must not be taken for model B anywhere
                        for how in ("eq", "unhash"):
                            c2 = dict(copy.deepcopy(c), ucls=[how])
                            if valid_case(c2):
                                out.append(c2)
    return out


def protocol_sweep():
    """A small systematic sweep (runs on every seed): every user class protocol of `UCLS` x every position
    an object can take in a model — value of a mandatory / optional single-valued containment, of a
    single-valued reference, item of a containment list, of a mixed list, of a reference list, model root.
    The object in that position is "empty" (no list items, flag not set: falsy for `len` / `bool`) and has
    a child that can only be reached through it."""
    classes = [
        {"attrs": [{"n": "name", "k": "name_str", "opt": False},
                   {"n": "a1", "k": "child", "opt": False, "c": 1},
                   {"n": "a2", "k": "child", "opt": True, "c": 1},
                   {"n": "a3", "k": "ref", "opt": True, "c": 1},
                   {"n": "a4", "k": "children", "opt": True, "plus": False, "c": 1},
                   {"n": "a5", "k": "mixed", "opt": True, "plus": False},
                   {"n": "a6", "k": "refs", "opt": True, "plus": False, "c": 1}]},
        {"attrs": [{"n": "name", "k": "name_str", "opt": True},
                   {"n": "a1", "k": "bool", "opt": True},
                   {"n": "a2", "k": "ints", "opt": True, "plus": False},
                   {"n": "a3", "k": "child", "opt": True, "c": 1}]}]

    def full():
        return {"c": 1, "vals": {"name": 0, "a1": True, "a2": [1]}}

    def empty():
        return {"c": 1, "vals": {"a3": full()}}

    out = []
    for how in UCLS:
        for pos in ("child", "optchild", "children", "mixed", "ref", "refs", "root"):
            e = empty()
            vals = {"name": 0, "a1": full()}
            if pos in ("child", "root"):
                vals["a1"] = e
            elif pos == "optchild":
                vals["a2"] = e
            elif pos == "children":
                vals["a4"] = [full(), e]
            elif pos == "mixed":
                vals["a5"] = [{"i": 1}, {"o": e}, {"s": 0}]
            else:
                vals["a4"] = [e]
            root = {"c": 0, "vals": vals}
            if pos in ("ref", "refs"):
                k = next(i for i, o in enumerate(preorder(classes, root, [])) if o is e)
                if pos == "ref":
                    vals["a3"] = k
                else:
                    vals["a6"] = [1, k]
            c = {"kind": "model", "classes": copy.deepcopy(classes), "strings": [{"t": "str", "v": "n"}],
                 "files": [{"fname": "m", "root": root}], "ucls": [how if pos == "root" else None, how],
                 "prov": "own", "mm_global": False, "reg": [], "loads": [{"f": 0, "how": "str"}],
                 "call": {"model": 0, "repo": None, "via": "tofile"}, "sweep": f"protocol:{how}:{pos}"}
            if valid_case(c):
                out.append(c)
    return out


def falsy_positions(obs):
    """where the falsy objects of the exported graph sit (for the evidence)"""
    objs = obs.get("objs")
    if not isinstance(objs, list):
        return []
    falsy = {o["id"] for o in objs if o.get("falsy")}
    if not falsy:
        return []
    out = set()
    a = obs.get("args") or {}
    if a.get("model") in falsy or any(m["id"] in falsy for m in (a.get("repo") or [])):
        out.add("root")
    for o in objs:
        for at in o["attrs"] or []:
            v = at["val"]
            many = isinstance(v, list)
            for x in (v if many else [v]):
                if isinstance(x, dict) and x.get("o") in falsy:
                    out.add(("item of a " if many else "value of a single-valued ")
                            + ("containment" if at["cont"] else "reference") + (" list" if many else ""))
    return sorted(out)


def situation_label(obs):
    """the repository situation the call met (for the evidence)"""
    a = obs.get("args")
    if not isinstance(a, dict):
        return "?"
    if a["model"] is None:
        own = "-"
    elif a["own"] is None:
        own = "no-repository"
    elif not a["own"]:
        own = "empty-repository"
    else:
        own = "repository-with-model" if any(m["id"] == a["model"] for m in a["own"]) else "repository-without-model"
    repo = "None" if a["repo"] is None else ("empty" if not a["repo"] else "models")
    return f"model={'None' if a['model'] is None else own} repo={repo}"


def reindex_files(case, drop):
    """the case without file `drop` (None when something still refers to it)"""
    used = {ld["f"] for ld in case["loads"]} | set(case.get("reg", []))
    for f in case["files"]:
        used |= set(f.get("imports", []))
        used |= {t["x"] for _, t in all_refs(case["classes"], f["root"]) if isinstance(t, dict)}
    if drop in used:
        return None
    ren = lambda j: j - 1 if j > drop else j  # noqa: E731
    c = copy.deepcopy(case)
    del c["files"][drop]
    for f in c["files"]:
        if "imports" in f:
            f["imports"] = [ren(j) for j in f["imports"]]
        for o in preorder(c["classes"], f["root"], []):
            for a in c["classes"][o["c"]]["attrs"]:
                if a["k"] in ("ref", "refs") and a["n"] in o["vals"]:
                    v = o["vals"][a["n"]]
                    fix = lambda t: {"x": ren(t["x"]), "r": t["r"]} if isinstance(t, dict) else t  # noqa: E731
                    o["vals"][a["n"]] = [fix(t) for t in v] if isinstance(v, list) else fix(v)
    c["reg"] = [ren(j) for j in c.get("reg", [])]
    for ld in c["loads"]:
        ld["f"] = ren(ld["f"])
    return c


def drop_load(case, k):
    call = case["call"]
    r = call["repo"]
    used = ([] if call["model"] is None else [call["model"]])
    if r is not None and r["t"] == "own":
        used.append(r["of"])
    if k in used or len(case["loads"]) < 2:
        return None
    ren = lambda j: j - 1 if j > k else j  # noqa: E731
    c = copy.deepcopy(case)
    del c["loads"][k]
    cc = c["call"]
    if cc["model"] is not None:
        cc["model"] = ren(cc["model"])
    if cc["repo"] is not None and cc["repo"]["t"] == "own":
        cc["repo"]["of"] = ren(cc["repo"]["of"])
    if cc["repo"] is not None and cc["repo"]["t"] == "list":
        cc["repo"]["of"] = [ren(j) for j in cc["repo"]["of"] if j != k]
    return c


def shrink_model(case):
    """smaller candidates of a normalised model case (the caller filters with valid_case)"""
    files = case["files"]
    if case["call"]["via"] != "tofile":
        yield dict(case, call=dict(case["call"], via="tofile"))
    for k in range(len(case["loads"])):
        c = drop_load(case, k)
        if c is not None:
            yield c
    for i in range(len(files)):
        c = reindex_files(case, i)
        if c is not None:
            yield c
    for i, f in enumerate(files):
        for j in f.get("imports", []):
            yield dict(case, files=files[:i] + [dict(f, imports=[x for x in f["imports"] if x != j])] + files[i + 1:])
    for j in case.get("reg", []):
        yield dict(case, reg=[x for x in case["reg"] if x != j])
    if case.get("mm_global"):
        yield dict(case, mm_global=False)
    u = case.get("ucls")
    if u and not any(u):
        yield {k: v for k, v in case.items() if k != "ucls"}
    for i, how in enumerate(u or []):
        if how:
            yield dict(case, ucls=u[:i] + [None] + u[i + 1:])
            if how != "plain":
                yield dict(case, ucls=u[:i] + ["plain"] + u[i + 1:])
    if case.get("falsy"):
        yield dict(case, falsy=None)
    elif case.get("wrapper"):
        yield dict(case, wrapper=False)
    if case.get("prov") == "import_sp":
        yield dict(case, prov="import")
    if case.get("prov", "own") != "own":
        yield dict(case, prov="own")
    for k, ld in enumerate(case["loads"]):
        if ld["how"] == "file":
            yield dict(case, loads=case["loads"][:k] + [dict(ld, how="str")] + case["loads"][k + 1:])
    r = case["call"]["repo"]
    if r is not None and r["t"] == "list" and len(r["of"]) > 1:
        for i in range(len(r["of"])):
            yield dict(case, call=dict(case["call"], repo={"t": "list", "of": r["of"][:i] + r["of"][i + 1:]}))
    for i, s in enumerate(case["strings"]):
        if s["t"] != "str":
            yield dict(case, strings=case["strings"][:i] + [{"t": "str", "v": "x"}] + case["strings"][i + 1:])
        elif len(s["v"]) > 0:
            v = s["v"]
            cands = {v[: len(v) // 2], v[len(v) // 2:], v[1:], v[:-1]}
            for c in sorted(cands, key=len):
                if c != v:
                    yield dict(case, strings=case["strings"][:i] + [{"t": "str", "v": c}] + case["strings"][i + 1:])
    for fi, f in enumerate(files):
        if len(f["fname"]) > 1:
            for c in (f["fname"][1:], f["fname"][:-1]):
                if c not in (".", "..", "") and c.strip(" ") == c and all(c != g["fname"] for g in files):
                    yield dict(case, files=files[:fi] + [dict(f, fname=c)] + files[fi + 1:])
        for path, sub in list(walk_objs(case["classes"], f["root"])):
            for an in list(sub["vals"].keys()):
                a = next(x for x in case["classes"][sub["c"]]["attrs"] if x["n"] == an)
                if a["opt"] or (a["k"] in ("strs", "ints", "mixed", "children", "refs") and not a.get("plus")):
                    nf = copy.deepcopy(f)
                    tgt = follow(case["classes"], nf["root"], path)
                    if a["opt"]:
                        del tgt["vals"][an]
                    else:
                        tgt["vals"][an] = []
                    yield dict(case, files=files[:fi] + [nf] + files[fi + 1:])


class Prop(Check):
    ID = "C29"
    LEAN_MODULE = "TextxVerif.Props.C29"
    THEOREMS = []  # filled below
    DRIVER = "Drivers/Dot.lean"
    QUICK_CASES = 400
    THOROUGH_CASES = 12000
    PROCS_THOROUGH = 4
    RULE = ("non-trivial = a string containing one of \" \\ { } | < > newline reaches an escaped hole of the export "
            "(object name, attribute value, list item, file name, match-rule body) or dot_repr truncates, or the call of "
            "the model export is not the plain one (a repo argument is given or the model carries a repository), or an "
            "object of the exported graph is falsy (instance of a user class with __len__ / __bool__)")
    MODELLED = ("regenerated each run (tie T): dot_escape replace chain, dot_repr limit/delimiters, HEADER "
                "(Gen/DotExport.lean); hand-modelled (tie X, exact text): model_export_to_file incl. the argument checks and the "
                "choice of the exported models from model / repo / model._tx_model_repository.all_models (planArgs; the "
                "three are dumped from the live objects before the call), _export recursion, processed set, subgraph handling; metamodel_export_tofile with DotRenderer and PlantUmlRenderer; "
                "an object has no truth value, equality or hash in the model — the code consults only `is None`, id() and type() — "
                "and the exact text comparison exposes any dependence on them (user classes with __len__ / __bool__ / __eq__ are generated); "
                "inputs taken as data: _tx_attrs meta data, attribute values, id(), get_children, get_unified_classes, "
                "dot_match_str, html.escape (modelled, checked by the text comparison); not exhibited: file-system "
                "errors, set iteration order of PlantUML legend rows (compared sorted)")
    ASSUMPTIONS = [
        "class, attribute and rule names are identifiers (textX grammar); grammar file base names are identifiers",
        "Graphviz >= 2.30 scanner: a backslash inside a quoted string protects the next character",
        "record-label grammar as in Graphviz lib/common/shapes.c parse_reclbl",
        "str() of int / float / bool contains no character that is special in DOT strings or record labels",
        "user classes keep the name of their rule and accept the attributes as keyword arguments (textX contract); a user class "
        "that subclasses a primitive type (str, int, ...) or a list is not generated",
        "repo is None or a sized iterable of models (list, ModelRepository); an empty iterator (truthy) is not generated",
        "the `any -> dot` generator is called with models loaded from a file (it derives the output name from the file name)",
    ]

    def TRANSLATE(self=None):
        c29_translate.translate(REPO, LEAN_DIR)

    TRANSLATE = staticmethod(TRANSLATE)

    # ---------------------------------------------------------------- cases
    def gen(self, rng, n, tier):
        yield from situation_sweep()
        yield from protocol_sweep()
        for i in range(n):
            r = i % 10
            if r < 5:
                yield gen_model_case(rng)
            elif r < 8:
                yield gen_mm_case(rng)
            elif r < 9 or i % 50 != 9:
                yield {"kind": "escape", "s": hostile(rng, 40)}
            else:
                yield {"kind": "args", "model": rng.chance(0.5), "repo": rng.chance(0.5)}

    # ----------------------------------------------------------------- impl
    def impl(self, case):
        use_repo()
        kind = case["kind"]
        if kind == "escape":
            from textx import export as ex

            try:
                return {"outcome": "ok", "esc": ex.dot_escape(case["s"]), "repr": ex.dot_repr(case["s"]),
                        "repr_int": ex.dot_repr(12), "html": ex.html_escape(case["s"])}
            except Exception as e:
                return {"outcome": "raise", "type": type(e).__name__, "msg": str(e)[:200]}
        if kind == "args":
            from textx import export as ex
            from textx import metamodel_from_str

            m = metamodel_from_str("M: 'm' name=ID;").model_from_str("m x")
            f = io.StringIO()
            try:
                ex.model_export_to_file(f, m if case["model"] else None, [m] if case["repo"] else None)
                return {"outcome": "ok", "text": f.getvalue()[:50], "written": len(f.getvalue())}
            except Exception as e:
                return {"outcome": "raise", "type": type(e).__name__, "written": len(f.getvalue())}
        tmp = tempfile.mkdtemp(prefix="c29-")
        try:
            try:
                if kind == "model":
                    return run_model_case(case, tmp)
                return run_mm_case(case, tmp)
            except Exception as e:
                import traceback

                return {"outcome": "raise", "type": type(e).__name__, "msg": str(e)[:300],
                        "tb": traceback.format_exc()[-800:]}
        finally:
            shutil.rmtree(tmp, ignore_errors=True)

    # ---------------------------------------------------------------- model
    def model_req(self, case, obs):
        k = case["kind"]
        if k == "model" and obs.get("outcome") in ("ok", "raise") and "args" in obs:
            return {"op": "export", "objs": obs["objs"], "args": obs["args"], "text": obs.get("text")}
        if obs.get("outcome") != "ok":
            return None
        if k == "escape":
            return {"op": "escape", "s": case["s"]}
        if k == "mm":
            return {"op": "mm", "classes": obs["classes"], "base": obs["base"], "renderer": case["renderer"],
                    "linetype": case["linetype"], "text": obs["text"]}
        return None

    def compare(self, case, obs, out):
        if "err" in out:
            return f"model rejected the request: {out}"
        k = case["kind"]
        if k == "escape":
            for f in ("esc", "repr", "html"):
                if out[f] != obs[f]:
                    return f"{f}: implementation {obs[f]!r}, model {out[f]!r}"
            return None
        if k == "model":
            if out["raises"] != (obs["outcome"] == "raise"):
                return (f"argument handling: implementation {'raises ' + str(obs.get('type')) if obs['outcome'] == 'raise' else 'exports'}, "
                        f"model {'raises' if out['raises'] else 'exports ' + str(out.get('roots'))}")
            if out["raises"]:
                return None
        if out.get("text") is None:
            return "model produced no text (fuel / dangling id)"
        if out.get("domain") is not True:
            return ("case outside the domain of the theorems (unsafe class / attribute name, open object graph, class table "
                    "not closed or ids not distinct)")
        if k == "mm" and case["renderer"] == "puml":
            if sort_legend(out["text"]) != sort_legend(obs["text"]):
                return "PlantUML text differs: " + first_diff(sort_legend(obs["text"]), sort_legend(out["text"]))
            classes, problem = c29_dot.check_puml(obs["text"])
            if (classes is None) != (out["puml"] is None):
                return f"PlantUML recognisers disagree: python {problem or 'accepts'}, lean {'rejects' if out['puml'] is None else 'accepts'}"
            if classes is not None and classes != out["puml"]:
                return f"PlantUML declared classes: python {classes}, lean {out['puml']}"
            return None
        if out["text"] != obs["text"]:
            return "DOT text differs: " + first_diff(obs["text"], out["text"])
        g, problem = c29_dot.check_dot(obs["text"])
        lean_ok = out["evs"] is not None and out["records"]
        if (problem is None) != lean_ok:
            return f"DOT recognisers disagree: python {problem or 'accepts'}, lean {'accepts' if lean_ok else 'rejects'}"
        if lean_ok:
            lean_nodes = [e[1][2:] for e in out["evs"] if e[0] == "node"]
            py_nodes = [i[1] for i in g.node_stmts]
            if lean_nodes != py_nodes:
                return f"node statements: python {py_nodes}, lean {lean_nodes}"
            if k == "mm" and out.get("nodup_domain") is True and len(set(py_nodes)) != len(py_nodes):
                # C29_metamodel_nodup_checked: no attribute refers to a non-match class outside the walk
                return f"a class has two node statements although no attribute refers to OBJECT: {py_nodes}"
        return None

    # --------------------------------------------------------------- oracle
    def oracle(self, case, obs):
        k = case["kind"]
        if k == "args":
            want_raise = case["model"] == case["repo"]
            if want_raise != (obs["outcome"] == "raise"):
                return f"model={case['model']} repo={case['repo']}: outcome {obs['outcome']}"
            return None
        if k == "model" and "args" in obs:
            # the documented contract: exactly one of model / repo; an empty repo is no repo
            a = obs["args"]
            want_raise = (a["model"] is not None) == bool(a["repo"])
            if want_raise:
                if obs["outcome"] == "raise" and obs.get("type") == "Exception":
                    return None
                return (f"model {'given' if a['model'] is not None else 'missing'} and repo "
                        f"{'given' if a['repo'] else 'missing'}: outcome {obs['outcome']} {obs.get('type')}")
        if obs.get("outcome") != "ok":
            return f"export failed: {obs.get('outcome')} {obs.get('type')} {obs.get('msg') or obs.get('why') or obs.get('files')}"
        if k == "escape":
            # the escaped value, placed between quotes inside a record field, must stay one string / one field
            for f in ("esc", "repr"):
                text = 'digraph { node[shape=record] n [label="{' + obs[f] + '|x}"] }'
                g, problem = c29_dot.check_dot(text)
                if problem:
                    return f"dot_{'escape' if f == 'esc' else 'repr'}({case['s']!r}) = {obs[f]!r} breaks a record label: {problem}"
                lab = g.nodes[("id", "n")]["attrs"]["label"][1]
                if lab != "{" + obs[f] + "|x}":
                    return f"{f}: the quoted string ends early: {lab!r}"
                if len(c29_dot.record_fields(c29_dot.unquote(lab))[0]) != 2:
                    return f"{f}: the label does not have two fields"
            if obs["repr_int"] != "12":
                return "dot_repr(12) != '12'"
            return None
        if k == "model":
            g, problem = c29_dot.check_dot(obs["text"])
            if problem:
                return problem
            stmts = [i[1] for i in g.node_stmts]
            # The objects that must have a node are decided from what the caller asked for, not from
            # what the implementation chose to export: every object reachable (through `_tx_attrs`
            # values) from the `model` argument and from each model of the `repo` argument.
            a = obs["args"]
            byid = {o["id"]: o for o in obs["objs"]}
            todo = ([] if a["model"] is None else [a["model"]]) + [m["id"] for m in (a["repo"] or [])]
            asked = set()
            while todo:
                i = todo.pop()
                if i in asked or i not in byid:
                    continue
                asked.add(i)
                for at in byid[i]["attrs"] or []:
                    v = at["val"]
                    for x in (v if isinstance(v, list) else [v]):
                        if isinstance(x, dict) and "o" in x:
                            todo.append(x["o"])
            # node statements inside clusters only list members; the defining ones carry a label
            for o in obs["objs"]:
                nid = ("num", str(o["id"]))
                if nid not in g.nodes or "label" not in g.nodes[nid]["attrs"]:
                    if o["id"] not in asked:
                        continue  # an object of another model of the carried repository only
                    return f"no node for object {o['id']} ({o['cls']})"
                lab = g.nodes[nid]["attrs"]["label"]
                fields = c29_dot.record_fields(c29_dot.unquote(lab[1]))
                if len(fields) != 1 or not isinstance(fields[0], list) or len(fields[0]) != 2:
                    return f"label of object {o['id']} is not a {{name|attrs}} record: {lab[1]!r}"
                if not fields[0][0].endswith(":" + o["cls"]):
                    return f"label of object {o['id']} does not name its class: {lab[1]!r}"
            ids = {str(o["id"]) for o in obs["objs"]}
            labelled = [i for i in stmts if i in ids]
            for nid, node in g.nodes.items():
                if nid[0] == "num" and nid[1] not in ids:
                    return f"node {nid[1]} is not an object of the model"
            return None
        # metamodel
        expected = [c for c in obs["classes"] if c["typ"] in ("common", "abstract")
                    and c["fqn"] not in obs["base"] + ["OBJECT"] and c["name"] not in obs["base"] + ["OBJECT"]]
        if case["renderer"] == "dot":
            g, problem = c29_dot.check_dot(obs["text"])
            if problem:
                return problem
            for c in expected:
                nid = ("num", str(c["id"]))
                if nid not in g.nodes or "label" not in g.nodes[nid]["attrs"]:
                    return f"no node for class {c['name']}"
                fields = c29_dot.record_fields(c29_dot.unquote(g.nodes[nid]["attrs"]["label"][1]))
                want = ("*" if c["typ"] == "abstract" else "") + c["name"]
                if len(fields) != 1 or not isinstance(fields[0], list) or fields[0][0] != want:
                    return f"label of class {c['name']} is not a {{name|attrs}} record"
            return None
        classes, problem = c29_dot.check_puml(obs["text"])
        if problem:
            return "PlantUML not balanced: " + problem
        for c in expected:
            if c["fqn"] not in classes:
                return f"PlantUML does not declare class {c['fqn']}"
        return None

    def nontrivial(self, case, obs):
        if obs.get("outcome") != "ok":
            return False
        k = case["kind"]
        if k == "escape":
            return any(ch in SPECIAL for ch in case["s"]) or len(obs["esc"]) > 20
        if k == "model":
            vals = []
            for o in obs["objs"]:
                for a in o["attrs"] or []:
                    v = a["val"]
                    for x in (v if isinstance(v, list) else [v]):
                        if isinstance(x, dict) and x.get("p") == "str":
                            vals.append(x["v"])
            a = obs["args"]
            for m in (a["repo"] or []) + (a["own"] or []):
                vals.append(m["fname"])
            # ... or the call is not the plain `model_export(model)` of a model without repository
            return (any(ch in SPECIAL for v in vals for ch in v) or any(len(v) > 20 for v in vals)
                    or a["repo"] is not None or a["own"] is not None or any(o.get("falsy") for o in obs["objs"]))
        if k == "mm":
            return any(ch in SPECIAL for c in obs["classes"] for ch in c["match_str"])
        return False

    # --------------------------------------------------------------- search
    def shrink(self, case):
        k = case["kind"]
        if k == "escape":
            s = case["s"]
            for i in range(len(s)):
                yield {"kind": "escape", "s": s[:i] + s[i + 1:]}
            return
        if k == "model":
            for cand in shrink_model(normalize_case(case)):
                if valid_case(cand):
                    yield cand
            return
        if k == "mm":
            rules = case["rules"]
            for i, r in enumerate(rules):
                if r["t"] == "match" and len(r["alts"]) > 1:
                    for j in range(len(r["alts"])):
                        yield dict(case, rules=rules[:i] + [dict(r, alts=r["alts"][:j] + r["alts"][j + 1:])] + rules[i + 1:])
                if r["t"] == "match":
                    for j, a in enumerate(r["alts"]):
                        if "s" in a and len(a["s"]) > 1:
                            for c in (a["s"][1:], a["s"][:-1]):
                                if not c.endswith("\\"):
                                    yield dict(case, rules=rules[:i] + [dict(r, alts=r["alts"][:j] + [{"s": c}] + r["alts"][j + 1:])] + rules[i + 1:])
                if r["t"] == "common" and len(r["attrs"]) > (1 if r["name"] in (case.get("ucls") or []) else 0):
                    for j in range(len(r["attrs"])):
                        yield dict(case, rules=rules[:i] + [dict(r, attrs=r["attrs"][:j] + r["attrs"][j + 1:])] + rules[i + 1:])
            if case["via"] != "tofile":
                yield dict(case, via="tofile")
            for n in case.get("ucls") or []:
                yield dict(case, ucls=[x for x in case["ucls"] if x != n])

    def extra_search(self, rng, tier, broken):
        out = []
        # every single special character and pairs of them through every escaped hole
        singles = list('"\\{}|<>\n?') + ['\\"', 'a"b', "a\\", "{|}", "x" * 19 + '"', "x" * 19 + "\\",
                                          "x\nend legend\n}", "x\n@enduml\nz", "</td><td>", "&<"]
        for s in singles:
            out.append({"kind": "escape", "s": s})
        for s in singles:
            out.append({"kind": "model", "mode": "single", "classes": [{"attrs": [
                {"n": "name", "k": "name_str", "opt": False}, {"n": "a1", "k": "str", "opt": False},
                {"n": "a2", "k": "mixed", "opt": False, "plus": True}, {"n": "a3", "k": "strs", "opt": False, "plus": True}]}],
                "strings": [{"t": "str", "v": s}],
                "files": [{"fname": "m", "root": {"c": 0, "vals": {"name": 0, "a1": 0, "a2": [{"s": 0}, {"o": {"c": 0, "vals": {"name": 0, "a1": 0, "a2": [{"i": 1}], "a3": [0]}}}], "a3": [0, 0]}}}]})
            fn = s.replace("/", "_").replace("\x00", "_") or "m"
            if fn not in (".", "..") and fn.strip(" ") == fn:
                out.append({"kind": "model", "mode": "repo_arg", "classes": [{"attrs": [{"n": "a0", "k": "int", "opt": True}]}],
                            "strings": [{"t": "str", "v": "x"}], "files": [{"fname": fn, "root": {"c": 0, "vals": {}}}]})
            if not s.endswith("\\"):
                out.append({"kind": "mm", "renderer": "dot", "via": "tofile", "linetype": None, "rules": [
                    {"name": "R0", "t": "common", "attrs": [{"n": "a0", "op": "=", "rhs": {"t": "rule", "r": "M0"}, "opt": False}]},
                    {"name": "M0", "t": "match", "alts": [{"s": s}]}]})
                out.append({"kind": "mm", "renderer": "puml", "via": "tofile", "linetype": None, "rules": [
                    {"name": "R0", "t": "common", "attrs": [{"n": "a0", "op": "=", "rhs": {"t": "rule", "r": "M0"}, "opt": False}]},
                    {"name": "M0", "t": "match", "alts": [{"s": s}]}]})
        return out + list(self.gen(rng, 1500, tier))

    def sample_view(self, case, obs):
        o = dict(obs)
        for k in ("objs", "classes", "tb"):
            o.pop(k, None)
        if isinstance(o.get("text"), str) and len(o["text"]) > 1500:
            o["text"] = o["text"][:1500] + "…"
        return {"case": case, "impl": o}

    def extra_evidence(self, cases, obs, model_outs):
        kinds = {}
        situations = {}
        protocols = {}
        positions = {}
        for c, o in zip(cases, obs):
            if c["kind"] == "model" and isinstance(o, dict):
                for how in set(c.get("ucls") or []) | ({"root-" + c["falsy"]} if c.get("falsy") else set()):
                    if how:
                        protocols[how] = protocols.get(how, 0) + 1
                for pos in falsy_positions(o):
                    positions[pos] = positions.get(pos, 0) + 1
            key = c["kind"] + (":" + c.get("mode", c.get("renderer", c.get("prov", ""))) if c["kind"] in ("model", "mm") else "")
            kinds[key] = kinds.get(key, 0) + 1
            if c["kind"] == "model" and isinstance(o, dict):
                key = situation_label(o) + " -> " + str(o.get("outcome"))
                situations[key] = situations.get(key, 0) + 1
        gv = graphviz_crosscheck(cases, obs, limit=8 if len(cases) < 2000 else 60)
        return {"distribution": kinds, "call_situations": situations, "user_class_protocols": protocols,
                "falsy_object_positions": positions, "graphviz_crosscheck": gv}


def graphviz_crosscheck(cases, obs, limit):
    """When a Graphviz binary is present: run it on some exported DOT texts and compare its
    verdict with the Python oracle's (validation of the oracle itself, not of textX)."""
    import subprocess

    dot = shutil.which("dot")
    if not dot:
        return {"available": False}
    n = agree = 0
    bad = []
    for c, o in zip(cases, obs):
        if n >= limit:
            break
        if not isinstance(o, dict) or o.get("outcome") != "ok" or "text" not in o:
            continue
        if c["kind"] == "mm" and c["renderer"] != "dot":
            continue
        if c["kind"] not in ("model", "mm"):
            continue
        n += 1
        try:
            p = subprocess.run([dot, "-Tplain"], input=o["text"], capture_output=True, text=True, timeout=20)
            gv_ok = p.returncode == 0 and "Error" not in p.stderr and "syntax" not in p.stderr
        except Exception:
            continue
        _, problem = c29_dot.check_dot(o["text"])
        if gv_ok == (problem is None):
            agree += 1
        else:
            bad.append({"graphviz_ok": gv_ok, "oracle": problem})
    return {"available": True, "checked": n, "agree": agree, "disagreements": bad[:3]}


def first_diff(a, b):
    i = 0
    while i < min(len(a), len(b)) and a[i] == b[i]:
        i += 1
    return f"at offset {i}: implementation {a[max(0, i - 30): i + 30]!r} vs model {b[max(0, i - 30): i + 30]!r}"


def walk_objs(classes, o, path=()):
    yield path, o
    for a in classes[o["c"]]["attrs"]:
        v = o["vals"].get(a["n"])
        if v is None:
            continue
        if a["k"] == "child":
            yield from walk_objs(classes, v, path + ((a["n"], None),))
        elif a["k"] == "children":
            for i, x in enumerate(v):
                yield from walk_objs(classes, x, path + ((a["n"], i),))
        elif a["k"] == "mixed":
            for i, x in enumerate(v):
                if "o" in x:
                    yield from walk_objs(classes, x["o"], path + ((a["n"], i),))


def follow(classes, o, path):
    for an, i in path:
        v = o["vals"][an]
        if i is None:
            o = v
        else:
            o = v[i]["o"] if "o" in v[i] and "c" not in v[i] else v[i]
    return o


def refs_valid(classes, root):
    objs = preorder(classes, root, [])
    for o in objs:
        for a in classes[o["c"]]["attrs"]:
            if a["k"] in ("ref", "refs") and a["n"] in o["vals"]:
                v = o["vals"][a["n"]]
                for t in (v if isinstance(v, list) else [v]):
                    if not isinstance(t, int) or t >= len(objs) or objs[t]["c"] != a["c"]:
                        return False
    return True


Prop.THEOREMS = [
    "Dot.C29_escape_chain",
    "Dot.C29_escape_safe",
    "Dot.C29_repr_safe",
    "Dot.C29_record_label",
    "Dot.C29_render_valid",
    "Dot.C29_model_export_valid",
    "Dot.C29_model_nodes_recognised",
    "Dot.C29_model_export_total",
    "Dot.C29_metamodel_dot_valid",
    "Dot.C29_plantuml_balanced",
    "Dot.C29_model_export_checked",
    "Dot.C29_metamodel_dot_checked",
    "Dot.C29_plantuml_checked",
    "Dot.C29_unescaped_false",
    "Dot.C29_call_argcheck",
    "Dot.C29_call_covers",
    "Dot.C29_export_call_valid",
    "Dot.C29_export_call_checked",
    "Dot.C29_model_outside_repo_false",
    "Dot.C29_metamodel_total",
    "Dot.C29_metamodel_total_iff",
    "Dot.C29_metamodel_nodes_recognised",
    "Dot.C29_metamodel_node_labels_unique",
    "Dot.C29_metamodel_nodes_nodup_false",
    "Dot.C29_metamodel_nodes_nodup_partial",
    "Dot.C29_metamodel_edges_have_nodes",
    "Dot.C29_metamodel_nodup_checked",
    "Dot.C29_metamodel_dot_export_checked",
    "Dot.C29_plantuml_export_checked",
]
