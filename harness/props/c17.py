"""C17 — multi-file models load each file once and share element identity.

A case is a directory of model files (sub-directories, exact / glob /
search-path imports, cycles, diamonds, self-imports), a provider, a global
repository switch, builtin models and a *history* of loads (each step can
rewrite the files: faults appear and get repaired).  A load enters textX through
one of its entry points (step["kind"]):

  file     mm.model_from_file(path)                       (default)
  strfile  mm.model_from_str(text, file_name=path)        main text from a string
  str      mm.model_from_str(text)                        anonymous main model
  preload  provider.load_models_in_model_repo(repo)       GlobalRepo providers; repo =
           the metamodel's global repository, or a fresh one without global repository

The real textX loads the history over one metamodel; the Lean machines
`Repo.loadMain` / `Repo.loadStr` / `Repo.preload` (Drivers/Repo.lean) run the
same history.  Observed on both sides: file opens
per load, the repositories (`all_models`, every model's `local_models`, the
metamodel's global repository) with object identity, every reference target.

C18 (harness/props/c18.py) reuses this module with fault-centred histories.
"""
import builtins
import glob as globmod
import os
import shutil
import tempfile

from harness.core import Check, use_repo

GRAMMAR = r"""
Model: imports*=Import elems*=Elem refs*=Ref;
Import: 'import' importURI=STRING;
Elem: 'elem' name=ID;
Ref: 'ref' target=[Elem];
"""
GRAMMAR_RREL = GRAMMAR.replace("target=[Elem]", "target=[Elem:ID|+m:elems]")

PROVIDERS = ["plain_uri", "fqn_uri", "plain_search", "rrel", "plain_grepo", "fqn_grepo"]
DIRS = ["", "d1", "d2"]
NAMES = ["n0", "n1", "n2", "n3", "n4", "n5"]
BAD = "nope"
BAD_ID = 999


# rules of GRAMMAR a case can ask a user class for (case["classes"]); while a model is under construction the
# attributes of user-class objects (for the root rule: _tx_filename, _tx_model_repository, the in-construction
# mark) live in a store managed by the parser that builds the model, not on the object
USER_RULES = ["Model", "Import", "Elem", "Ref"]


def make_user_classes(names, via="list"):
    """fresh user classes (textX keeps per-class state on them, so never shared between metamodels);
    `via`: handed over as a list or through a callable (metamodel_from_str(classes=...))"""
    made = {}
    for nm in names:
        if nm not in USER_RULES:
            raise ValueError(nm)

        def __init__(self, **kw):
            for k, v in kw.items():
                setattr(self, k, v)

        made[nm] = type(nm, (), {"__init__": __init__})
    if via == "callable":
        return lambda rule_name: made.get(rule_name)
    return [made[nm] for nm in names]


class ObjBoom(Exception):
    pass


class ModBoom(Exception):
    pass


# --------------------------------------------------------------------------
# file layout helpers
# --------------------------------------------------------------------------
def rel_dir(case, i):
    return case["files"][i]["dir"]


def file_path(root, case, i):
    f = case["files"][i]
    return os.path.abspath(os.path.join(root, f["dir"], f["base"]))


STR = "s"  # index of the anonymous main model of a "str" step


def step_kind(step):
    return step.get("kind", "file")


def spec_of(step, i):
    """content description of file i, or of the string of a "str" step (i == STR)"""
    return step["text"] if i == STR else step["files"][i]


def file_text(case, step, i):
    fs = spec_of(step, i)
    lines = [f'import "{imp["pat"]}"' for imp in fs.get("imports", [])]
    lines.append(f"elem pad{i}")
    lines += [f"elem {n}" for n in fs["defs"]]
    if fs.get("objf"):
        lines.append(f"elem boom{i}")
    lines += [f"ref {n}" for n in fs["refs"]]
    if fs.get("badref"):
        lines.append(f"ref {BAD}")
    if fs.get("syn"):
        lines.append("%%% not a model")
    return "\n".join(lines) + "\n"


def eff_refs(fs):
    return list(fs["refs"]) + ([BAD] if fs.get("badref") else [])


def name_id(n):
    return BAD_ID if n == BAD else NAMES.index(n)


def grepo_patterns(case):
    return case.get("patterns") or []


def step_imports(case, step, i):
    """Import statements of file i (or of the string model, i == STR) in this step
    as (pattern, expected file indices)."""
    if case["provider"].endswith("grepo"):
        return [{"pat": p["pat"], "expect": [j for j in p["expect"] if not step["files"][j].get("absent")]}
                for p in grepo_patterns(case)]
    if i == STR:
        return []  # a model without file name cannot import relative to its own location
    return step["files"][i]["imports"]


# --------------------------------------------------------------------------
# the implementation side
# --------------------------------------------------------------------------
class Registry:
    """numbers Python model objects by first sight; keeps them alive"""

    def __init__(self):
        self.ids = {}
        self.objs = []

    def num(self, o):
        k = id(o)
        if k not in self.ids:
            self.ids[k] = len(self.objs)
            self.objs.append(o)
        return self.ids[k]


def build_mm(case):
    use_repo()
    from textx import metamodel_from_str
    from textx.scoping import ModelRepository
    from textx.scoping import providers as sp

    prov = case["provider"]
    builtin_repo = ModelRepository() if case["builtin"] else None
    kwargs = {}
    if case["glob"]:
        kwargs["global_repository"] = True
    if builtin_repo is not None:
        kwargs["builtin_models"] = builtin_repo
    if case.get("classes"):
        kwargs["classes"] = make_user_classes(case["classes"], case.get("classes_via", "list"))
    mm = metamodel_from_str(GRAMMAR_RREL if prov == "rrel" else GRAMMAR, **kwargs)
    builtin_models = []
    for names in case["builtin"]:
        # built before the providers are registered: a reference-free string model
        # loaded with the default provider touches no repository
        bm = mm.model_from_str("".join(f"elem {n}\n" for n in names) or "elem padb\n")
        builtin_repo.add_model(bm)
        builtin_models.append(bm)
    return mm, builtin_models


def register_providers(mm, case, root, modf_now):
    from textx.scoping import providers as sp

    prov = case["provider"]
    grepo = None
    if prov == "plain_uri":
        mm.register_scope_providers({"*.*": sp.PlainNameImportURI()})
    elif prov == "fqn_uri":
        mm.register_scope_providers({"*.*": sp.FQNImportURI()})
    elif prov == "plain_search":
        mm.register_scope_providers(
            {"*.*": sp.PlainNameImportURI(search_path=[os.path.join(root, "d1"), os.path.join(root, "d2")])})
    elif prov == "rrel":
        pass  # attached to the attribute by the grammar (+m:)
    elif prov in ("plain_grepo", "fqn_grepo"):
        p = sp.PlainNameGlobalRepo() if prov == "plain_grepo" else sp.FQNGlobalRepo()
        p.set_glob_args({"recursive": True})
        for pat in grepo_patterns(case):
            p.register_models(os.path.join(root, pat["pat"]))
        mm.register_scope_providers({"*.*": p})
        grepo = p
    else:
        raise ValueError(prov)

    def objproc(e):
        if e.name.startswith("boom"):
            raise ObjBoom(e.name)

    def modproc(model, _mm):
        # scripted: fails for the models of the files marked in the current step
        if os.path.abspath(getattr(model, "_tx_filename", None) or "-") in modf_now:
            raise ModBoom("model processor")

    mm.register_obj_processors({"Elem": objproc})
    mm.register_model_processor(modproc)
    return grepo


ANON_MARK = os.path.abspath("-")  # what `modproc` sees for a model without file name


def preload_models(mm, grepo, target):
    """`GlobalRepo.load_models_in_model_repo(target)`; the metamodel of the files is
    found through the language registry (pattern *.m), registered for the call only."""
    import textx

    textx.clear_language_registrations()
    textx.register_language(textx.LanguageDesc("c17lang", pattern="*.m", metamodel=mm))
    try:
        return grepo.load_models_in_model_repo(global_model_repo=target)
    finally:
        textx.clear_language_registrations()


def resolve_stmt(case, root, importer, pat, paths):
    """What the provider's file lookup yields for one import statement, computed
    with the same library calls on the real directory (glob order is the OS's)."""
    prov = case["provider"]
    if prov.endswith("grepo"):
        hits = globmod.glob(os.path.join(root, pat), recursive=True)
    elif prov == "plain_search":
        base = os.path.dirname(file_path(root, case, importer))
        hits = []
        for p in [base, os.path.join(root, "d1"), os.path.join(root, "d2")]:
            full = os.path.join(p, pat)
            if os.path.exists(full):
                hits = [full]
                break
    else:
        base = os.path.dirname(file_path(root, case, importer))
        hits = globmod.glob(os.path.abspath(os.path.join(base, pat)))
    out = []
    for h in hits:
        out.append(paths.get(os.path.abspath(h), -1))
    return out


def run_history(case):
    """Returns {"steps": [raw step observation…]} (see module doc)."""
    use_repo()
    import textx.metamodel as tmeta
    from textx import get_model
    from textx.exceptions import TextXSemanticError, TextXSyntaxError

    root = tempfile.mkdtemp(prefix="c17_")
    reg = Registry()
    opens = []

    def counting_open(fn, *a, **k):
        opens.append(os.path.abspath(fn) if isinstance(fn, str) else fn)
        return builtins.open(fn, *a, **k)

    tmeta.open = counting_open
    try:
        for d in DIRS:
            os.makedirs(os.path.join(root, d), exist_ok=True)
        paths = {file_path(root, case, i): i for i in range(len(case["files"]))}
        mm, builtin_models = build_mm(case)
        modf_now = set()
        grepo = register_providers(mm, case, root, modf_now)
        nfiles = len(case["files"])

        def fidx(p):
            return paths.get(os.path.abspath(p), str(os.path.basename(p))) if isinstance(p, str) else "?"

        def dump_dict(repo):
            return [[fidx(k), reg.num(m)] for k, m in repo.filename_to_model.items()]

        def inst_file(m):
            fn = getattr(m, "_tx_filename", None)
            return fidx(fn) if fn else "str"

        def target_view(t):
            if t is None:
                return ["none"]
            tm = get_model(t)
            for k, bm in enumerate(builtin_models):
                if tm is bm:
                    return ["b", k, name_id(t.name) if t.name in NAMES else t.name]
            own = any(t is e for e in getattr(tm, "elems", []))
            return ["e" if own else "foreign", reg.num(tm), name_id(t.name) if t.name in NAMES else t.name]

        steps = []
        for step in case["steps"]:
            # (re)write the directory
            for i in range(nfiles):
                p = file_path(root, case, i)
                if step["files"][i].get("absent"):
                    if os.path.exists(p):
                        os.remove(p)
                else:
                    with builtins.open(p, "w") as fh:
                        fh.write(file_text(case, step, i))
            kind = step_kind(step)
            modf_now.clear()
            modf_now.update(file_path(root, case, i) for i in range(nfiles) if step["files"][i].get("modf"))
            if kind == "str" and step["text"].get("modf"):
                modf_now.add(ANON_MARK)
            stmts = [[resolve_stmt(case, root, i, imp["pat"], paths) for imp in step_imports(case, step, i)]
                     for i in range(nfiles)]
            mm_before = dump_dict(mm._tx_model_repository.all_models) if case["glob"] else None
            o = {"stmts": stmts, "mm_before": mm_before}
            if kind in ("str", "preload"):
                # the load_model calls of the string model / of the preload: the registered patterns
                o["stmts_x"] = [resolve_stmt(case, root, None, imp["pat"], paths)
                                for imp in step_imports(case, step, STR)]
            del opens[:]
            model = None
            repo_out = None
            try:
                if kind == "file":
                    model = mm.model_from_file(file_path(root, case, step["main"]))
                elif kind == "strfile":
                    model = mm.model_from_str(file_text(case, step, step["main"]),
                                              file_name=file_path(root, case, step["main"]))
                elif kind == "str":
                    model = mm.model_from_str(file_text(case, step, STR))
                elif kind == "preload":
                    repo_out = preload_models(mm, grepo, mm._tx_model_repository if case["glob"] else None)
                else:
                    raise ValueError(kind)
                o["res"] = "ok"
            except TextXSyntaxError:
                o["res"] = "syntax"
            except TextXSemanticError as e:
                o["res"] = "semantic"
                o["msg"] = str(e)[:120]
            except ObjBoom:
                o["res"] = "objproc"
            except ModBoom:
                o["res"] = "modproc"
            except OSError:
                o["res"] = "io"
            except RecursionError:
                o["res"] = "other:RecursionError"
            except Exception as e:  # any other exception class is an observation
                o["res"] = "other:" + type(e).__name__
                o["msg"] = str(e)[:200]
            o["reads"] = [fidx(p) for p in opens]
            if model is not None:
                o["ret"] = reg.num(model)
                repo = getattr(model, "_tx_model_repository", None)
                o["all"] = dump_dict(repo.all_models) if repo is not None else []
            elif repo_out is not None:
                o["ret"] = None
                o["all"] = dump_dict(repo_out.all_models)
            o["mm"] = dump_dict(mm._tx_model_repository.all_models) if case["glob"] else None
            # closure of everything reachable from the known models
            k = 0
            shared = []
            while k < len(reg.objs):
                m = reg.objs[k]
                k += 1
                repo = getattr(m, "_tx_model_repository", None)
                if repo is not None:
                    for x in repo.local_models.filename_to_model.values():
                        reg.num(x)
                    for x in repo.all_models.filename_to_model.values():
                        reg.num(x)
                for imp in getattr(m, "imports", []) or []:
                    for x in getattr(imp, "_tx_loaded_models", []) or []:
                        reg.num(x)
                for r in getattr(m, "refs", []) or []:
                    t = getattr(r, "target", None)
                    if t is not None and not any(get_model(t) is bm for bm in builtin_models):
                        reg.num(get_model(t))
            locs, tgt, loaded, allobj = [], [], [], []
            mm_all = mm._tx_model_repository.all_models if case["glob"] else None
            for n, m in enumerate(reg.objs):
                repo = getattr(m, "_tx_model_repository", None)
                locs.append([n, inst_file(m), dump_dict(repo.local_models) if repo is not None else []])
                tgt.append([n, [target_view(getattr(r, "target", None)) for r in (getattr(m, "refs", []) or [])]])
                loaded.append([n, [[reg.num(x) for x in (getattr(imp, "_tx_loaded_models", None) or [])]
                                   for imp in (getattr(m, "imports", []) or [])]])
                if repo is None:
                    allobj.append([n, "none", []])
                else:
                    allobj.append([n, "mm" if repo.all_models is mm_all else id(repo.all_models) % 100003,
                                   dump_dict(repo.all_models)])
            o["locs"], o["tgt"], o["loaded"], o["allobj"] = locs, tgt, loaded, allobj
            steps.append(o)
        return {"steps": steps}
    finally:
        try:
            del tmeta.open
        except AttributeError:
            pass
        shutil.rmtree(root, ignore_errors=True)


# --------------------------------------------------------------------------
# canonical view shared by both sides (identity through first-visit numbering)
# --------------------------------------------------------------------------
def canonical(raw_steps):
    """raw step: res, reads, ret?, all, mm, locs [[i,file,dict]], tgt [[i,[target]]].
    Instances are renumbered in the order a fixed walk meets them; only the
    instances reachable from successful results and the global repository are kept."""
    num = {}

    def n(i):
        if i not in num:
            num[i] = len(num)
        return num[i]

    out = []
    for s in raw_steps:
        locs = {i: (f, d) for i, f, d in s["locs"]}
        tgts = {i: t for i, t in s["tgt"]}
        if s["res"] == "ok":
            if s.get("ret") is not None:
                n(s["ret"])
            for _, j in s.get("all", []):
                n(j)
        for _, j in (s.get("mm") or []):
            n(j)
        # closure over local models and targets of known instances, in numbering order
        k = 0
        order = sorted(num, key=lambda i: num[i])
        while k < len(order):
            i = order[k]
            k += 1
            for _, j in locs.get(i, (None, []))[1]:
                if j not in num:
                    n(j)
                    order.append(j)
            for t in tgts.get(i, []):
                if t and t[0] in ("e", "foreign") and t[1] not in num:
                    n(t[1])
                    order.append(t[1])
        v = {"res": s["res"], "reads": list(s["reads"])}
        if s["res"] == "ok":
            v["ret"] = n(s["ret"]) if s.get("ret") is not None else None
            v["all"] = [[f, n(j)] for f, j in s.get("all", [])]
        v["mm"] = None if s.get("mm") is None else [[f, n(j)] for f, j in s["mm"]]
        v["locs"] = [[num[i], locs[i][0], [[f, n(j)] for f, j in locs[i][1]]] for i in order if i in locs]
        v["tgt"] = [[num[i], [[t[0], n(t[1]) if t[0] in ("e", "foreign") else t[1]] + t[2:] if len(t) > 1 else t
                              for t in tgts[i]]] for i in order if i in tgts]
        out.append(v)
    return out


# --------------------------------------------------------------------------
# expectations computed from the case alone (oracle side)
# --------------------------------------------------------------------------
def expected_files(case, step, i, imp):
    """files one import statement of file i denotes in this step, from the layout alone"""
    present = [j for j in range(len(case["files"])) if not step["files"][j].get("absent")]
    if case["provider"] == "plain_search":
        # first hit in [directory of the importer, d1, d2]
        for p in [case["files"][i]["dir"], "d1", "d2"]:
            full = os.path.normpath(os.path.join("/r", p, imp["pat"]))
            for j in present:
                f = case["files"][j]
                if os.path.normpath(os.path.join("/r", f["dir"], f["base"])) == full:
                    return [j]
        return []
    return [j for j in imp["expect"] if j in present]


def active_imports(case, step, i):
    """Files the model of file i imports directly in this step, per statement
    (expected sets from the generator), or None for a statement that finds nothing.
    With the RREL provider the loader is attached to the references, so a file
    without references imports nothing."""
    if case["provider"] == "rrel" and not eff_refs(spec_of(step, i)):
        return []
    out = []
    for imp in step_imports(case, step, i):
        ex = expected_files(case, step, i, imp)
        out.append(ex if ex else None)
    return out


def load_roots(case, step, cached):
    """where the load of this step starts: the main file, the string model, or (preload)
    every file the registered patterns denote; cached files are not loaded"""
    kind = step_kind(step)
    if kind == "str":
        return [STR]
    if kind == "preload":
        out = []
        for st in active_imports_any(case, step, STR):
            for j in st or []:
                if j not in cached and j not in out:
                    out.append(j)
        return out
    return [] if step["main"] in cached else [step["main"]]


def closure_nc(case, step, cached):
    """models constructed by the load: reachable from its roots through files that are
    not cached, not cached themselves (the string model of a "str" step is STR)"""
    seen = list(load_roots(case, step, cached))
    todo = list(seen)
    while todo:
        i = todo.pop()
        for st in active_imports(case, step, i):
            for j in st or []:
                if j not in cached and j not in seen:
                    seen.append(j)
                    todo.append(j)
    return seen


def expected_opens(case, step, cached):
    """files the load has to open: the constructed models whose text comes from a file"""
    out = [i for i in closure_nc(case, step, cached) if i != STR]
    if step_kind(step) == "strfile":
        out = [i for i in out if i != step["main"]]
    return out


def visible_definers(case, step, i, name, file_defs):
    """(self defines?, direct imports defining name, builtin indices defining name)"""
    direct = []
    for st in active_imports(case, step, i):
        for j in st or []:
            if j not in direct:
                direct.append(j)
    own = name in (step["text"]["defs"] if i == STR else file_defs(i))
    return (own, [j for j in direct if name in file_defs(j)],
            [k for k, b in enumerate(case["builtin"]) if name in b])


def step_has_fault(case, step, files):
    for i in files:
        fs = spec_of(step, i)
        if fs.get("syn") or fs.get("objf") or fs.get("modf") or fs.get("badref") or fs.get("absent"):
            return True
        if any(st is None for st in active_imports(case, step, i)):
            return True
    return False


class Prop(Check):
    ID = "C17"
    LEAN_MODULE = "TextxVerif.Props.C17"
    THEOREMS = [
        "Repo.C17_terminates",
        "Repo.C17_once",
        "Repo.C17_closure",
        "Repo.C17_identity",
        "Repo.C17_lookup_order",
        "Repo.C17_cached_reload",
        "Repo.C17_str_name_fresh",
        "Repo.C17_str_as_file",
        "Repo.C17_str_terminates",
        "Repo.C17_str_once",
        "Repo.C17_str_closure",
        "Repo.C17_str_identity",
        "Repo.C17_str_lookup_order",
        "Repo.C17_preload",
        "Repo.C17_cached_any",
        "Repo.C17_cached_closure",
        "Repo.C17_step_wf",
        "Repo.C17_history_wf",
        "Repo.C17_history_wf_glob",
        "Repo.C17_load_base",
        "Repo.C17_history_terminates",
        "Repo.C17_history_wf_fueled",
        "Repo.C17_history_next",
        "Repo.C17_targets_untouched",
        "Repo.C17_history_identity",
    ]
    DRIVER = "Drivers/Repo.lean"
    QUICK_CASES = 300
    THOROUGH_CASES = 5000
    FAULT_BIAS = 0.25
    RULE = ("directories of <=6 model files in <=3 directories with random import graphs (exact, glob, search-path "
            "imports; cycles, diamonds, self-imports), 6 providers x global repository on/off x builtin models, "
            "histories of 1..4 loads, each load through one of the entry points model_from_file / model_from_str with "
            "file name / model_from_str without file name (anonymous main model) / GlobalRepo.load_models_in_model_repo "
            "(any of them may be the first load on the still empty shared repository); non-trivial = some load of the "
            "history reads >=3 files and either the import graph has a cycle / diamond / self-import or a later load "
            "meets cached models")
    MODELLED = ("hand-modelled: scoping/__init__.py ModelRepository + GlobalModelRepository.load_model / "
                "update_model_in_repo_based_on_filename / pre_ref_resolution_callback / get_included_models / "
                "remove_models_from_repositories, providers.py ImportURI.load_models/_load_referenced_models/__call__ "
                "(lookup order), metamodel.py internal_model_from_file (cache check, callback, processors), model_from_str "
                "(with / without file name), providers.py GlobalRepo.load_models_in_model_repo, model.py "
                "parse_tree_to_objgraph exception handlers (Repo.loadMain/loadStr/preload/internal/loadCalls/"
                "loadModelWith/lookup); tie X: "
                "file opens, all_models/local_models/global repository with identity, reference targets per load of a "
                "history; not exhibited: glob/os.path (expansions are computed with the same library calls), importAs, "
                "name lookup inside one model (PlainName/FQN/RREL navigation: only simple names), GlobalRepo.add_model, "
                "pre-load into a repository that is not the metamodel's global one while the metamodel has one, "
                "failure paths of the pre-load")
    ASSUMPTIONS = [
        "each file name denotes one file (no symlinks / case-insensitive aliases): abspath is the cache key",
        "scope providers are the ImportURI family; user callbacks do not touch the repositories",
        "import closure is taken over the files as they are when read; a cached model is not re-read",
        "a model given as a string is no file: it is never cached or shared; it must use every file through the "
        "single shared instance",
    ]

    # ---------------------------------------------------------------- gen
    def gen_layout(self, rng):
        nfiles = rng.weighted([(1, 1), (2, 3), (3, 5), (4, 5), (5, 4), (6, 3)])
        prov = rng.choice(PROVIDERS)
        files = []
        for i in range(nfiles):
            d = rng.weighted([("", 5), ("d1", 3), ("d2", 2)])
            base = f"f{i}.m"
            if prov == "plain_search" and i > 0 and rng.chance(0.25):
                # same base name as an earlier file in another directory (search path shadowing)
                k = rng.below(i)
                if all((f["dir"], f["base"]) != (d, files[k]["base"]) for f in files):
                    base = files[k]["base"]
            files.append({"dir": d, "base": base})
        return prov, files

    def expect_exact(self, files, importer, target):
        return os.path.relpath(os.path.join("/r", files[target]["dir"], files[target]["base"]),
                               os.path.join("/r", files[importer]["dir"]))

    def search_expect(self, files, importer, pat):
        """first hit of `pat` in [dir(importer), d1, d2] (pattern relative, may contain ../)"""
        for p in [files[importer]["dir"], "d1", "d2"]:
            full = os.path.normpath(os.path.join("/r", p, pat))
            for j, f in enumerate(files):
                if os.path.normpath(os.path.join("/r", f["dir"], f["base"])) == full:
                    return [j]
        return []

    def gen_import(self, rng, prov, files, i):
        n = len(files)
        kind = rng.weighted([("exact", 6), ("glob", 3 if prov != "plain_search" else 0),
                             ("base", 4 if prov == "plain_search" else 0), ("self", 1)])
        if kind == "exact":
            t = rng.below(n)
            pat = self.expect_exact(files, i, t)
            ex = self.search_expect(files, i, pat) if prov == "plain_search" else [t]
        elif kind == "self":
            pat = files[i]["base"]
            ex = self.search_expect(files, i, pat) if prov == "plain_search" else [i]
        elif kind == "base":
            t = rng.below(n)
            pat = files[t]["base"]
            ex = self.search_expect(files, i, pat)
        else:
            d = rng.choice(DIRS)
            rel = os.path.relpath(os.path.join("/r", d), os.path.join("/r", files[i]["dir"]))
            pat = "*.m" if rel == "." else rel + "/*.m"
            ex = [j for j, f in enumerate(files) if f["dir"] == d]
        return pat, ex

    def gen_imports(self, rng, prov, files, i):
        imps = []
        k = rng.weighted([(0, 2), (1, 4), (2, 4), (3, 2)])
        for _ in range(k):
            for _attempt in range(4):
                pat, ex = self.gen_import(rng, prov, files, i)
                if ex or rng.chance(0.04):
                    break
            imps.append({"pat": pat, "expect": ex})
        return imps

    def gen_case(self, rng, fault_bias, nsteps=None):
        prov, files = self.gen_layout(rng)
        n = len(files)
        glob = rng.chance(0.6)
        builtin = []
        if rng.chance(0.4):
            for _ in range(rng.randint(1, 2)):
                builtin.append(rng.sample(NAMES, rng.randint(1, 3)))
        case = {"provider": prov, "glob": glob, "builtin": builtin, "files": files}
        if prov.endswith("grepo"):
            pats = []
            for _ in range(rng.randint(1, 2)):
                kind = rng.weighted([("all", 3), ("dir", 2), ("one", 1)])
                if kind == "all":
                    pats.append({"pat": "**/*.m", "expect": list(range(n))})
                elif kind == "dir":
                    d = rng.choice(DIRS)
                    pats.append({"pat": (d + "/" if d else "") + "*.m",
                                 "expect": [j for j, f in enumerate(files) if f["dir"] == d]})
                else:
                    t = rng.below(n)
                    pats.append({"pat": os.path.join(files[t]["dir"], files[t]["base"]), "expect": [t]})
            case["patterns"] = pats
        # base content
        base = []
        for i in range(n):
            defs = rng.sample(NAMES, rng.weighted([(0, 1), (1, 3), (2, 3), (3, 1)]))
            imps = [] if prov.endswith("grepo") else self.gen_imports(rng, prov, files, i)
            base.append({"imports": imps, "defs": defs, "refs": []})
        probe = {"main": 0, "files": base}
        for i in range(n):
            # references: mostly to visible names
            vis = set(base[i]["defs"])
            for st in active_imports_any(case, probe, i):
                for j in st or []:
                    vis |= set(base[j]["defs"])
            for b in builtin:
                vis |= set(b)
            vis = sorted(vis)
            for _ in range(rng.weighted([(0, 2), (1, 3), (2, 3), (3, 1)])):
                if vis and not rng.chance(0.04):
                    base[i]["refs"].append(rng.choice(vis))
                else:
                    base[i]["refs"].append(rng.choice(NAMES))
        # history
        steps = []
        nsteps = nsteps or rng.weighted([(1, 3), (2, 4), (3, 3), (4, 2)])
        last_fault = None
        for s in range(nsteps):
            fs = [dict(f) for f in base]
            if last_fault is not None and rng.chance(0.8):
                main = last_fault  # repaired reload of the same main file
                last_fault = None
            else:
                main = rng.weighted([(0, 3)] + [(i, 1) for i in range(n)])
                if steps and rng.chance(0.3):
                    main = steps[-1]["main"]
                if rng.chance(fault_bias):
                    victim = rng.below(n)
                    kind = rng.weighted([("syn", 3), ("badref", 3), ("objf", 3), ("modf", 4), ("absent", 1)])
                    if kind == "absent" and victim == main:
                        kind = "syn"
                    fs[victim][kind] = True
                    last_fault = main
            steps.append({"main": main, "files": fs})
        case["steps"] = steps
        return case

    # how a load enters textX (see module doc): weights per provider family
    KINDS_GREPO = [("file", 5), ("str", 3), ("strfile", 1), ("preload", 2)]
    KINDS_URI = [("file", 6), ("strfile", 2), ("str", 1)]

    def gen_text(self, rng, case, step, fault_bias):
        """the anonymous main model of a "str" step: definitions, references mostly to
        names visible through the registered patterns / builtin models, sometimes a fault"""
        text = {"defs": rng.sample(NAMES, rng.weighted([(0, 2), (1, 3), (2, 2)])), "refs": []}
        vis = set(text["defs"])
        for st in active_imports_any(case, {"files": step["files"], "text": text}, STR):
            for j in st or []:
                vis |= set(step["files"][j]["defs"])
        for b in case["builtin"]:
            vis |= set(b)
        vis = sorted(vis)
        for _ in range(rng.weighted([(0, 1), (1, 3), (2, 3), (3, 2)])):
            text["refs"].append(rng.choice(vis) if vis and not rng.chance(0.04) else rng.choice(NAMES))
        if rng.chance(fault_bias / 2):
            text[rng.weighted([("syn", 2), ("badref", 3), ("objf", 3), ("modf", 3)])] = True
        return text

    def add_load_kinds(self, rng, case, fault_bias):
        """every entry point that starts a load on the shared repositories, at every
        position of the history (in particular as the first load on an empty repository)"""
        grepo = case["provider"].endswith("grepo")
        for step in case["steps"]:
            kind = rng.weighted(self.KINDS_GREPO if grepo else self.KINDS_URI)
            if kind == "file":
                continue
            step["kind"] = kind
            if kind == "str":
                step["text"] = self.gen_text(rng, case, step, fault_bias)
            elif kind == "preload":
                # the explicit pre-load is exercised without faults (its failure paths belong to C18)
                step["files"] = [{k: v for k, v in f.items() if k not in ("syn", "badref", "objf", "modf", "absent")}
                                 for f in step["files"]]
        return case

    def gen(self, rng, n, tier):
        if tier == "thorough":
            # complete: every import graph over <=3 files (self-imports included)
            for g in all_graphs(3):
                for prov, glob in (("plain_uri", True), ("plain_uri", False), ("rrel", True), ("fqn_uri", False)):
                    tab = graph_table(g)
                    last = len(g) - 1
                    yield {"provider": prov, "glob": glob, "builtin": [], "files": graph_files(len(g)),
                           "exhaustive": True,
                           "steps": [{"main": 0, "files": tab}, {"main": 0, "files": tab}, {"main": last, "files": tab}]}
            # complete: every sequence of <=3 entry points on a two-file cycle behind a GlobalRepo provider
            import itertools
            tab = [{"imports": [], "defs": [NAMES[i]], "refs": [NAMES[i], NAMES[1 - i]]} for i in range(2)]
            entries = [("file", 0), ("file", 1), ("strfile", 0), ("str", None), ("preload", None)]
            for glob in (True, False):
                for ln in (1, 2, 3):
                    for seq in itertools.product(entries, repeat=ln):
                        steps = []
                        for kind, main in seq:
                            st = {"main": main or 0, "files": tab, "kind": kind}
                            if kind == "str":
                                st["text"] = {"defs": [NAMES[2]], "refs": [NAMES[0], NAMES[1], NAMES[2]]}
                            steps.append(st)
                        yield {"provider": "plain_grepo", "glob": glob, "builtin": [], "files": graph_files(2),
                               "patterns": [{"pat": "*.m", "expect": [0, 1]}], "exhaustive": True, "steps": steps}
        for _ in range(n):
            yield self.add_load_kinds(rng, self.gen_case(rng, self.FAULT_BIAS), self.FAULT_BIAS)

    # ---------------------------------------------------------------- impl / model
    def impl(self, case):
        return run_history(case)

    def model_req(self, case, obs):
        steps = []
        for step, o in zip(case["steps"], obs["steps"]):
            files = []
            for i, fs in enumerate(step["files"]):
                stm = o["stmts"][i]
                if any(j == -1 for e in stm for j in e):
                    return None  # a file outside the case was matched: harness trouble, shown by the oracle
                files.append({"stmts": stm, "defs": [name_id(x) for x in fs["defs"]],
                              "refs": [name_id(x) for x in eff_refs(fs)],
                              "syn": bool(fs.get("syn")), "objf": bool(fs.get("objf")), "modf": bool(fs.get("modf"))})
            kind = step_kind(step)
            req = {"kind": {"strfile": "file"}.get(kind, kind), "main": step["main"], "files": files}
            if kind in ("str", "preload"):
                if any(j == -1 for e in o["stmts_x"] for j in e):
                    return None
                req["calls"] = o["stmts_x"]
            if kind == "str":
                t = step["text"]
                req["text"] = {"stmts": o["stmts_x"], "defs": [name_id(x) for x in t["defs"]],
                               "refs": [name_id(x) for x in eff_refs(t)], "syn": bool(t.get("syn")),
                               "objf": bool(t.get("objf")), "modf": bool(t.get("modf"))}
            steps.append(req)
        return {"op": "history", "glob": case["glob"], "perRef": case["provider"] == "rrel",
                "builtins": [[name_id(x) for x in b] for b in case["builtin"]], "steps": steps}

    def model_view(self, case, out):
        """the model numbers the text sources: files 0..n-1, then `anonymous{k}` = n+k for
        models given as a string; its read log holds every text parsed, the implementation's
        only the files opened (a string is parsed without an open)"""
        n = len(case["files"])

        def key(f):
            return f if f < n else f"anonymous{f - n}"

        def dct(d):
            return [[key(f), j] for f, j in d]

        raw = []
        for step, s in zip(case["steps"], out["steps"]):
            kind = step_kind(step)
            reads = [f for f in s["reads"] if f < n]
            if kind == "strfile" and step["main"] in reads:
                reads.remove(step["main"])
            # a model without file name gets its repository in `ImportURI.load_models`; a loader attached to
            # the references (RREL) never runs for a model without references: such a model sees no dict
            no_repo = kind == "str" and case["provider"] == "rrel" and not eff_refs(step["text"])
            raw.append({"res": s["res"], "reads": reads, "ret": None if kind == "preload" else s["ret"],
                        "all": dct(s["all"]) if s["res"] == "ok" and not no_repo else [],
                        "mm": dct(s["all"]) if case["glob"] else None,
                        "locs": [[i, f if f < n else "str", dct(d)] for i, f, d in s["locs"]], "tgt": s["tgt"]})
        return canonical(raw)

    def compare(self, case, obs, out):
        if "err" in out:
            return f"model rejected the request: {out}"
        a = canonical(obs["steps"])
        b = self.model_view(case, out)
        for k, (x, y) in enumerate(zip(a, b)):
            for key in ("res", "reads", "ret", "all", "mm", "locs", "tgt"):
                if x.get(key) != y.get(key):
                    return f"step {k}: {key} differs: impl {x.get(key)} model {y.get(key)}"
        # `Repo.visible` (C18_semantic_cause / C18_repair_succeeds) against the real load: textX fails at
        # reference resolution exactly when a text parsed in the load has a reference without visible definition
        for k, (step, o, m) in enumerate(zip(case["steps"], obs["steps"], out["steps"])):
            if step_kind(step) == "preload":
                continue
            un = m.get("unres")
            if un is None:
                return f"step {k}: the model reports no 'unres'"
            if o["res"] == "semantic" and not un:
                return (f"step {k}: the load failed at reference resolution but every reference has a visible "
                        f"definition (Repo.visible)")
            # (a model processor error may come from an imported model, before references are resolved)
            if o["res"] in ("ok", "objproc") and un:
                return (f"step {k}: the load got past reference resolution ({o['res']}) but references {un} have "
                        f"no visible definition (Repo.visible)")
        return None

    # ---------------------------------------------------------------- oracle
    def oracle(self, case, obs):
        return oracle_c17(case, obs)

    def nontrivial(self, case, obs):
        big = any(len(s["reads"]) >= 3 for s in obs["steps"])
        if not big:
            return False
        shape = False
        for step in case["steps"]:
            indeg = {}
            for i in range(len(case["files"])):
                direct = set()
                for st in active_imports(case, step, i):
                    direct |= set(st or [])
                if i in direct:
                    shape = True
                for j in direct:
                    indeg[j] = indeg.get(j, 0) + 1
            if any(v >= 2 for v in indeg.values()):
                shape = True
        cached = any(s.get("mm_before") and s["res"] == "ok" for s in obs["steps"])
        return shape or cached

    def classify(self, case, obs, failure):
        return None

    # ---------------------------------------------------------------- shrink
    def shrink(self, case):
        import copy

        # drop a step
        if len(case["steps"]) > 1:
            for k in range(len(case["steps"])):
                c = copy.deepcopy(case)
                del c["steps"][k]
                yield c
        # clear faults / refs / imports / defs of one file in all steps
        n = len(case["files"])
        for i in range(n):
            for what in ("refs", "imports", "defs"):
                if any(s["files"][i][what] for s in case["steps"]):
                    c = copy.deepcopy(case)
                    for s in c["steps"]:
                        s["files"][i][what] = []
                    yield c
        for k, s in enumerate(case["steps"]):
            for i in range(n):
                for what in ("refs", "imports"):
                    xs = s["files"][i][what]
                    if len(xs) > 1:
                        for j in range(len(xs)):
                            c = copy.deepcopy(case)
                            for s2 in c["steps"]:
                                if len(s2["files"][i][what]) == len(xs):
                                    del s2["files"][i][what][j]
                            yield c
        if case["builtin"]:
            c = copy.deepcopy(case)
            c["builtin"] = []
            yield c
        if case.get("classes"):
            c = copy.deepcopy(case)
            c.pop("classes")
            c.pop("classes_via", None)
            yield c
            if len(case["classes"]) > 1:
                for nm in case["classes"]:
                    c = copy.deepcopy(case)
                    c["classes"] = [x for x in case["classes"] if x != nm]
                    yield c
            if case.get("classes_via"):
                c = copy.deepcopy(case)
                c.pop("classes_via")
                yield c
        for k, s in enumerate(case["steps"]):
            if step_kind(s) in ("strfile", "str", "preload"):
                c = copy.deepcopy(case)
                c["steps"][k].pop("kind")
                c["steps"][k].pop("text", None)
                yield c
            if step_kind(s) == "str":
                for what in ("refs", "defs"):
                    if s["text"][what]:
                        c = copy.deepcopy(case)
                        c["steps"][k]["text"][what] = []
                        yield c

    def sample_view(self, case, obs):
        return {"case": {"provider": case["provider"], "glob": case["glob"], "classes": case.get("classes", []),
                         "files": case["files"],
                         "steps": [{"main": s["main"], "kind": step_kind(s)} for s in case["steps"]]},
                "impl": [{"res": s["res"], "reads": s["reads"]} for s in obs.get("steps", [])] if isinstance(obs, dict) else obs}

    def extra_search(self, rng, tier, broken):
        return list(self.gen(rng, 800 if tier == "quick" else 6000, tier))

    def extra_evidence(self, cases, obs, outs):
        dist = {"providers": {}, "glob": 0, "steps": 0, "ok": 0, "fail": {}, "reads": 0, "cached_hits": 0,
                "kinds": {}, "first_kind_glob": {}, "classes": {}}
        for c, o in zip(cases, obs):
            if not isinstance(o, dict) or "steps" not in o:
                continue
            dist["providers"][c["provider"]] = dist["providers"].get(c["provider"], 0) + 1
            dist["glob"] += 1 if c["glob"] else 0
            ck = ",".join(c.get("classes") or []) or "-"
            dist["classes"][ck] = dist["classes"].get(ck, 0) + 1
            for st in c["steps"]:
                dist["kinds"][step_kind(st)] = dist["kinds"].get(step_kind(st), 0) + 1
            if c["glob"] and c["steps"]:
                k0 = step_kind(c["steps"][0])
                dist["first_kind_glob"][k0] = dist["first_kind_glob"].get(k0, 0) + 1
            for s in o["steps"]:
                dist["steps"] += 1
                dist["reads"] += len(s["reads"])
                if s["res"] == "ok":
                    dist["ok"] += 1
                    if s.get("mm_before"):
                        dist["cached_hits"] += 1
                else:
                    dist["fail"][s["res"]] = dist["fail"].get(s["res"], 0) + 1
        ex = sum(1 for c in cases if c.get("exhaustive"))
        out = {"distribution": dist}
        if ex:
            out["exhaustive"] = f"{ex} cases: every import graph over <=3 files (complete enumeration)"
        return out


def all_graphs(nmax):
    """every directed graph (adjacency lists, self loops allowed) on 1..nmax nodes"""
    for n in range(1, nmax + 1):
        for bits in range(1 << (n * n)):
            yield [[j for j in range(n) if bits >> (i * n + j) & 1] for i in range(n)]


def graph_files(n):
    return [{"dir": "", "base": f"f{i}.m"} for i in range(n)]


def graph_table(g):
    """file i defines n{i} and refers to its own name and the names of the files it imports"""
    return [{"imports": [{"pat": f"f{j}.m", "expect": [j]} for j in adj], "defs": [NAMES[i]],
             "refs": [NAMES[i]] + [NAMES[j] for j in adj]} for i, adj in enumerate(g)]


def active_imports_any(case, step, i):
    """like active_imports but ignoring the RREL 'no references' rule (used while generating)"""
    out = []
    for imp in step_imports(case, step, i):
        ex = expected_files(case, step, i, imp)
        out.append(ex if ex else None)
    return out


# --------------------------------------------------------------------------
# direct oracles (from the property statements, no model)
# --------------------------------------------------------------------------
def _known_before(obs, k):
    """instances reachable from successful results / global repository before step k:
    {inst: (file, loc, allobj)} taken from the previous step's dump"""
    if k == 0:
        return {}
    prev = obs["steps"][k - 1]
    locs = {i: (f, d) for i, f, d in prev["locs"]}
    allo = {i: (tag, d) for i, tag, d in prev["allobj"]}
    return {i: (locs[i][0], locs[i][1], allo.get(i)) for i in locs}


def oracle_c17(case, obs):
    """C17 from its statement: each file of the closure opened exactly once per load
    (cached files not at all), one instance per file everywhere, lookup order
    self → loaded models → builtin models, cached reload returns the same object."""
    for k, (step, s) in enumerate(zip(case["steps"], obs["steps"])):
        if s["res"].startswith("other:"):
            return f"step {k}: load raised {s['res'][6:]}: {s.get('msg', '')}"
        if any(j == -1 for fs in s["stmts"] for e in fs for j in e):
            return f"step {k}: an import matched a file outside the generated directory"
        cached = {f for f, _ in (s["mm_before"] or [])}
        reads = s["reads"]
        dup = sorted({f for f in reads if reads.count(f) > 1}, key=str)
        if dup:
            return f"step {k}: files {dup} were opened more than once in one load (reads {reads})"
        again = [f for f in reads if f in cached]
        if again:
            return f"step {k}: files {again} are cached in the global repository but were opened again"
        if s["res"] != "ok":
            continue
        kind = step_kind(step)
        what = {"file": f"file {step['main']}", "strfile": f"file {step['main']} (text given as a string)",
                "str": "the string model", "preload": "the registered patterns"}[kind]
        expect = expected_opens(case, step, cached)
        if sorted(reads, key=str) != sorted(expect, key=str):
            return (f"step {k}: successful load opened {sorted(reads, key=str)} but the import closure of {what} "
                    f"(minus cached {sorted(cached, key=str)}) is {sorted(expect)}")
        constructed = closure_nc(case, step, cached)
        # identity: one instance per file among everything reachable from the result
        locs = {i: (f, d) for i, f, d in s["locs"]}
        tgts = {i: t for i, t in s["tgt"]}
        loaded = {i: l for i, l in s["loaded"]}
        reach, todo = [], ([s["ret"]] if s["ret"] is not None else []) + [j for _, j in s["all"]]
        while todo:
            i = todo.pop()
            if i in reach:
                continue
            reach.append(i)
            todo += [j for _, j in locs[i][1]]
            todo += [j for l in loaded.get(i, []) for j in l]
            todo += [t[1] for t in tgts.get(i, []) if t[0] in ("e", "foreign")]
        by_file = {}
        for i in reach:
            if locs[i][0] != "str":  # a model given as a string is no file: every such load makes a new one
                by_file.setdefault(locs[i][0], set()).add(i)
        multi = {f: sorted(v) for f, v in by_file.items() if len(v) > 1}
        if multi:
            return f"step {k}: more than one model instance for a file is reachable from the loaded model: {multi}"
        inst_of = {f: next(iter(v)) for f, v in by_file.items()}
        if case["glob"]:
            mm = dict((f, j) for f, j in s["mm"])
            for f, i in inst_of.items():
                if mm.get(f) != i:
                    return f"step {k}: file {f} is used as instance {i} but the global repository holds {mm.get(f)}"
            if kind in ("file", "strfile") and step["main"] in cached:
                before = dict((f, j) for f, j in s["mm_before"])
                if s["ret"] != before[step["main"]]:
                    return f"step {k}: repeated load of file {step['main']} did not return the cached model"
        for f, j in s["all"]:
            if locs[j][0] != ("str" if isinstance(f, str) and f.startswith("anonymous") else f):
                return f"step {k}: all_models maps file {f} to a model of file {locs[j][0]}"
        if kind == "preload":
            have = {f for f, _ in s["all"]}
            lost = [j for st in active_imports_any(case, step, STR) for j in st or [] if j not in have]
            if lost:
                return f"step {k}: files {sorted(set(lost))} match a registered pattern but are not in the repository"
        for i in reach:
            for f, j in locs[i][1]:
                if locs[j][0] != f:
                    return f"step {k}: local_models of instance {i} maps file {f} to a model of file {locs[j][0]}"
        # lookup order for the models constructed in this load
        for i in reach:
            f = locs[i][0]
            if kind == "str" and i == s["ret"]:
                f = STR
            if f not in constructed:
                continue
            fs = spec_of(step, f)
            names = eff_refs(fs)
            got = tgts.get(i, [])
            if len(got) != len(names):
                return f"step {k}: file {f} has {len(names)} references but {len(got)} targets"
            for name, t in zip(names, got):
                own, direct, blt = visible_definers(case, step, f, name, lambda j: step_defs_at_load(case, obs, k, j))
                if t[0] == "none" or t[0] == "foreign":
                    return f"step {k}: reference {name} of file {f} has target {t} after a successful load"
                if own:
                    ok = t[0] == "e" and t[1] == i
                    want = "the model itself"
                elif direct:
                    ok = t[0] == "e" and locs[t[1]][0] in direct
                    want = f"one of the imported files {direct}"
                elif blt:
                    ok = t[0] == "b" and t[1] in blt
                    want = f"a builtin model {blt}"
                else:
                    ok = False
                    want = "nothing (no visible definition): the load had to fail"
                if not ok:
                    where = f"file {locs[t[1]][0]} (instance {t[1]})" if t[0] == "e" else f"builtin {t[1]}"
                    return (f"step {k}: reference {name} in file {f} resolved to {where}, "
                            f"lookup order demands {want}")
                tname = NAMES[t[2]] if isinstance(t[2], int) and t[2] < len(NAMES) else t[2]
                if tname != name:
                    return f"step {k}: reference {name} in file {f} resolved to an element named {tname}"
    return None


def step_defs_at_load(case, obs, k, j):
    """definitions of file j as held by the instance used at step k: the content
    at the most recent step in which j was read (a cached model keeps old content)"""
    for q in range(k, -1, -1):
        sq, cq = obs["steps"][q], case["steps"][q]
        from_str = (step_kind(cq) == "strfile" and cq["main"] == j
                    and j not in {f for f, _ in (sq["mm_before"] or [])})
        if (j in sq["reads"] or from_str) and sq["res"] == "ok":
            return cq["files"][j]["defs"]
    return case["steps"][k]["files"][j]["defs"]
