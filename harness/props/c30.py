"""C30 — the textx CLI reports outcomes and passes generator arguments faithfully.

Implementation side: real `textx check` / `textx generate` command lines run in
process through click's CliRunner against two languages registered for the run
(`*.c30a`, `*.c30b`), a grammar file for `--grammar`, and recording generators
registered for a per-case target with declared / undeclared parameter lists.
Model side: `Cli.runGenerate` / `Cli.runCheck` (Drivers/Cli.lean) on the argument
tuple click hands to the command body, with the environment facts (which file
loads, where it fails) taken from loading the files directly through the
metamodel, not through the CLI.
"""
import logging
import os
import re
import shutil
import tempfile

from harness.core import Check, use_repo

KW = {"a": ("item", "ref"), "b": ("def", "use")}
GRAMMAR = {
    "a": "Model: stmts*=Stmt;\nStmt: Item | Ref;\nItem: 'item' name=ID ';';\nRef: 'ref' target=[Item] ';';\n",
    "b": "Model: stmts*=Stmt;\nStmt: Item | Ref;\nItem: 'def' name=ID ';';\nRef: 'use' target=[Item] ';';\n",
}
LANG = {"a": "c30a", "b": "c30b"}          # registered language names; file patterns *.c30a / *.c30b
EXT_LANG = {"c30a": "a", "c30b": "b"}
MODEL_PARAMS = {"a": ["project_root"], "b": ["project_root", "mparam"]}
CLICK_VALUED = {"target": "--target", "language": "--language", "grammar": "--grammar", "output": "-o"}
CLICK_FLAGS = {"overwrite": "--overwrite", "ic": "-i"}

NAMES = ["x", "name", "my-flag", "other-arg", "a-b-c", "opt_x", "x_y", "x-y", "must", "must-have",
         "project-root", "mparam", "Flag", "meaning_of_life", "n1", "long-name-with-many-dashes", "-lead", "t-"]
VALUES = ["1", "42", "v-1", "some string", "'q'", '"dq"', "a=b", "-5", "", "x'y", "plain", "with-dash",
          "\"'mixed'\"", "0", "True", "pa/th.txt", "été"]

_state = {"setup": False, "counter": 0, "mm": {}}


def norm(name):
    return name.replace("-", "_")


def strip_quotes(v):
    """the value without the quote characters the shell-style quoting leaves around it"""
    i, j = 0, len(v)
    while i < j and v[i] in "\"'":
        i += 1
    while j > i and v[j - 1] in "\"'":
        j -= 1
    return v[i:j]


def _setup():
    """register the two languages once per process (public registration API)"""
    use_repo()
    if _state["setup"]:
        return
    from textx import LanguageDesc, metamodel_from_str, register_language
    from textx.exceptions import TextXRegistrationError

    for key in ("a", "b"):
        def factory(key=key, **kw):
            if key not in _state["mm"]:
                mm = metamodel_from_str(GRAMMAR[key])
                if key == "b":
                    mm.model_param_defs.add("mparam", "a model parameter of language b")
                _state["mm"][key] = mm
            return _state["mm"][key]

        try:
            register_language(LanguageDesc(LANG[key], "*." + LANG[key], "C30 test language " + key, factory))
        except TextXRegistrationError:
            pass
    _state["setup"] = True


class _Capture(logging.Handler):
    def __init__(self):
        super().__init__(level=logging.DEBUG)
        self.recs = []

    def emit(self, r):
        try:
            self.recs.append((r.levelname, r.getMessage()))
        except Exception as e:  # a broken log call is part of the observation
            self.recs.append(("BROKEN", repr(e)))


# ---------------------------------------------------------------------------
# case -> text / argv
# ---------------------------------------------------------------------------
def file_text(f):
    kw_item, kw_ref = KW[f["kw"]]
    if f.get("upper"):
        kw_item, kw_ref = kw_item.upper(), kw_ref.upper()
    out = []
    for ln in f["lines"]:
        ind = " " * ln.get("ind", 0)
        k = ln["k"]
        if k == "blank":
            out.append(ind)
        elif k == "item":
            out.append(f"{ind}{kw_item} {ln['n']};")
        elif k == "ref":
            out.append(f"{ind}{kw_ref} {ln['n']};")
        elif k == "junk":
            out.append(f"{ind}%% {kw_item} {ln['n']};")
    return "\n".join(out) + "\n"


def first_stmt_pos(f):
    for i, ln in enumerate(f["lines"]):
        if ln["k"] != "blank":
            return [i + 1, ln.get("ind", 0) + 1]
    return None


def planted_error(f, gram, ic):
    """[line, col] of the first error of file f under grammar `gram` (ignore_case `ic`), or None —
    computed from the way the text was built, not by parsing"""
    if f["kw"] != gram or (f.get("upper") and not ic):
        return first_stmt_pos(f)
    names = set()
    junk = None
    for i, ln in enumerate(f["lines"]):
        if ln["k"] == "junk":
            junk = [i + 1, ln.get("ind", 0) + 1]
            break
    # a syntax error wins over reference errors (references are resolved after parsing)
    if junk:
        return junk
    for ln in f["lines"]:
        if ln["k"] == "item":
            names.add(ln["n"])
    kw_ref = KW[f["kw"]][1]
    for i, ln in enumerate(f["lines"]):
        if ln["k"] == "ref" and ln["n"] not in names:
            return [i + 1, ln.get("ind", 0) + len(kw_ref) + 2]
    return None


def file_tok(case, i):
    f = case["files"][i]
    return f"<D>/{f['name']}.{f['ext']}"


def expected_kwargs(case):
    kw = {}
    for e in case["line"]:
        if e[0] == "arg":
            v = e[2]
            if v is None:
                kw[norm(e[1])] = True
            elif isinstance(v, dict):
                kw[norm(e[1])] = strip_quotes(file_tok(case, v["file"]))
            else:
                kw[norm(e[1])] = strip_quotes(v)
    return kw


def line_files(case):
    return [e[1] for e in case["line"] if e[0] == "file"]


def render(case, d, target):
    argv = [case["cmd"]]
    for e in case["line"]:
        if e[0] == "file":
            argv.append(file_tok(case, e[1]).replace("<D>", d))
        elif e[0] == "arg":
            argv.append("--" + e[1])
            if e[2] is not None:
                v = e[2]
                argv.append(file_tok(case, v["file"]).replace("<D>", d) if isinstance(v, dict) else v)
        elif e[0] == "opt":
            o = e[1]
            if o in CLICK_FLAGS:
                argv.append(CLICK_FLAGS[o])
            elif o == "target":
                argv += ["--target", target]
            elif o == "language":
                argv += ["--language", case["mode"]["lang"]]
            elif o == "grammar":
                argv += ["--grammar", os.path.join(d, "G.tx")]
            elif o == "output":
                argv += ["-o", os.path.join(d, "out")]
    return argv


def ambiguous_flags(case):
    """indices (in case['line']) of bare flags that are followed by click-owned options and then by a
    model file: click removes its options before textX scans the list, so the file becomes the flag's value"""
    out = []
    line = case["line"]
    for i, e in enumerate(line):
        if e[0] == "arg" and e[2] is None:
            j = i + 1
            while j < len(line) and line[j][0] == "opt":
                j += 1
            if j > i + 1 and j < len(line) and line[j][0] == "file":
                out.append(i)
    return out


def reinterpret(case):
    """the command line as the CLI's syntax reads it once click has removed its own options"""
    line = [list(e) for e in case["line"]]
    changed = True
    while changed:
        changed = False
        for i, e in enumerate(line):
            if e[0] == "arg" and e[2] is None:
                j = i + 1
                while j < len(line) and line[j][0] == "opt":
                    j += 1
                if j > i + 1 and j < len(line) and line[j][0] == "file":
                    line[i] = ["arg", e[1], {"file": line[j][1]}]
                    del line[j]
                    changed = True
                    break
    return dict(case, line=line)


def mode_gram(case):
    """(grammar key used for every file | None = by pattern, ignore_case, explicit language usable)"""
    m = case["mode"]
    if m["k"] == "grammar":
        return m["gram"], bool(m.get("ic")), True
    if m["k"] == "language":
        key = {v: k for k, v in LANG.items()}.get(m["lang"].lower())
        return key, False, key is not None
    return None, False, True


def file_gram(case, f):
    g, ic, ok = mode_gram(case)
    if case["mode"]["k"] == "pattern":
        return EXT_LANG.get(f["ext"]), False
    return g, ic


class Prop(Check):
    ID = "C30"
    LEAN_MODULE = "TextxVerif.Props.C30"
    THEOREMS = ["Cli.C30_args", "Cli.C30_args_each", "Cli.C30_args_value", "Cli.C30_args_pinned_false",
                "Cli.C30_validate", "Cli.C30_validate_pinned_false", "Cli.C30_generate_reject",
                "Cli.C30_generate_faithful", "Cli.C30_generate_calls", "Cli.C30_exit", "Cli.C30_exit_located",
                "Cli.C30_check_mode", "Cli.C30_args_all_lines", "Cli.C30_validate_error", "Cli.C30_generate_stops",
                "Cli.C30_generate_reject_selected", "Cli.C30_generate_located", "Cli.C30_check",
                "Cli.C30_check_located", "Cli.C30_args_click", "Cli.C30_click_adjacent_false"]
    DRIVER = "Drivers/Cli.lean"
    PROCS_THOROUGH = 4
    QUICK_CASES = 390   # + corpus < 400: one Lean driver process
    THOROUGH_CASES = 20000
    RULE = ("command lines `textx generate|check` over 0..3 model files (valid / syntax error / unknown reference at a "
            "planted line:col / wrong language / missing / unregistered extension), metamodel chosen by pattern, "
            "--language or --grammar [-i], 0..5 custom arguments (dashed and undashed names, bare and valued, quoted "
            "values, clashes after normalisation) interleaved with click's own options, generators with undeclared, "
            "empty and non-empty declared parameter lists (mandatory / optional); non-trivial = generate with a "
            "custom argument whose name contains a dash or that is a bare flag, or a declaring generator, or check "
            "with a failing file that is not the first")
    MODELLED = ("hand-modelled: cli/generate.py argument loop, declared-parameter validation, per-file loop, no-model "
                "branch; cli/check.py loop (Cli.parseArgs/validate/runGenerate/runCheck); tie X: exit status, generator "
                "calls (file, kwargs), located error vs the model run on click's argument tuple and on load facts "
                "obtained by loading each file directly; click stage (Cli.clickStrip, canonical spelling of click's "
                "options): the tuple click hands over vs the model's stripping of the typed line; not exhibited: "
                "click's other spellings (--opt=value, bundled short options, `--`), the registry "
                "(importlib.metadata), model loading itself")
    ASSUMPTIONS = [
        "click's parsing of its own options is modelled for the canonical spelling only (separate tokens); the command "
        "body's model runs on the `arguments` tuple click produces (obtained from the real command object via "
        "make_context), which is also compared with the model's own stripping of the typed line",
        "values are passed with surrounding quote characters stripped (documented by the repo's own CLI test)",
        "a bare flag directly followed by a file name is, by the CLI's syntax, a valued argument (C30_args_all_lines: "
        "every token list has exactly one reading): such lines are generated and expected to pass the file name as the value",
    ]

    # ------------------------------------------------------------------ gen
    def gen_file_desc(self, rng, idx, kind):
        kw = rng.choice(["a", "a", "b"])
        ext = LANG[kw]
        f = {"name": f"m{idx}", "ext": ext, "kw": kw, "exists": True, "lines": []}
        nitems = rng.randint(1, 3)  # an empty file yields no model object at all (match-less Model rule)
        names = [f"n{k}" for k in range(nitems)]
        for nm in names:
            if rng.chance(0.2):
                f["lines"].append({"k": "blank", "ind": rng.below(3)})
            f["lines"].append({"k": "item", "n": nm, "ind": rng.below(4)})
        for _ in range(rng.randint(0, 2)):
            if names:
                f["lines"].append({"k": "ref", "n": rng.choice(names), "ind": rng.below(4)})
        if kind == "syntax":
            pos = rng.randint(0, len(f["lines"]))
            f["lines"].insert(pos, {"k": "junk", "n": "zz", "ind": rng.below(5)})
        elif kind == "ref":
            pos = rng.randint(0, len(f["lines"]))
            f["lines"].insert(pos, {"k": "ref", "n": "undefined_name", "ind": rng.below(5)})
        elif kind == "wronglang":
            f["ext"] = LANG["b" if kw == "a" else "a"]
            if not any(l["k"] != "blank" for l in f["lines"]):
                f["lines"].append({"k": "item", "n": "n9", "ind": rng.below(3)})
        elif kind == "unregistered":
            f["ext"] = rng.choice(["c30x", "txt", "c30"])
        elif kind == "missing":
            f["exists"] = False
        elif kind == "upper":
            f["upper"] = True
            if not any(l["k"] != "blank" for l in f["lines"]):
                f["lines"].append({"k": "item", "n": "n9", "ind": rng.below(3)})
        return f

    def gen(self, rng, n, tier):
        for i in range(n):
            r = rng.fork(f"case{i}")
            malformed = r.chance(0.12)
            cmd = r.weighted([("generate", 7), ("check", 3)])
            yield self.gen_case(r, cmd, malformed)

    def gen_case(self, r, cmd, malformed):
        mk = r.weighted([("pattern", 5), ("language", 2), ("grammar", 2)])
        if mk == "pattern":
            mode = {"k": "pattern"}
        elif mk == "language":
            mode = {"k": "language", "lang": r.choice(["c30a", "c30b", "C30A", "c30a"])}
            if malformed and r.chance(0.3):
                mode["lang"] = "c30-unregistered"
        else:
            mode = {"k": "grammar", "gram": r.choice(["a", "b"]), "ic": r.chance(0.4)}
        nfiles = r.weighted([(0, 1 if cmd == "generate" else 0), (1, 5), (2, 3), (3, 1)])
        files = []
        for k in range(nfiles):
            if malformed:
                kind = r.weighted([("ok", 3), ("missing", 2), ("unregistered", 2), ("syntax", 1), ("wronglang", 1)])
            else:
                kind = r.weighted([("ok", 12), ("syntax", 2), ("ref", 2), ("wronglang", 1),
                                   ("upper", 2 if mk == "grammar" else 0)])
            f = self.gen_file_desc(r, k, kind)
            # steer: with an explicit grammar most files are written in that grammar's keywords
            g = mode.get("gram") if mk == "grammar" else {"c30a": "a", "c30b": "b"}.get(mode.get("lang", "").lower())
            if g and kind != "wronglang" and f["kw"] != g and r.chance(0.85):
                f["kw"] = g
                if kind not in ("unregistered",):
                    f["ext"] = LANG[g] if r.chance(0.7) else f["ext"]
            files.append(f)
        line = [["file", k] for k in range(nfiles)]
        case = {"cmd": cmd, "mode": mode, "files": files}
        if cmd == "generate":
            nargs = r.weighted([(0, 2), (1, 4), (2, 4), (3, 3), (4, 2), (5, 1)])
            if nfiles == 0:
                nargs = max(nargs, 1)  # click itself requires at least one argument (usage error, exit 2)
            args = []
            for _ in range(nargs):
                name = r.choice(NAMES)
                if r.chance(0.45):
                    args.append(["arg", name, None])
                else:
                    args.append(["arg", name, r.choice(VALUES)])
            line += args
            line = r.shuffle(line)
            # declared parameters: built around the names given so that acceptance is frequent
            given = sorted({norm(a[1]) for a in args})

            def decl():
                k = r.weighted([("none", 4), ("empty", 1), ("list", 6)])
                if k == "none":
                    return None
                if k == "empty":
                    return []
                ps = []
                for g_ in given:
                    if r.chance(0.8):
                        ps.append([g_, r.chance(0.4)])
                for extra in r.sample(["extra", "must", "opt_x", "my-flag", "zz"], r.weighted([(0, 5), (1, 3), (2, 1)])):
                    if extra not in [p[0] for p in ps]:
                        ps.append([extra, r.chance(0.3)])
                return r.shuffle(ps)

            langs_needed = set()
            for f in files:
                g, _ = file_gram(case, f)
                if mode["k"] == "grammar":
                    langs_needed.add("any")
                elif mode["k"] == "language":
                    langs_needed.add(mode["lang"].lower())
                elif g:
                    langs_needed.add(LANG[g])
            if nfiles == 0:
                langs_needed.add("textx" if mode["k"] == "pattern" else
                                 (mode["lang"].lower() if mode["k"] == "language" else "any"))
            gens = []
            for l in sorted(langs_needed):
                style = r.weighted([("own", 6), ("any", 2), ("both", 2), ("none", 1 if malformed else 0)])
                if style in ("own", "both"):
                    gens.append({"lang": l, "params": decl()})
                if style in ("any", "both") and l != "any":
                    gens.append({"lang": "any", "params": decl()})
            seen, gens2 = set(), []
            for g_ in gens:
                if g_["lang"] not in seen:
                    seen.add(g_["lang"])
                    gens2.append(g_)
            case["gens"] = gens2
        # click-owned options at random places
        opts = [["opt", "target"]] if cmd == "generate" else []
        if mode["k"] == "language":
            opts.append(["opt", "language"])
        if mode["k"] == "grammar":
            opts.append(["opt", "grammar"])
            if mode.get("ic"):
                opts.append(["opt", "ic"])
        if cmd == "generate":
            if r.chance(0.4):
                opts.append(["opt", "overwrite"])
            if r.chance(0.25):
                opts.append(["opt", "output"])
        for o in opts:
            line.insert(r.randint(0, len(line)), o)
        case["line"] = line
        self.fix_line(case, r)
        return case

    def fix_line(self, case, r):
        """no bare flag directly before a file (that *is* a valued argument); a bare flag separated from a
        file only by click-owned options (known finding C30-KF1) is kept in ~6% of the cases it arises"""
        line = case["line"]
        for _ in range(20):
            moved = False
            for i, e in enumerate(line):
                if e[0] == "arg" and e[2] is None and i + 1 < len(line) and line[i + 1][0] == "file":
                    if r.chance(0.35):
                        # the same tokens, read as the CLI's syntax reads them: the file name is the value
                        line[i] = ["arg", e[1], {"file": line[i + 1][1]}]
                        del line[i + 1]
                    else:
                        line.append(line.pop(i))
                    moved = True
                    break
            if not moved:
                amb = ambiguous_flags(case)
                if amb and not r.chance(0.06):
                    line.append(line.pop(amb[0]))
                    moved = True
            if not moved:
                break
        case["line"] = line

    # ----------------------------------------------------------------- impl
    def impl(self, case):
        _setup()
        from click.testing import CliRunner
        from textx import GeneratorDesc, metamodel_for_language, metamodel_from_file, register_generator
        from textx.cli import textx as textx_cli
        from textx.exceptions import TextXError
        from textx.registration import GeneratorParam

        d = tempfile.mkdtemp(prefix="c30-")
        root = logging.getLogger()
        saved_handlers, saved_level = root.handlers[:], root.level
        cap = _Capture()
        try:
            for f in case["files"]:
                if f["exists"]:
                    with open(os.path.join(d, f"{f['name']}.{f['ext']}"), "w", encoding="utf-8") as fh:
                        fh.write(file_text(f))
            if case["mode"]["k"] == "grammar":
                with open(os.path.join(d, "G.tx"), "w") as fh:
                    fh.write(GRAMMAR[case["mode"]["gram"]])
            _state["counter"] += 1
            target = f"c30t{os.getpid()}x{_state['counter']}"
            calls = []

            def canon(s):
                return s.replace(d, "<D>") if isinstance(s, str) else s

            def make_gen(tag):
                def gen(metamodel, model, output_path, overwrite, debug, **kw):
                    mp = None
                    if model is not None and hasattr(model, "_tx_model_params"):
                        mp = sorted([k, canon(v)] for k, v in dict(model._tx_model_params).items())
                    calls.append({
                        "gen": tag,
                        "file": canon(getattr(model, "_tx_filename", None)) if model is not None else None,
                        "kwargs": sorted([k, canon(v)] for k, v in kw.items()),
                        "mp": mp,
                        "out": canon(output_path),
                        "ow": overwrite,
                    })
                return gen

            for g in case.get("gens", []):
                params = None if g["params"] is None else [GeneratorParam(p[0], "", p[1]) for p in g["params"]]
                register_generator(GeneratorDesc(g["lang"], target, "", make_gen(g["lang"]), params))

            argv = render(case, d, target)

            # what click hands to the command body (the model's input)
            click_args = None
            try:
                cmd = textx_cli.commands[case["cmd"]]
                ctx = cmd.make_context(case["cmd"], list(argv[1:]))
                key = "arguments" if case["cmd"] == "generate" else "model_files"
                click_args = [canon(a) for a in ctx.params[key]]
            except Exception as e:
                click_args = {"click": type(e).__name__}

            # load facts, obtained without the CLI
            facts = {}
            for f in case["files"]:
                tok = f"<D>/{f['name']}.{f['ext']}"
                path = tok.replace("<D>", d)
                if not f["exists"]:
                    facts[tok] = "nofile"
                    continue
                gram, ic = file_gram(case, f)
                if gram is None:
                    facts[tok] = "nolang"
                    continue
                try:
                    if case["mode"]["k"] == "grammar":
                        mm = metamodel_from_file(os.path.join(d, "G.tx"), ignore_case=ic)
                    else:
                        mm = metamodel_for_language(LANG[gram])
                    mm.model_from_file(path)
                    facts[tok] = "ok"
                except TextXError as e:
                    facts[tok] = ["err", e.line or 0, e.col or 0, canon(str(e.filename))]
                except Exception as e:
                    facts[tok] = "exc:" + type(e).__name__

            root.handlers[:] = [cap]
            root.setLevel(logging.INFO)
            res = CliRunner().invoke(textx_cli, argv)
            exc = None
            if res.exception is not None and not isinstance(res.exception, SystemExit):
                exc = type(res.exception).__name__
            return {
                "exit": res.exit_code,
                "exc": exc,
                "calls": calls,
                "log": [[lvl, canon(msg)[:300]] for lvl, msg in cap.recs if lvl != "INFO" or msg.endswith(": OK.")],
                "click": click_args,
                "argv": [canon(a) for a in argv[1:]],
                "facts": facts,
                "out": canon(res.output)[:200],
            }
        finally:
            root.handlers[:] = saved_handlers
            root.setLevel(saved_level)
            shutil.rmtree(d, ignore_errors=True)

    # ---------------------------------------------------------------- model
    def model_req(self, case, obs):
        if not isinstance(obs.get("click"), list):
            return None
        g, ic, lang_ok = mode_gram(case)
        m = case["mode"]
        if m["k"] == "pattern":
            mode = {"k": "pattern"}
        elif m["k"] == "grammar":
            mode = {"k": "grammar"}
        else:
            mode = {"k": "language", "lang": m["lang"].lower(), "registered": lang_ok}
        files = []
        for f in case["files"]:
            tok = f"<D>/{f['name']}.{f['ext']}"
            fact = obs["facts"].get(tok)
            lang = EXT_LANG.get(f["ext"])
            if fact == "ok":
                res = "ok"
            elif fact == "nofile":
                res = "nofile"
            elif isinstance(fact, list):
                res = ["err", fact[1], fact[2]]
            elif fact == "nolang":
                res = "ok"  # never loaded: the language lookup fails first
            else:
                return None
            files.append([tok, {"lang": LANG[lang] if lang else None, "res": res}])
        req = {"mode": mode, "files": files,
               "gens": [[g_["lang"].lower(), g_["params"]] for g_ in case.get("gens", [])]}
        if case["cmd"] == "generate":
            req.update(op="generate", args=obs["click"])
        else:
            req.update(op="check", order=obs["click"])
        if "argv" in obs:
            req["argv"] = obs["argv"]     # the click stage: the model strips click's own options itself
        return req

    @staticmethod
    def located(obs):
        out = []
        for lvl, msg in obs["log"]:
            m = re.match(r"ERROR: (.*?):(\d+):(\d+): ", msg, flags=re.S)
            if lvl == "ERROR" and m:
                out.append([m.group(1), int(m.group(2)), int(m.group(3))])
        return out

    @staticmethod
    def oks(obs):
        return [msg[: -len(": OK.")] for lvl, msg in obs["log"] if lvl == "INFO" and msg.endswith(": OK.")]

    def compare(self, case, obs, out):
        if "err" in out:
            return f"model rejected the request: {out}"
        if "click" in out and out["click"] != obs["click"]:
            return f"argument tuple handed over by click: implementation {obs['click']}, model {out['click']}"
        if out["exit"] != obs["exit"]:
            return f"exit status: implementation {obs['exit']}, model {out['exit']}"
        errors = [m for lvl, m in obs["log"] if lvl == "ERROR"]
        if case["cmd"] == "generate":
            mine = [[c["file"], c["kwargs"]] for c in obs["calls"]]
            theirs = [[c["file"], sorted(c["kwargs"])] for c in out["calls"]]
            if mine != theirs:
                return f"generator calls: implementation {mine}, model {theirs}"
            fail = out["fail"]
        else:
            mine = self.oks(obs)
            theirs = [m[1] for m in out["msgs"] if m[0] == "ok"]
            if mine != theirs:
                return f"files reported OK: implementation {mine}, model {theirs}"
            fails = [m[1] for m in out["msgs"] if m[0] == "error"]
            fail = fails[0] if fails else ("exception" if out["exit"] == 1 else None)
        if fail is None:
            if errors or obs["exc"]:
                return f"model: success; implementation logged {errors} / raised {obs['exc']}"
        elif fail == "exception":
            if not obs["exc"]:
                return "model: a non-textX exception escapes; implementation raised none"
        else:
            if obs["exc"]:
                return f"model: textX error reported with exit 1; implementation raised {obs['exc']}"
            if not errors:
                return "model: an ERROR message is logged; implementation logged none"
            if isinstance(fail, list) and fail[0] == "located":
                if [fail[1], fail[2], fail[3]] not in self.located(obs):
                    return f"model: error located at {fail[1:]}; implementation logged {errors}"
        return None

    # --------------------------------------------------------------- oracle
    def file_status(self, case, f):
        """('ok' | 'nofile' | 'nolang' | ['err', line, col]) decided from how the case was built"""
        if not f["exists"]:
            return "nofile"
        gram, ic = file_gram(case, f)
        if gram is None:
            return "nolang"
        e = planted_error(f, gram, ic)
        return "ok" if e is None else ["err"] + e

    def applicable_gen(self, case, f):
        """the generator description that must be used for file f (None = model-less run), or None"""
        gens = {g["lang"].lower(): g for g in case.get("gens", [])}
        m = case["mode"]
        if m["k"] == "grammar":
            return gens.get("any")
        if m["k"] == "language":
            return gens.get(m["lang"].lower())
        lang = "textx" if f is None else LANG[EXT_LANG[f["ext"]]]
        return gens.get(lang) or gens.get("any")

    @staticmethod
    def accepts(gen, kwargs):
        if gen["params"] is None:
            return True
        names = {p[0] for p in gen["params"]}
        if any(p[1] and p[0] not in kwargs for p in gen["params"]):
            return False
        return all(k in names for k in kwargs)

    def oracle(self, case, obs):
        return self._oracle(case, obs)

    def _oracle(self, case, obs):
        if obs["exit"] not in (0, 1):
            return f"exit status {obs['exit']} (click: {obs['click']}, output {obs['out']!r})"
        _, _, lang_ok = mode_gram(case)
        files = [case["files"][i] for i in line_files(case)]
        status = [self.file_status(case, f) for f in files]
        toks = [f"<D>/{f['name']}.{f['ext']}" for f in files]
        # the generator of the facts and the real loader must agree on where the planted errors are
        for f, st, tok in zip(files, status, toks):
            fact = obs["facts"].get(tok)
            if fact == "nolang" or st == "nolang":
                continue
            if isinstance(st, list):
                if not (isinstance(fact, list) and fact[1:3] == st[1:3]):
                    return f"file {tok}: error planted at {st[1:]} but loading it directly gives {fact}"
            elif fact != st:
                return f"file {tok}: expected to be {st} but loading it directly gives {fact}"
        errors = [m for lvl, m in obs["log"] if lvl == "ERROR"]
        all_ok = lang_ok and all(s == "ok" for s in status)
        if case["cmd"] == "check":
            if all_ok:
                if obs["exit"] != 0:
                    return f"every model loads but textx check exits {obs['exit']} ({errors} {obs['exc']})"
                if self.oks(obs) != toks:
                    return f"every model loads; OK reported for {self.oks(obs)}, expected {toks}"
                return None
            if obs["exit"] != 1:
                return f"a model does not load ({status}, language usable: {lang_ok}) but textx check exits {obs['exit']}"
            for tok in self.oks(obs):
                if tok not in [t for t, s in zip(toks, status) if s == "ok"]:
                    return f"OK reported for {tok} which does not load"
            if not lang_ok:
                return None if errors else "unregistered --language: exit 1 without an error message"
            if obs["exc"]:
                # only a missing file may escape as a non-textX exception (outside "existing model files")
                return None if "nofile" in status else f"exception {obs['exc']} escapes although every file exists"
            loc = self.located(obs)
            for tok, st in zip(toks, status):
                if isinstance(st, list) and [tok, st[1], st[2]] in loc:
                    return None
                if st == "nolang" and any(tok in e for e in errors):
                    return None
            return f"exit 1 but no error message locates a failing file at its error position: {errors}; expected one of {list(zip(toks, status))}"
        # ---- generate
        want = expected_kwargs(case)
        want_list = sorted([k, v] for k, v in want.items())
        # (1) every call that is made carries exactly the arguments of the command line
        prev = -1
        for c in obs["calls"]:
            if c["kwargs"] != want_list:
                return f"generator received {c['kwargs']}, the command line says {want_list}"
            if c["file"] is not None:
                if c["file"] not in toks:
                    return f"generator called for {c['file']} which is not on the command line"
                if toks.index(c["file"]) <= prev and toks.count(c["file"]) == 1:
                    return f"generator calls out of order: {[x['file'] for x in obs['calls']]}"
                prev = toks.index(c["file"])
                f = files[toks.index(c["file"])]
                gram, _ = file_gram(case, f)
                # a metamodel built from --grammar only knows the default parameter
                declared = ["project_root"] if case["mode"]["k"] == "grammar" else MODEL_PARAMS.get(gram, [])
                mp_want = sorted([k, v] for k, v in want.items() if k in declared)
                if c["mp"] is not None and c["mp"] != mp_want:
                    return f"model parameters {c['mp']}, expected {mp_want}"
            if c["ow"] != any(e == ["opt", "overwrite"] for e in case["line"]):
                return f"overwrite flag passed as {c['ow']}"
            if (c["out"] is not None) != any(e == ["opt", "output"] for e in case["line"]):
                return f"output path passed as {c['out']}"
        if not lang_ok:
            if obs["exit"] != 1 or obs["calls"]:
                return "unregistered --language: expected exit 1 and no generator call"
            return None
        if not files:
            if not want:
                return None if obs["exit"] == 1 and not obs["calls"] else "no model and no arguments: expected exit 1"
            if case["mode"]["k"] == "grammar":
                return None if obs["exit"] == 1 else "no model with --grammar: language 'any' is not registered, expected exit 1"
            g = self.applicable_gen(case, None)
            if g is None:
                return None if obs["exit"] == 1 and not obs["calls"] else "no generator registered: expected exit 1, no call"
            if self.accepts(g, want):
                if obs["exit"] != 0 or [c["file"] for c in obs["calls"]] != [None]:
                    return f"model-less run should call the generator once and exit 0: exit {obs['exit']}, calls {obs['calls']}, {errors}"
                return None
            if obs["exit"] != 1 or obs["calls"]:
                return f"arguments {sorted(want)} do not fit the declared parameters {g['params']}: expected exit 1 and no call, got exit {obs['exit']}, calls {len(obs['calls'])}"
            return None
        # with model files: walk them in order
        expect_calls = []
        failed = None
        for f, st, tok in zip(files, status, toks):
            if st != "ok":
                failed = ("load", tok, st)
                break
            g = self.applicable_gen(case, f)
            if g is None:
                failed = ("nogen", tok, None)
                break
            if not self.accepts(g, want):
                failed = ("args", tok, g["params"])
                break
            expect_calls.append([tok, g["lang"]])
        got_calls = [[c["file"], c["gen"]] for c in obs["calls"]]
        if failed is None:
            if obs["exit"] != 0:
                return f"every model loads and the arguments fit, but exit {obs['exit']}: {errors} {obs['exc']}"
            if got_calls != expect_calls:
                return f"generator calls {got_calls}, expected {expect_calls}"
            return None
        if obs["exit"] != 1:
            return f"{failed[0]} problem at {failed[1]} ({failed[2]}) but exit {obs['exit']}"
        if failed[0] == "args" and obs["calls"] and not expect_calls:
            return f"arguments rejected ({failed[2]}) but the generator was called: {got_calls}"
        if got_calls != expect_calls:
            return f"generator calls {got_calls} before the failure, expected {expect_calls}"
        if failed[0] == "load" and isinstance(failed[2], list):
            if obs["exc"]:
                return f"exception {obs['exc']} escapes instead of a located error"
            if [failed[1], failed[2][1], failed[2][2]] not in self.located(obs):
                return f"model error not located at {failed[1]}:{failed[2][1]}:{failed[2][2]}: {errors}"
        if failed[0] in ("args", "nogen") and (obs["exc"] or not errors):
            return f"{failed[0]} problem must be reported as an error message with exit 1: {errors} {obs['exc']}"
        return None

    # ------------------------------------------------------------- the rest
    def classify(self, case, obs, failure):
        if case["cmd"] == "generate" and ambiguous_flags(case):
            try:
                if self._oracle(reinterpret(case), obs) is None:
                    return "C30-KF1"
            except Exception:
                return None
        return None

    def nontrivial(self, case, obs):
        if case["cmd"] == "generate":
            dashed = any(e[0] == "arg" and ("-" in e[1] or e[2] is None) for e in case["line"])
            declaring = any(g["params"] is not None for g in case.get("gens", []))
            return dashed or declaring
        files = [case["files"][i] for i in line_files(case)]
        st = [self.file_status(case, f) for f in files]
        return any(s != "ok" for s in st[1:]) or len(files) > 1

    def shrink(self, case):
        line = case["line"]
        for i, e in enumerate(line):
            if e[0] in ("arg", "file") or (e[0] == "opt" and e[1] in ("overwrite", "output")):
                c = dict(case, line=line[:i] + line[i + 1:])
                if not any(x[0] in ("arg", "file") for x in c["line"]):
                    continue
                if not any(x[0] == "arg" and x[2] is None and j + 1 < len(c["line"]) and c["line"][j + 1][0] == "file"
                           for j, x in enumerate(c["line"])):
                    yield c
        for i, g in enumerate(case.get("gens", [])):
            if g["params"]:
                for j in range(len(g["params"])):
                    g2 = dict(g, params=g["params"][:j] + g["params"][j + 1:])
                    yield dict(case, gens=case["gens"][:i] + [g2] + case["gens"][i + 1:])
        for i, f in enumerate(case["files"]):
            if len(f["lines"]) > 1:
                for j in range(len(f["lines"])):
                    f2 = dict(f, lines=f["lines"][:j] + f["lines"][j + 1:])
                    yield dict(case, files=case["files"][:i] + [f2] + case["files"][i + 1:])

    def sample_view(self, case, obs):
        return {"argv": render(case, "<D>", "<T>"), "mode": case["mode"], "gens": case.get("gens"),
                "impl": {k: obs.get(k) for k in ("exit", "exc", "calls", "log")} if isinstance(obs, dict) else obs}

    def extra_search(self, rng, tier, broken):
        return list(self.gen(rng, 1500, tier))

    def extra_evidence(self, cases, obs, model_outs):
        dist = {"generate": 0, "check": 0, "exit0": 0, "exit1": 0, "with_calls": 0, "rejected_args": 0,
                "located_errors": 0, "bare_flags": 0, "dashed_names": 0, "declaring_gens": 0, "ambiguous_KF1": 0}
        for c, o in zip(cases, obs):
            if not isinstance(o, dict) or "exit" not in o:
                continue
            dist[c["cmd"]] += 1
            dist["exit0" if o["exit"] == 0 else "exit1"] += 1
            dist["with_calls"] += bool(o["calls"])
            dist["located_errors"] += bool(self.located(o))
            dist["rejected_args"] += any("Parameter '" in m for l, m in o["log"])
            dist["bare_flags"] += any(e[0] == "arg" and e[2] is None for e in c["line"])
            dist["dashed_names"] += any(e[0] == "arg" and "-" in e[1] for e in c["line"])
            dist["declaring_gens"] += any(g["params"] is not None for g in c.get("gens", []))
            dist["ambiguous_KF1"] += bool(c["cmd"] == "generate" and ambiguous_flags(c))
        return {"distribution": dist}
