"""C10 — the FQN scope provider resolves only genuine qualified names.

Implementation side: a package / class language (nested named packages, classes
with members, unnamed groups, a single-valued and several list containment
attributes, two attribute orders) whose references all use
`textx.scoping.providers.FQN` (registered for "*.*"): `friend=[Class:FQN]`
(single, made by the class itself), `likes+=[Target:FQN]` (list) and `ref`
statements with Package / Class / Member / abstract Target targets.  A generated
tree with names from a small pool (repeated at different depths), in-text
references (valid qualified names, spurious ones that would need a step through
`parent` or through a non-containment reference, unknown names) is loaded with
`model_from_str`; observed: the target of every reference as object identity
(pre-order number) or the "Unknown object" error and the reference it points at.
After a successful load the provider is called directly for ~30 further
(referencing object, dotted name, target class) triples over the names present
(walks over containment, parent and reference edges, random and malformed names).

Lean side: `Link.fqn` (Drivers/Link.lean, op resolve_fqn) on the same tree.
"""
from harness.core import Check, use_repo

POOL = ["a", "b", "c", "p", "q"]
KNUM = {"package": 0, "class": 1, "member": 2, "group": 3, "ref": 4, "model": 5}
TNUM = {"Package": 0, "Class": 1, "Member": 2, "Target": 10}
CONF = {"Package": {"package"}, "Class": {"class"}, "Member": {"member"}, "Target": {"package", "class", "member"}}
REFKW = {"Target": "ref", "Class": "cref", "Package": "pref", "Member": "mref"}
REFRULE = {"Target": "RefT", "Class": "RefC", "Package": "RefP", "Member": "RefM"}
ORDERS = [["packages", "classes", "groups", "refs"], ["classes", "groups", "packages", "refs"]]
RULE_OF = {"packages": "Package", "classes": "Class", "groups": "Group", "refs": "Ref"}
_MM = {}


def grammar_of(variant, gopt=False):
    """gopt: groups have an optional name (`group named g { … }`); an unnamed group then has the name value ''
    (textX initialises an unmatched optional `name=ID` with ''), so the empty parts of `a..b` / `.a` match it"""
    order = ORDERS[variant]
    body = " | ".join(f"{a}+={RULE_OF[a]}" for a in order)
    gbody = " | ".join(f"{a}+={RULE_OF[a]}" for a in order if a != "groups")
    return f"""
Model: ({body})*;
Package: 'package' name=ID '{{' ({body})* '}}';
Group: 'group' {"('named' name=ID)? " if gopt else ""}'{{' ({gbody})* '}}';
Class: 'class' name=ID ('friend' friend=[Class:FQN])? ('likes' likes+=[Target:FQN][','])?
       ('{{' ('main' main=Member)? members*=Member refs*=Ref '}}')?;
Member: 'member' name=ID;
Ref: RefT | RefC | RefP | RefM;
RefT: 'ref' target=[Target:FQN];
RefC: 'cref' target=[Class:FQN];
RefP: 'pref' target=[Package:FQN];
RefM: 'mref' target=[Member:FQN];
Target: Package | Class | Member;
FQN: ID('.'ID)*;
"""


# ---------------------------------------------------------------------------
# tree: numbering (containment pre-order in attribute order = textual order)
# ---------------------------------------------------------------------------
def build(case):
    """objs[i] = dict(id, k, name, parent, kids (ids, attribute order), node); refs in textual order."""
    order = ORDERS[case["variant"]]
    objs, refs = [], []

    def add(k, name, parent, node):
        o = {"id": len(objs), "k": k, "name": name, "parent": parent, "kids": [], "node": node}
        objs.append(o)
        if parent is not None:
            objs[parent]["kids"].append(o["id"])
        return o

    gopt = bool(case.get("gopt"))

    def container(node, k, parent):
        nm = node.get("name")
        if k == "group" and gopt and nm is None:
            nm = ""  # the value of the unmatched optional name attribute
        o = add(k, nm, parent, node)
        for a in order:
            if k == "group" and a == "groups":
                continue
            for ch in node.get(a, []):
                go(ch, o["id"])
        return o

    def go(node, parent):
        k = node["k"]
        if k in ("package", "group"):
            container(node, k, parent)
        elif k == "class":
            o = add("class", node["name"], parent, node)
            if node.get("friend") is not None:
                refs.append({"owner": o["id"], "attr": "friend", "name": node["friend"], "t": "Class"})
            for nm in node.get("likes", []):
                refs.append({"owner": o["id"], "attr": "likes", "name": nm, "t": "Target"})
            if node.get("main") is not None:
                add("member", node["main"], o["id"], None)
            for m in node.get("members", []):
                add("member", m, o["id"], None)
            for r in node.get("refs", []):
                go(r, o["id"])
        elif k == "ref":
            o = add("ref", None, parent, node)
            refs.append({"owner": o["id"], "attr": "target", "name": node["name"], "t": node["t"]})

    container(dict(case["tree"], k="model"), "model", None)
    return objs, refs


def has_body(node):
    return node.get("main") is not None or node.get("members") or node.get("refs")


def render(case):
    order = ORDERS[case["variant"]]
    out, pos = [], []
    st = {"line": 1, "col": 1}

    def emit(tok):
        out.append(tok + " ")
        st["col"] += len(tok) + 1

    def nl():
        out.append("\n")
        st["line"] += 1
        st["col"] = 1

    def refname(nm):
        pos.append([st["line"], st["col"]])
        emit(nm)

    def body(node, k):
        for a in order:
            if k == "group" and a == "groups":
                continue
            for ch in node.get(a, []):
                go(ch)

    def go(node):
        k = node["k"]
        if k == "package":
            emit("package")
            emit(node["name"])
            emit("{")
            nl()
            body(node, k)
            emit("}")
            nl()
        elif k == "group":
            emit("group")
            if node.get("name") is not None:
                emit("named")
                emit(node["name"])
            emit("{")
            body(node, k)
            emit("}")
            nl()
        elif k == "class":
            emit("class")
            emit(node["name"])
            if node.get("friend") is not None:
                emit("friend")
                refname(node["friend"])
            if node.get("likes"):
                emit("likes")
                for j, nm in enumerate(node["likes"]):
                    if j:
                        emit(",")
                    refname(nm)
            if has_body(node):
                emit("{")
                if node.get("main") is not None:
                    emit("main")
                    emit("member")
                    emit(node["main"])
                for m in node.get("members", []):
                    emit("member")
                    emit(m)
                for r in node.get("refs", []):
                    go(r)
                emit("}")
            nl()
        else:
            emit(REFKW[node["t"]])
            refname(node["name"])
            nl()

    body(case["tree"], "model")
    return "".join(out), pos


def lean_obj(case):
    objs, refs = build(case)
    order = ORDERS[case["variant"]]
    # the reference attributes hold the identities of their targets (the state after loading, as far as the
    # statement determines it): the model must not follow them (C10_no_ref / C10_heap_frame)
    held = {}
    for r in refs:
        tgt = spec_fqn(objs, r["owner"], r["name"], r["t"])
        if tgt is not None:
            held.setdefault((r["owner"], r["attr"]), []).append(tgt)

    def go(i):
        o = objs[i]
        k = o["k"]
        kids = [objs[j] for j in o["kids"]]
        if k in ("model", "package", "group"):
            attrs = [{"p": 0}] if k == "package" or (k == "group" and case.get("gopt")) else []
            for a in order:
                if k == "group" and a == "groups":
                    continue
                want = {"packages": "package", "classes": "class", "groups": "group", "refs": "ref"}[a]
                attrs.append({"c": [go(x["id"]) for x in kids if x["k"] == want]})
        elif k == "class":
            node = o["node"]
            mem = [x for x in kids if x["k"] == "member"]
            nmain = 1 if node.get("main") is not None else 0
            attrs = [{"p": 0}, {"r": held.get((i, "friend"), [])}, {"r": held.get((i, "likes"), [])},
                     {"c": [go(x["id"]) for x in mem[:nmain]]},
                     {"c": [go(x["id"]) for x in mem[nmain:]]},
                     {"c": [go(x["id"]) for x in kids if x["k"] == "ref"]}]
        elif k == "member":
            attrs = [{"p": 0}]
        else:
            attrs = [{"r": held.get((i, "target"), [])}]
        return {"id": i, "cls": KNUM[k], "name": o["name"], "attrs": attrs}

    return go(0)


# ---------------------------------------------------------------------------
# the statement, decided directly
# ---------------------------------------------------------------------------
def siblings_unique(objs):
    for o in objs:
        names = [objs[j]["name"] for j in o["kids"] if objs[j]["name"] is not None]
        if len(names) != len(set(names)):
            return False
    return True


def chain_end(objs, p, parts):
    """the object ending the containment chain matching parts from p (sibling names unique), or None"""
    cur = p
    for n in parts:
        nxt = [j for j in objs[cur]["kids"] if objs[j]["name"] == n]
        if not nxt:
            return None
        cur = nxt[0]
    return cur


def spec_fqn(objs, cur, dotted, t):
    parts = dotted.split(".")  # an empty part matches an object whose name value is '' (unnamed group, gopt) only
    p = cur
    while p is not None:
        e = chain_end(objs, p, parts)
        if e is not None and objs[e]["k"] in CONF[t]:
            return e
        p = objs[p]["parent"]
    return None


class Prop(Check):
    ID = "C10"
    LEAN_MODULE = "TextxVerif.Props.C10"
    THEOREMS = [
        "Link.C10_ancestors",
        "Link.C10_from",
        "Link.C10_iff",
        "Link.C10_unknown_iff",
        "Link.C10_no_parent",
        "Link.C10_no_ref",
        "Link.C10_pinned_false",
        "Link.C10_path_complete",
        "Link.C10_path_defined_iff",
        "Link.C10_iff'",
        "Link.C10_iff_desc",
        "Link.C10_unknown_iff'",
        "Link.C10_no_ref'",
        "Link.C10_split_spec",
        "Link.C10_split_unique",
        "Link.C10_text_iff",
        "Link.C10_empty_part",
        "Link.C10_heap_frame",
    ]
    DRIVER = "Drivers/Link.lean"
    QUICK_CASES = 450
    THOROUGH_CASES = 30000
    RULE = ("trees of nested named packages, classes with members, unnamed groups (3..16 objects, names from a pool of "
            "3..5 so that names repeat at different depths; ~12% with duplicate sibling names, checked against the model "
            "only) with friend / likes / ref references between them x in-text dotted names (valid, spurious through "
            "parent or reference edges, unknown) x ~30 direct provider calls per loaded model (walks of <=4 steps over "
            "containment / parent / reference edges from the referencing object's ancestors, random and malformed "
            "names, all target classes); 35% of the cases give groups an optional name, an unnamed group then has "
            "the name value '' and names with empty parts (a..b, .a) walk through it; non-trivial = the case has a spurious candidate: a dotted name that would "
            "resolve if `parent` or reference attributes were followed but that matches no containment chain of the "
            "target type (cases needing the outward search with shadowing / multi-part chains are counted separately)")
    MODELLED = ("hand-modelled: scoping/providers.py FQN.__call__ (_find_referenced_obj, _find_obj_fqn, find_obj after "
                "the repair: containment attributes only) as Link.fqn/findReferenced/findObjFqn/walk/findObj, parent "
                "links as Link.pathTo, fqn_name.split('.') as Link.splitDots; the model tree carries the identities held by "
                "the reference attributes; tie X: target identity per reference / Unknown object + offending reference, "
                "direct provider calls; not exhibited: scope_redirection_logic, Postponed results, multi-model "
                "variants (FQNImportURI), user classes overriding __bool__/__eq__")
    ASSUMPTIONS = [
        "sibling names are unique (hypothesis of the property; the model also mirrors the first-match behaviour without it)",
        "each model object is contained once; `parent` is the container",
    ]

    # ------------------------------------------------------------------ gen
    def gen_case(self, rng):
        pool = POOL[: rng.randint(3, 5)]
        dup_ok = rng.chance(0.12)
        gopt = rng.chance(0.35)  # groups with an optional name: unnamed ones carry the name value ''
        budget = [rng.randint(3, 14)]

        def fresh(used):
            if dup_ok:
                return rng.choice(pool)
            free = [n for n in pool if n not in used]
            return rng.choice(free) if free else None

        def mk_class(used):
            nm = fresh(used)
            if nm is None:
                return None
            used.add(nm)
            node = {"k": "class", "name": nm, "members": [], "refs": []}
            mu = set()
            if rng.chance(0.25):
                m = fresh(mu)
                if m:
                    mu.add(m)
                    node["main"] = m
            for _ in range(rng.weighted([(0, 4), (1, 3), (2, 2)])):
                m = fresh(mu)
                if m:
                    mu.add(m)
                    node["members"].append(m)
            return node

        def mk_container(k, depth, used_outer):
            node = {"k": k, "packages": [], "classes": [], "groups": [], "refs": []}
            if k == "package":
                nm = fresh(used_outer)
                if nm is None:
                    return None
                used_outer.add(nm)
                node["name"] = nm
            used = set()
            while budget[0] > 0 and rng.chance(0.72 if depth < 3 else 0.3):
                budget[0] -= 1
                kind = rng.weighted([("package", 4 if depth < 3 else 0), ("class", 5), ("group", 1 if (k != "group" and depth < 3) else 0)])
                if kind == "class":
                    c = mk_class(used)
                    if c:
                        node["classes"].append(c)
                elif kind == "package":
                    c = mk_container("package", depth + 1, used)
                    if c:
                        node["packages"].append(c)
                else:
                    g = mk_container("group", depth + 1, set())
                    if gopt and rng.chance(0.4):
                        nm = fresh(used)
                        if nm is not None:
                            used.add(nm)
                            g["name"] = nm
                    elif gopt and not dup_ok and "" in used:
                        continue  # a second unnamed group here would break sibling-name uniqueness ('' twice)
                    elif gopt:
                        used.add("")
                    node["groups"].append(g)
            return node

        tree = mk_container("model", 0, set())
        if not (tree["packages"] or tree["classes"]):
            tree["packages"].append({"k": "package", "name": rng.choice(pool), "packages": [], "groups": [], "refs": [],
                                     "classes": [{"k": "class", "name": rng.choice(pool), "members": [], "refs": []}]})
        case = {"variant": rng.below(2), "user": rng.chance(0.2), "tree": tree, "probes": [], "gopt": gopt}
        objs, _ = build(case)
        named = [o for o in objs if o["name"] is not None]
        fail_case = rng.chance(0.35)

        def ancestors(i):
            out = []
            while i is not None:
                out.append(i)
                i = objs[i]["parent"]
            return out

        def valid_name(cur, want_kinds, in_text=True):
            """a dotted name that designates some object of a wanted kind, seen from cur (in the model text a name
            must match `FQN: ID('.'ID)*`: no empty parts there)"""
            cands = []
            for a in ancestors(cur):
                stack = [(j, [objs[j]["name"]]) for j in objs[a]["kids"] if objs[j]["name"] is not None]
                while stack:
                    j, path = stack.pop()
                    if objs[j]["k"] in want_kinds and len(path) <= 4:
                        cands.append(".".join(path))
                    for c in objs[j]["kids"]:
                        if objs[c]["name"] is not None:
                            stack.append((c, path + [objs[c]["name"]]))
            if in_text:
                cands = [c for c in cands if "" not in c.split(".")]
            return rng.choice(sorted(set(cands))) if cands else None

        friend_of = {}

        def edge_walk(cur, steps, in_text=True):
            """dotted name by a walk over child / parent / reference edges (spurious unless all steps are child steps)"""
            x = rng.choice(ancestors(cur))
            names = []
            for _ in range(steps):
                opts = [("child", j) for j in objs[x]["kids"] if objs[j]["name"] is not None]
                par = objs[x]["parent"]
                if par is not None and objs[par]["name"] is not None:
                    opts += [("parent", par)] * 2
                opts += [("ref", j) for j in friend_of.get(x, [])] * 2
                if in_text:
                    opts = [o for o in opts if objs[o[1]]["name"] != ""]
                if not opts:
                    break
                _, y = rng.choice(opts)
                names.append(objs[y]["name"])
                x = y
            return ".".join(names) if names else rng.choice(pool)

        def pick_name(cur, t, allow_fail):
            if allow_fail and fail_case and rng.chance(0.3):
                return edge_walk(cur, rng.randint(2, 4)) if rng.chance(0.7) else rng.choice(pool) + "." + rng.choice(pool)
            return valid_name(cur, CONF[t])

        # friend / likes on classes (first pass: valid names only, so that reference edges are known)
        classes = [o for o in objs if o["k"] == "class"]
        for o in classes:
            if rng.chance(0.45):
                nm = valid_name(o["id"], CONF["Class"])
                if nm:
                    o["node"]["friend"] = nm
                    tgt = spec_fqn(objs, o["id"], nm, "Class")
                    if tgt is not None:
                        friend_of.setdefault(o["id"], []).append(tgt)
            if rng.chance(0.3):
                likes = []
                for _ in range(rng.randint(1, 3)):
                    nm = valid_name(o["id"], CONF["Target"])
                    if nm:
                        likes.append(nm)
                        tgt = spec_fqn(objs, o["id"], nm, "Target")
                        if tgt is not None:
                            friend_of.setdefault(o["id"], []).append(tgt)
                if likes:
                    o["node"]["likes"] = likes
        # ref statements
        holders = [o for o in objs if o["k"] in ("model", "package", "group", "class")]
        newrefs = []
        for _ in range(rng.randint(1, 4)):
            h = rng.choice(holders)
            t = rng.choice(["Target", "Target", "Class", "Package", "Member"])
            nm = pick_name(h["id"], t, True)
            if nm is None:
                t = "Target"
                nm = pick_name(h["id"], t, True) or rng.choice(pool)
            newrefs.append((h, {"k": "ref", "t": t, "name": nm}))
        # a failing friend now and then
        if fail_case and classes and rng.chance(0.3):
            o = rng.choice(classes)
            o["node"]["friend"] = edge_walk(o["id"], rng.randint(2, 3))
        for h, r in newrefs:
            (case["tree"] if h["k"] == "model" else h["node"])["refs"].append(r)
        # direct provider calls (numbering of the final tree)
        objs, refs = build(case)
        friend_of = {}
        for r in refs:
            tgt = spec_fqn(objs, r["owner"], r["name"], r["t"])
            if tgt is not None and r["attr"] != "target":
                friend_of.setdefault(r["owner"], []).append(tgt)
        probes = []
        for _ in range(rng.randint(20, 32)):
            cur = rng.below(len(objs))
            style = rng.weighted([("walk", 6), ("valid", 2), ("random", 2), ("malformed", 1)])
            if style == "walk":
                nm = edge_walk(cur, rng.randint(1, 4), in_text=False)
            elif style == "valid":
                nm = valid_name(cur, CONF["Target"], in_text=False) or rng.choice(pool)
            elif style == "random":
                nm = ".".join(rng.choice(pool) for _ in range(rng.randint(1, 3)))
            else:
                nm = rng.choice(["", ".", "a.", ".a", "a..b", "p. a", " p"])
            probes.append([cur, nm, rng.choice(["Target", "Target", "Class", "Package", "Member"])])
        case["probes"] = probes
        return case

    def gen(self, rng, n, tier):
        for _ in range(n):
            yield self.gen_case(rng)

    # ----------------------------------------------------------------- impl
    def impl(self, case):
        use_repo()
        from textx import metamodel_from_str
        from textx.exceptions import TextXError, TextXSemanticError
        from textx.model import ObjCrossRef
        from textx.scoping.providers import FQN

        text, pos = render(case)
        objs, refs = build(case)
        try:
            if case.get("user"):
                def mkcls(nm):
                    def __init__(self, **kw):
                        for k, v in kw.items():
                            setattr(self, k, v)
                    return type(nm, (object,), {"__init__": __init__})

                mm = metamodel_from_str(grammar_of(case["variant"], case.get("gopt", False)),
                                        classes=[mkcls("Package"), mkcls("Class")])
                mm.register_scope_providers({"*.*": FQN()})
            else:
                # generated classes only: the metamodel is reused by the cases of one worker process
                key = (case["variant"], bool(case.get("gopt")))
                mm = _MM.get(key)
                if mm is None:
                    mm = metamodel_from_str(grammar_of(*key))
                    mm.register_scope_providers({"*.*": FQN()})
                    _MM[key] = mm
        except Exception as e:
            return {"outcome": "grammar-error", "type": type(e).__name__, "msg": str(e)[:300]}
        try:
            model = mm.model_from_str(text)
        except TextXSemanticError as e:
            kind = "unknown" if e.err_type == "Unknown object" else "other-semantic"
            idx = pos.index([e.line, e.col]) if [e.line, e.col] in pos else -1
            return {"outcome": "error", "kind": kind, "idx": idx, "line": e.line, "col": e.col, "msg": str(e)[:200]}
        except TextXError as e:
            return {"outcome": "error", "kind": "other:" + type(e).__name__, "idx": -1, "msg": str(e)[:200]}
        except Exception as e:
            return {"outcome": "error", "kind": "other:" + type(e).__name__, "idx": -1, "msg": str(e)[:200]}

        order = []

        def walk(o):
            order.append(o)
            for an, a in type(o)._tx_attrs.items():
                if a.cont:
                    v = getattr(o, an)
                    for x in (v if isinstance(v, list) else ([] if v is None else [v])):
                        if hasattr(type(x), "_tx_attrs"):
                            walk(x)

        walk(model)
        shape = [(type(o).__name__, getattr(o, "name", None)) for o in order]
        cname = {"model": "Model", "package": "Package", "class": "Class", "member": "Member", "group": "Group"}
        want = [(cname[o["k"]] if o["k"] != "ref" else REFRULE[o["node"]["t"]], o["name"]) for o in objs]
        if shape != want:
            return {"outcome": "shape-mismatch", "got": shape, "want": want}
        num = {id(o): i for i, o in enumerate(order)}

        def ident(x):
            if x is None:
                return None
            return num.get(id(x), "other:" + type(x).__name__)

        got = []
        cnt = {}
        for r in refs:
            o = order[r["owner"]]
            v = getattr(o, r["attr"])
            if isinstance(v, list):
                j = cnt.get((r["owner"], r["attr"]), 0)
                cnt[(r["owner"], r["attr"])] = j + 1
                got.append(ident(v[j]) if j < len(v) else "missing")
            else:
                got.append(ident(v))
        prov = FQN()
        probes = []
        for cur, nm, t in case["probes"]:
            ref = ObjCrossRef(obj_name=nm, cls=mm[t], position=0, scope_provider=None, match_rule_name="FQN")
            try:
                probes.append(ident(prov(order[cur], None, ref)))
            except Exception as e:
                probes.append("exc:" + type(e).__name__)
        return {"outcome": "ok", "refs": got, "probes": probes}

    # ---------------------------------------------------------------- model
    def model_req(self, case, obs):
        if obs["outcome"] in ("grammar-error", "shape-mismatch"):
            return None
        objs, refs = build(case)
        conf = [[KNUM[k], TNUM[t]] for t in CONF for k in sorted(CONF[t])]
        probes = [[r["owner"], r["name"], TNUM[r["t"]]] for r in refs]
        if obs["outcome"] == "ok":
            probes += [[c, nm, TNUM[t]] for c, nm, t in case["probes"]]
        return {"op": "resolve_fqn", "root": lean_obj(case), "conf": conf, "probes": probes}

    def compare(self, case, obs, out):
        if "err" in out:
            return f"model rejected the request: {out}"
        objs, refs = build(case)
        m = out["probes"]
        mrefs, mprobes = m[: len(refs)], m[len(refs):]
        first_null = next((i for i, x in enumerate(mrefs) if x is None), None)
        if obs["outcome"] == "error":
            if obs["kind"] != "unknown":
                return f"implementation fails with {obs['kind']}; the model knows only Unknown object"
            if first_null is None:
                return f"implementation reports Unknown object at reference {obs['idx']}; the model resolves every reference"
            if first_null != obs["idx"]:
                return f"first unresolvable reference: impl #{obs['idx']}, model #{first_null}"
            return None
        if first_null is not None:
            return f"implementation loads the model; in the model reference #{first_null} '{refs[first_null]['name']}' is unknown"
        if mrefs != obs["refs"]:
            d = [(i, refs[i]["name"], obs["refs"][i], mrefs[i]) for i in range(len(refs)) if obs["refs"][i] != mrefs[i]]
            return f"reference targets differ (index, name, impl, model): {d[:4]}"
        if mprobes != obs["probes"]:
            d = [(case["probes"][i], obs["probes"][i], mprobes[i]) for i in range(len(mprobes)) if obs["probes"][i] != mprobes[i]]
            return f"direct FQN calls differ (probe, impl, model): {d[:4]}"
        return None

    # --------------------------------------------------------------- oracle
    def oracle(self, case, obs):
        if obs["outcome"] == "grammar-error":
            return f"grammar rejected: {obs['type']}: {obs['msg']}"
        if obs["outcome"] == "shape-mismatch":
            return f"loaded model does not have the generated shape: {obs['got']} vs {obs['want']}"
        objs, refs = build(case)
        if obs["outcome"] == "error" and obs["kind"] != "unknown":
            return f"loading fails with an unexpected error {obs['kind']}: {obs.get('msg')}"
        if not siblings_unique(objs):
            return None  # the property speaks about models with unique sibling names only
        want = [spec_fqn(objs, r["owner"], r["name"], r["t"]) for r in refs]
        failing = [i for i, w in enumerate(want) if w is None]
        if obs["outcome"] == "error":
            if not failing:
                return f"every dotted name designates a containment chain of the target type, but loading fails: {obs.get('msg')}"
            if obs["idx"] >= 0 and want[obs["idx"]] is not None:
                r = refs[obs["idx"]]
                return (f"reference #{obs['idx']} '{r['name']}' -> {r['t']} made by object #{r['owner']} designates object "
                        f"#{want[obs['idx']]} but is reported as Unknown object")
            return None
        if failing:
            i = failing[0]
            return (f"reference #{i} '{refs[i]['name']}' -> {refs[i]['t']} made by object #{refs[i]['owner']} matches no "
                    f"containment chain of the target type but resolved to object #{obs['refs'][i]}")
        for i, (w, g) in enumerate(zip(want, obs["refs"])):
            if w != g:
                return (f"reference #{i} '{refs[i]['name']}' -> {refs[i]['t']} made by object #{refs[i]['owner']} resolved to "
                        f"#{g}, the nearest matching chain ends in #{w}")
        for (cur, nm, t), g in zip(case["probes"], obs["probes"]):
            w = spec_fqn(objs, cur, nm, t)
            if w != g:
                return f"FQN provider called from object #{cur} for '{nm}' -> {t}: {g}, by the statement {w}"
        return None

    def kinds(self, case, obs):
        """per case: does some dotted name (a) need the outward search with a multi-part chain or shadowing,
        (b) have a spurious candidate: it would resolve if `parent` / reference attributes were followed, but no
        containment chain exists"""
        objs, refs = build(case)
        edges = {}
        for r in refs:
            if r["attr"] != "target":
                tgt = spec_fqn(objs, r["owner"], r["name"], r["t"])
                if tgt is not None:
                    edges.setdefault(r["owner"], []).append(tgt)

        def loose(cur, dotted, t):
            parts = dotted.split(".")
            p = cur
            while p is not None:
                front = [p]
                for n in parts:
                    nxt = []
                    for x in front:
                        cand = list(objs[x]["kids"]) + edges.get(x, [])
                        if objs[x]["parent"] is not None:
                            cand.append(objs[x]["parent"])
                        nxt += [y for y in cand if objs[y]["name"] == n]
                    front = nxt
                if any(objs[y]["k"] in CONF[t] for y in front):
                    return True
                p = objs[p]["parent"]
            return False

        triples = [(r["owner"], r["name"], r["t"]) for r in refs]
        if obs["outcome"] == "ok":
            triples += [tuple(p) for p in case["probes"]]
        outward = spurious = False
        for cur, nm, t in triples:
            w = spec_fqn(objs, cur, nm, t)
            if w is not None:
                parts = nm.split(".")
                if chain_end(objs, cur, parts) != w and (len(parts) >= 2 or sum(1 for o in objs if o["name"] == parts[0]) >= 2):
                    outward = True
            elif loose(cur, nm, t):
                spurious = True
        return outward, spurious

    def nontrivial(self, case, obs):
        if obs["outcome"] not in ("ok", "error"):
            return False
        outward, spurious = self.kinds(case, obs)
        return spurious

    # --------------------------------------------------------------- shrink
    def shrink(self, case):
        import copy

        if len(case["probes"]) > 1:
            for i in range(len(case["probes"])):
                c = copy.deepcopy(case)
                c["probes"] = [case["probes"][i]]
                yield c
        n = len(build(case)[0])
        # remove one package / group / class / ref statement (with its content); probes are renumbered
        for victim in range(1, n):
            c = copy.deepcopy(case)
            objs = build(c)[0]
            v = objs[victim]
            if v["node"] is None:
                continue
            for o in objs:
                if o["node"] is not None and o["k"] != "model":
                    o["node"]["_old"] = o["id"]
            par = objs[v["parent"]]
            pnode = c["tree"] if par["k"] == "model" else par["node"]
            attr = {"package": "packages", "group": "groups", "class": "classes", "ref": "refs"}[v["k"]]
            pnode[attr] = [x for x in pnode[attr] if x is not v["node"]]
            remap = {0: 0}
            for o in build(c)[0]:
                if o["node"] is not None and o["k"] != "model":
                    old = o["node"].pop("_old")
                    remap[old] = o["id"]
                    if o["k"] == "class":
                        nmem = (1 if o["node"].get("main") is not None else 0) + len(o["node"].get("members", []))
                        for d in range(1, nmem + 1):
                            remap[old + d] = o["id"] + d
            v["node"].pop("_old", None)
            c["probes"] = [[remap[cur], nm, t] for cur, nm, t in c["probes"] if cur in remap]
            yield c
        # drop friend / likes / members of a class
        for victim in range(1, n):
            o = build(case)[0][victim]
            if o["k"] != "class":
                continue
            for key in ("friend", "likes"):
                if o["node"].get(key):
                    c = copy.deepcopy(case)
                    build(c)[0][victim]["node"].pop(key)
                    yield c

    def sample_view(self, case, obs):
        return {"variant": case["variant"], "optional_group_names": bool(case.get("gopt")),
                "text": render(case)[0], "probes": case["probes"][:8],
                "user_classes": case.get("user", False), "impl": obs}

    def extra_search(self, rng, tier, broken):
        return list(self.gen(rng, 1500 if tier == "quick" else 10000, tier))

    def extra_evidence(self, cases, obs, model_outs):
        dist = {}
        nrefs = nprobes = resolved = dup = spurious = outward = 0
        for c, o in zip(cases, obs):
            if not isinstance(o, dict) or "outcome" not in o:
                continue
            k = o["outcome"] if o["outcome"] != "error" else "error:" + str(o.get("kind"))
            dist[k] = dist.get(k, 0) + 1
            objs, refs = build(c)
            nrefs += len(refs)
            if not siblings_unique(objs):
                dup += 1
            if o["outcome"] == "ok":
                nprobes += len(o["probes"])
                resolved += sum(1 for p in o["probes"] if isinstance(p, int))
            if o["outcome"] in ("ok", "error"):
                ow, sp = self.kinds(c, o)
                outward += ow
                spurious += sp
        return {"distribution": dist, "in_text_references": nrefs, "direct_provider_calls": nprobes,
                "direct_calls_resolved": resolved, "cases_with_duplicate_sibling_names": dup,
                "cases_with_spurious_candidate": spurious, "cases_needing_outward_search": outward,
                "user_class_cases": sum(1 for c in cases if c.get("user"))}
