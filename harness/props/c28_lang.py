"""Shared test language for C28 (error locations) and C34 (editor-support positions).

A *project* is 1..4 model files of one small language (packages, items, single
references, reference lists, nested objects sharing spans, line comments); file 0
is the main model, files import each other (`import "m2.mdl"`).  Two scope
provider set-ups: "plain" (PlainNameImportURI, plain names) and "fqn"
(FQNImportURI, qualified names `p1.p4.i7`, optionally written `p1 . p4 . i7`).
Every reference goes through a wrapper that postpones it on its first `wait`
calls (-1: for ever) before delegating to the textX provider.

A case is plain JSON; `render` produces the texts together with the exact offsets
of every token, reference, object and injected error, so that the oracles can
decide the properties from the text alone.
"""
import json
import os
import shutil
import tempfile

from harness.core import Rng, use_repo

GRAMMAR = r"""
Model: imports*=Import elems*=Elem;
Import: 'import' importURI=STRING;
Elem: Package | Item | Ref | Use | Wrap;
Package: 'package' name=ID '{' elems*=Elem '}';
Item: 'item' name=ID;
Ref: 'ref' name=ID '->' target=[Item:FQN];
Use: 'use' name=ID ':' targets+=[Item:FQN][','] ';';
Wrap: inner=Inner;
Inner: core=Core ('!' flag=ID)?;
Core: 'core' name=ID;
FQN: ID('.'ID)*;
Comment: /#.*$/;
"""

GARBAGE = ["@", "@@", "%", "$$", "^", "~", "&&", "?"]
FOREVER = -1


def fname(i):
    return f"m{i}.mdl"


# ---------------------------------------------------------------------------
# generation
# ---------------------------------------------------------------------------
def gen_project(rng, *, mode=None, nfiles=None, as_str=None, max_elems=6, link="import"):
    """A valid project (no injected error); returns the case dict.

    link: how the files of the project get to know each other
      "import"  — `import "m2.mdl"` statements + PlainNameImportURI / FQNImportURI (a string is a single file:
                  a model without file name cannot import);
      "global"  — no import statements; files 1.. are registered (one pattern per file, order `liborder`) at a
                  PlainNameGlobalRepo / FQNGlobalRepo and loaded together with the main model, which may be a
                  STRING; every file sees itself and files 1..;
      "builtin" — files 1.. are loaded beforehand (stand-alone, from files) into the meta-model's builtin model
                  repository; only the main model (file or STRING) is loaded by the observed call and sees them.
    """
    mode = mode or rng.choice(["plain", "fqn"])
    if as_str is None:
        as_str = rng.chance(0.15)
    if link == "import":
        if as_str:
            nfiles = 1
        elif nfiles is None:
            nfiles = rng.weighted([(1, 2), (2, 4), (3, 3), (4, 1)])
    elif nfiles is None:
        nfiles = rng.weighted([(2, 4), (3, 3), (4, 1)])
    # import graph: every file reachable from file 0
    imports = [[] for _ in range(nfiles)]
    if link == "import":
        for j in range(1, nfiles):
            imports[rng.below(j)].append(j)
        for i in range(nfiles):
            for j in range(nfiles):
                if i != j and j not in imports[i] and rng.chance(0.2):
                    imports[i].append(j)
            imports[i] = rng.shuffle(imports[i])
    counter = {"item": 0, "pkg": 0, "ref": 0, "use": 0, "core": 0, "id": 0}

    def fresh(kind, prefix):
        counter[kind] += 1
        return f"{prefix}{counter[kind]}"

    # pass 1: structure with items (so that references can choose targets)
    def gen_elems(depth, n):
        out = []
        for _ in range(n):
            k = rng.weighted([("item", 5), ("pkg", (4 if mode == "fqn" else 2) if depth < 2 else 0), ("ref", 4), ("use", 2),
                              ("wrap", 2)])
            if k == "item":
                out.append({"k": "item", "name": fresh("item", "i")})
            elif k == "pkg":
                out.append({"k": "pkg", "name": fresh("pkg", "p"), "elems": gen_elems(depth + 1, rng.randint(0 if mode == "plain" else 1, 3))})
            elif k == "ref":
                out.append({"k": "ref", "name": fresh("ref", "r")})
            elif k == "use":
                out.append({"k": "use", "name": fresh("use", "u"), "n": rng.randint(1, 4)})
            else:
                out.append({"k": "wrap", "name": fresh("core", "c"), "flag": "f" if rng.chance(0.5) else None})
        return out

    files = []
    for i in range(nfiles):
        elems = gen_elems(0, rng.randint(1, max_elems))
        if link == "builtin" and i > 0:
            elems = strip_refs(elems)  # a finished model: its references are not the observed load's business
        files.append({"name": fname(i), "imports": imports[i], "elems": elems})

    def items_of(elems):
        for e in elems:
            if e["k"] == "item":
                yield e["name"]
            elif e["k"] == "pkg":
                yield from items_of(e["elems"])

    def sees(i):
        """files whose items file i can refer to (besides its own)"""
        if link == "import":
            return imports[i]
        if link == "global":
            return [j for j in range(1, nfiles) if j != i]
        return list(range(1, nfiles)) if i == 0 else []  # builtin

    visible = []
    for i in range(nfiles):
        names = list(items_of(files[i]["elems"]))
        for j in sees(i):
            names += list(items_of(files[j]["elems"]))
        visible.append(names)
    # make sure something can be referenced from every file
    for i in range(nfiles):
        if not visible[i]:
            nm = fresh("item", "i")
            files[i]["elems"].insert(0, {"k": "item", "name": nm})
            for k in range(nfiles):
                if k == i or i in sees(k):
                    visible[k].append(nm)

    def mkref(i):
        counter["id"] += 1
        return {"id": counter["id"], "target": rng.choice(visible[i]),
                "wait": rng.weighted([(0, 6), (1, 3), (2, 2), (3, 1)]),
                "sp": mode == "fqn" and rng.chance(0.3)}

    def fill(i, elems):
        for e in elems:
            if e["k"] == "ref":
                e.update(mkref(i))
            elif e["k"] == "use":
                e["targets"] = [mkref(i) for _ in range(e.pop("n"))]
            elif e["k"] == "pkg":
                fill(i, e["elems"])

    for i in range(nfiles):
        fill(i, files[i]["elems"])
    case = {"mode": mode, "str": bool(as_str), "files": files, "layout": rng.below(1 << 30)}
    if link != "import":
        case["link"] = link
        case["liborder"] = rng.shuffle(list(range(1, nfiles)))
    if rng.chance(0.7):
        compress_waits(case)
    return case


def strip_refs(elems):
    out = []
    for e in elems:
        if e["k"] in ("ref", "use"):
            continue
        out.append(dict(e, elems=strip_refs(e["elems"])) if e["k"] == "pkg" else e)
    return out


def item_names(elems):
    """names of the items defined in an element list (nested packages included)"""
    for e in elems:
        if e["k"] == "item":
            yield e["name"]
        elif e["k"] == "pkg":
            yield from item_names(e["elems"])


def all_refs(case):
    """reference dicts of the case, in file / text order"""
    out = []

    def go(fi, elems):
        for e in elems:
            if e["k"] == "ref":
                out.append((fi, e))
            elif e["k"] == "use":
                for t in e["targets"]:
                    out.append((fi, t))
            elif e["k"] == "pkg":
                go(fi, e["elems"])

    for fi, f in enumerate(case["files"]):
        go(fi, f["elems"])
    return out


def compress_waits(case):
    """make the finite waits contiguous 0..m so that every round resolves something"""
    refs = [r for _, r in all_refs(case)]
    vals = sorted({r["wait"] for r in refs if r["wait"] >= 0})
    rank = {w: i for i, w in enumerate(vals)}
    for r in refs:
        if r["wait"] >= 0:
            r["wait"] = rank[r["wait"]]


def file_order(case):
    """load order = order of the models in the resolution rounds: main first,
    then imports depth-first in text order (first visit)"""
    link = case.get("link", "import")
    if link == "builtin":
        return [0]  # the builtin models are finished models: not part of the observed load
    if link == "global":
        # main first (GlobalModelRepository registers the model that asks for the patterns), then the
        # registered files in registration order
        return [0] + list(case["liborder"])
    order, seen = [], set()

    def go(i):
        if i in seen:
            return
        seen.add(i)
        order.append(i)
        for j in case["files"][i]["imports"]:
            go(j)

    go(0)
    return order


# ---------------------------------------------------------------------------
# rendering
# ---------------------------------------------------------------------------
class Rendered:
    def __init__(self):
        self.texts = []  # per file
        self.tokens = []  # per file: [start, end, text, role]
        self.refs = []  # dicts: id, file, start, end, target, wait, text
        self.items = {}  # name -> list of (file, start, end)  (start of 'item', end of name)
        self.objs = []  # per file: [(kind, start, end)]
        self.inject_offset = None  # (file, offset) of an injected syntax error


def item_paths(case):
    paths = {}

    def go(elems, prefix):
        for e in elems:
            if e["k"] == "item" and not e.get("dup"):
                paths[e["name"]] = prefix + [e["name"]]
            elif e["k"] == "pkg":
                go(e["elems"], prefix + [e["name"]])

    for f in case["files"]:
        go(f["elems"], [])
    return paths


_RENDER_CACHE = {}


def render(case):
    """texts and offsets of a case (memoised: the runner asks several times per case)"""
    key = json.dumps(case, sort_keys=True)
    hit = _RENDER_CACHE.get(key)
    if hit is None:
        if len(_RENDER_CACHE) > 4000:
            _RENDER_CACHE.clear()
        hit = _RENDER_CACHE[key] = _render(case)
    return hit


def _render(case):
    R = Rendered()
    paths = item_paths(case)
    inj = case.get("inject") or {}
    for fi, f in enumerate(case["files"]):
        lay = Rng(f"{case['layout']}:{fi}")
        parts = []  # text pieces
        toks = []
        pos = [0]

        def emit_raw(s):
            parts.append(s)
            pos[0] += len(s)

        def ws(first=False):
            # '\r\n' only for strings: files are read with universal newlines
            k = lay.weighted([(" ", 6), ("\n", 3), ("  ", 1), ("\n\n", 1), ("\t", 1), (" # c\n", 1), ("\n  ", 2),
                              (" # \u00e9\u00fc \u4e2d\n", 1), ("\r\n" if case["str"] and fi == 0 else "\n", 1)])
            if first:
                k = lay.weighted([("", 3), ("\n", 1), ("  ", 1), ("# head\n", 1)])
            emit_raw(k)

        def tok(s, role=""):
            ws(first=not toks and not parts)
            k = len(toks)
            if inj.get("kind") == "syntax" and inj["file"] == fi and inj["tok"] == k:
                how = inj["how"]
                if how == "insert":
                    R.inject_offset = (fi, pos[0])
                    emit_raw(inj["garbage"])
                    emit_raw(" ")
                elif how == "replace":
                    R.inject_offset = (fi, pos[0])
                    s = inj["garbage"]
                elif how == "delete":
                    # the token is dropped; the next token is the offending text
                    toks.append([pos[0], pos[0], "", "deleted"])
                    R.inject_pending = True
                    return (pos[0], pos[0])
            if getattr(R, "inject_pending", False):
                R.inject_offset = (fi, pos[0])
                R.inject_pending = False
            st = pos[0]
            emit_raw(s)
            toks.append([st, pos[0], s, role])
            return (st, pos[0])

        def ref_text(r):
            if r.get("unknown"):
                segs = r["target_path"]
            else:
                segs = paths[r["target"]] if case["mode"] == "fqn" else [r["target"]]
            sep = " . " if r.get("sp") else "."
            return sep.join(segs)

        def do_ref(r):
            st, en = tok(ref_text(r), "ref")
            R.refs.append({"id": r["id"], "file": fi, "start": st, "end": en, "target": r["target"],
                           "wait": r["wait"], "unknown": bool(r.get("unknown"))})

        objs = []

        def do_elems(elems):
            for e in elems:
                k = e["k"]
                if k == "item":
                    st, _ = tok("item", "kw")
                    _, en = tok(e["name"], "name")
                    R.items.setdefault(e["name"], []).append((fi, st, en))
                    objs.append(("Item", st, en))
                elif k == "pkg":
                    st, _ = tok("package", "kw")
                    tok(e["name"], "name")
                    tok("{", "open")
                    do_elems(e["elems"])
                    _, en = tok("}", "close")
                    objs.append(("Package", st, en))
                elif k == "ref":
                    st, _ = tok("ref", "kw")
                    tok(e["name"], "name")
                    tok("->", "arrow")
                    do_ref(e)
                    objs.append(("Ref", st, R.refs[-1]["end"]))
                elif k == "use":
                    st, _ = tok("use", "kw")
                    tok(e["name"], "name")
                    tok(":", "colon")
                    for j, t in enumerate(e["targets"]):
                        if j:
                            tok(",", "comma")
                        do_ref(t)
                    _, en = tok(";", "semi")
                    objs.append(("Use", st, en))
                elif k == "wrap":
                    st, _ = tok("core", "kw")
                    _, en = tok(e["name"], "name")
                    objs.append(("Core", st, en))
                    if e.get("flag"):
                        tok("!", "bang")
                        _, en2 = tok(e["flag"], "name")
                        objs.append(("Inner", st, en2))
                        objs.append(("Wrap", st, en2))
                    else:
                        objs.append(("Inner", st, en))
                        objs.append(("Wrap", st, en))

        for j in f["imports"]:
            st, _ = tok("import", "kw")
            _, en = tok('"' + fname(j) + '"', "str")
            objs.append(("Import", st, en))
        do_elems(f["elems"])
        # injected garbage / pending deletion at the very end of the file
        if inj.get("kind") == "syntax" and inj["file"] == fi and inj["tok"] == len(toks) and inj["how"] == "insert":
            ws()
            R.inject_offset = (fi, pos[0])
            emit_raw(inj["garbage"])
        emit_raw(lay.choice(["", "\n", " \n", "\n# end", "\n# end\n"]))
        if getattr(R, "inject_pending", False):
            R.inject_offset = (fi, pos[0])
            R.inject_pending = False
        R.texts.append("".join(parts))
        R.tokens.append(toks)
        R.objs.append(objs)
    return R


def linecol(text, off):
    """line and column (1-based) of an offset, straight from the text"""
    line = text.count("\n", 0, off) + 1
    col = off - (text.rfind("\n", 0, off) + 1) + 1
    return line, col


# ---------------------------------------------------------------------------
# running the real implementation
# ---------------------------------------------------------------------------
class NonTermination(Exception):
    pass


def load_project(case, R, tools):
    """Loads the project with the textX under test.  Returns
    (model or None, exception or None, log, tmpdir-or-None, mm); the caller removes tmpdir."""
    use_repo()
    from textx import metamodel_from_str
    from textx.scoping import Postponed
    from textx.scoping import providers as sp

    link = case.get("link", "import")
    tmp = None
    if not case["str"] or len(R.texts) > 1:
        tmp = tempfile.mkdtemp(prefix="verif-c28-")
        for i, t in enumerate(R.texts):
            if i == 0 and (case["str"] or case.get("vname")):
                continue  # the main text is handed over as a string (vname: together with a file name)
            with open(os.path.join(tmp, fname(i)), "w", encoding="utf-8", newline="") as fh:
                fh.write(t)
    builtin = None
    if link == "builtin":
        # files 1.. are finished models of the builtin repository, each loaded stand-alone from its file
        from textx.scoping import ModelRepository

        builtin = ModelRepository()
        lib_mm = metamodel_from_str(GRAMMAR)
        lib_mm.register_scope_providers({"*.*": sp.PlainName() if case["mode"] == "plain" else sp.FQN()})
        for i in case["liborder"]:
            builtin.add_model(lib_mm.model_from_file(os.path.join(tmp, fname(i))))
    mm = metamodel_from_str(GRAMMAR, textx_tools_support=tools, builtin_models=builtin)
    if link == "global":
        base = sp.PlainNameGlobalRepo() if case["mode"] == "plain" else sp.FQNGlobalRepo()
        for i in case["liborder"]:
            base.register_models(os.path.join(tmp, fname(i)))
    else:
        base = sp.PlainNameImportURI() if case["mode"] == "plain" else sp.FQNImportURI()
    waits = {}
    for r in R.refs:
        waits[(fname(r["file"]), r["start"])] = (r["id"], r["wait"])
    calls = {}
    log = []
    limit = 50 * (len(R.refs) + 2)
    total = [0]

    def wrapper(obj, attr, obj_ref):
        from textx import get_model

        total[0] += 1
        if total[0] > limit:
            raise NonTermination("scope provider called too often")
        fn = get_model(obj)._tx_filename
        key = (os.path.basename(fn) if fn else fname(0), obj_ref.position)
        rid, wait = waits.get(key, (None, 0))
        c = calls.get(key, 0)
        calls[key] = c + 1
        if wait == FOREVER or c < wait:
            log.append([rid, "P"])
            return Postponed()
        try:
            res = base(obj, attr, obj_ref)
        except Exception:
            log.append([rid, "X"])
            raise
        log.append([rid, "R" if res is not None else "U"])
        return res

    mm.register_scope_providers({"*.*": base, "Ref.target": wrapper, "Use.targets": wrapper})
    model, exc = None, None
    try:
        if case["str"]:
            model = mm.model_from_str(R.texts[0])
        elif case.get("vname"):
            # an unsaved buffer: the text comes as a string together with the name of a file that does not exist
            model = mm.model_from_str(R.texts[0], file_name=os.path.join(tmp, fname(0)))
        else:
            model = mm.model_from_file(os.path.join(tmp, fname(0)))
    except Exception as e:  # everything the code under test raises is an observation
        exc = e
    return model, exc, log, tmp, mm


def cleanup(tmp):
    if tmp:
        shutil.rmtree(tmp, ignore_errors=True)


def models_by_file(case, model):
    """file index -> model object, for a successfully loaded project"""
    out = {0: model}
    repo = getattr(model, "_tx_model_repository", None)
    if repo is not None:
        for fn, m in repo.all_models.filename_to_model.items():
            b = os.path.basename(fn)
            for i in range(len(case["files"])):
                if b == fname(i):
                    out[i] = m
    return out


# ---------------------------------------------------------------------------
# Lean request pieces
# ---------------------------------------------------------------------------
def lean_files(case, R, nm=None):
    """files in load order for the `error_loc` / `tools` ops, and the root index
    (position in that order) of every file"""
    order = file_order(case)
    files = []
    for fi in order:
        refs = sorted((r for r in R.refs if r["file"] == fi), key=lambda r: r["start"])
        files.append({
            "name": None if case["str"] and fi == 0 else fname(fi),
            "text": R.texts[fi],
            "refs": [[r["id"], r["start"], r["end"]] for r in refs],
            "nm": nm.get(fi) if nm else None,
        })
    return files, {fi: k for k, fi in enumerate(order)}


def answer_table(case, R, final):
    """[[id, ["P"]*wait + [final(ref)]]] ; a reference postponed for ever has no final answer"""
    tbl = []
    loaded = set(file_order(case))
    for r in R.refs:
        if r["file"] not in loaded:
            continue  # reference of a finished (builtin) model: not resolved by the observed load
        if r["wait"] == FOREVER:
            tbl.append([r["id"], []])
        else:
            tbl.append([r["id"], ["P"] * r["wait"] + [final(r)]])
    return tbl
